//! C20 (vi): `StunEndpoint::send_request` over an unreliable transport — retransmission
//! schedule, matching by transaction id, no transaction entry outlives the call.
//!
//! One current-thread tokio runtime with a paused clock per case; all instants are virtual.
//! The expected schedule is computed here from the statement ("sent up to 7 times with a
//! doubling 500 ms timeout"): t_i = 500 ms * (2^i - 1), i = 0..6.
//!
//! What is generated
//!  * client_schedule: every answered/lost pattern of the 7 transmissions x {all right id, all wrong
//!    id, first wrong then right} x 4 response delays (the schedule space, exhaustive), crossed with
//!    the SHAPE of the exchange (what the messages look like, which the statement quantifies over by
//!    saying nothing else than "matched by transaction id"):
//!      - class of the delivered messages: success response, error response (both are "its
//!        response", RFC 8489 section 6.3.3 / 6.3.4), and the two non-response classes (request,
//!        indication) carrying the id of the pending request;
//!      - content of the delivered messages: header only, or attributes (curated success / error
//!        bodies: XOR-MAPPED-ADDRESS, 401 + REALM + NONCE, 300 + ALTERNATE-SERVER, 420 +
//!        UNKNOWN-ATTRIBUTES, 438 + MESSAGE-INTEGRITY-SHA256, ... and attribute sets drawn from the
//!        codec generator `gen::message`), with and without MESSAGE-INTEGRITY / FINGERPRINT;
//!      - the transaction id (fixed pattern, all zero, all one, only the lowest / highest bit, zero
//!        low 64 bits, zero high 32 bits, ...) and which of its 96 bits differs in a wrong-id message;
//!      - content of the request itself (header only, SOFTWARE, authenticated request);
//!      - the address the request is sent to (IPv4, IPv6, IPv4-mapped IPv6 server) and the address its
//!        messages are RECEIVED FROM: the server's own; the server's host with another port; the same
//!        IPv4 host named in the other family (a.b.c.d <-> ::ffff:a.b.c.d, what a dual-stack socket
//!        reports); another address of the same family (multi-homed / anycast server); an address of
//!        the other family. The statement matches "by transaction id", by nothing else.
//!    Quick: every schedule x {success, error} x {header only, one pooled body} and x {request,
//!    indication} x one body, ids / request shapes rotating.  Thorough: every schedule x 4 classes x
//!    every pooled body.
//!  * client_concurrent: 2 or 3 requests pending at the same time on one endpoint (staggered starts,
//!    ids that differ in one bit / only in the high 32 bits / only in the low 64 bits), each answered
//!    (success or error, with or without attributes) at one of its transmissions or never, plus the
//!    same id used again by a later call after the first one ended. Calls go to one server or to
//!    different servers; a response comes from its own server, from another of that server's
//!    addresses, or from the server ANOTHER pending call was sent to.
//!  * client_cleanup: send_to failing at each transmission; the future dropped on a grid of
//!    instants; afterwards a late message of each class with the request's id.
//!  * client_transport: WHERE the call is when its response comes in. How the user's send_to
//!    completes (ready on its first poll / returns Pending 1 or 3 times without time passing /
//!    stays pending 2 or 40 ms) x how the peer's answer reaches StunEndpoint::receive (from inside
//!    send_to before or after its own await points = peer in the same process; from a server task
//!    that send_to wakes, latency 0 / half of the pending time / 1 ms after send_to returned) x which
//!    transmission is answered by the right id (each of the 7, or none) x foreign-id responses
//!    (none / one back to back in front of the right one / to every earlier transmission / only
//!    foreign ones) x {success, error} x {header only, pooled body}, ids and request contents
//!    rotating. So the response to transmission i arrives while send_to of transmission i is still
//!    pending (i = 0: the initial transmission; i > 0: a retransmission), or right after it returned.
//!
//! Oracle (from the statement only)
//!  * transmissions exactly at t_i until the response, same bytes, same target; the call returns
//!    at the instant its response is delivered, with that very message (same bytes, same class);
//!  * a message with another id never completes the call and reaches StunEndpointUser::receive;
//!    further messages with the right id after completion reach the user, too (no entry left);
//!  * with several requests pending, each call is completed by the response carrying ITS id and is
//!    not disturbed by the others; the number of entries after each return equals the number of
//!    calls still running;
//!  * 0 entries after return / error / drop;
//!  * client_transport: the response with the request's id completes the call wherever the call is
//!    at that instant (inside send_to or waiting); no transmission follows it; the call returns at
//!    the instant of delivery or, if send_to of that transmission was still pending, when that send_to
//!    returned; foreign-id responses reach the user at their instants; 0 entries afterwards.
//!
//! Not asserted
//!  * whether a REQUEST or INDICATION carrying the pending id completes the call: the statement
//!    speaks of "its response" only. Both readings (taken as the response like ezk does today / handed
//!    to the user while the call continues) are accepted as a whole; everything else is asserted
//!    under the reading observed;
//!  * give-up instant 39.5 s (RFC Rm = 16) or 63.5 s (pure doubling);
//!  * whether the 500 ms << i wait runs from the start or from the end of a send_to that takes time
//!    (client_transport accepts either reading for the whole case; ezk: from the end);
//!  * a timing tie between a server task's delivery and the completion of a pending send_to (not
//!    generated); what a send_to that fails AFTER the response came in should return;
//!  * reliable transports, methods other than Binding (ezk's parser knows no other), the source
//!    address StunEndpointUser::receive is told for an unmatched message, two calls pending with
//!    the SAME id.

use crate::engine::*;
use crate::refmodel::ref_stun::*;
use parking_lot::Mutex;
use serde::{Deserialize, Serialize};
use std::io;
use std::net::SocketAddr;
use std::sync::Arc;
use std::time::Duration;
use stun::{IncomingMessage, Request, StunEndpoint, StunEndpointUser, TransportInfo};
use stun_types::parse::ParsedMessage;
use tokio::time::Instant;

struct MockTp {
    reliable: bool,
}

impl TransportInfo for MockTp {
    fn reliable(&self) -> bool {
        self.reliable
    }
}

struct MockUser {
    t0: Instant,
    /// (virtual microseconds since t0, bytes, target)
    sends: Mutex<Vec<(u64, Vec<u8>, SocketAddr)>>,
    /// (virtual microseconds, transaction id, bytes) handed to `receive`
    received: Mutex<Vec<(u64, u128, Vec<u8>)>>,
    /// the n-th call (0-based) of `send_to` fails
    fail_on: Option<usize>,
    /// virtual milliseconds `send_to` itself takes (an await point inside the transport)
    send_delay_ms: u64,
}

impl MockUser {
    fn now_us(&self) -> u64 {
        (Instant::now() - self.t0).as_micros() as u64
    }
}

#[async_trait::async_trait]
impl StunEndpointUser for MockUser {
    type Transport = MockTp;

    async fn send_to(&self, bytes: &[u8], target: SocketAddr, _transport: &MockTp) -> io::Result<()> {
        let n = {
            let mut s = self.sends.lock();
            s.push((self.now_us(), bytes.to_vec(), target));
            s.len() - 1
        };
        if self.send_delay_ms > 0 {
            tokio::time::sleep(Duration::from_millis(self.send_delay_ms)).await;
        }
        if self.fail_on == Some(n) {
            return Err(io::Error::new(io::ErrorKind::ConnectionRefused, "mock send failure"));
        }
        Ok(())
    }

    async fn receive(&self, message: IncomingMessage<MockTp>) {
        self.received.lock().push((self.now_us(), message.message.tsx_id, message.message.buffer().to_vec()));
    }
}


const TID: [u8; 12] = [0x01, 0x23, 0x45, 0x67, 0x89, 0xab, 0xcd, 0xef, 0x10, 0x32, 0x54, 0x76];

fn default_tid() -> [u8; 12] {
    TID
}

fn default_class() -> RClass {
    RClass::Success
}

fn tid_u128(t: &[u8; 12]) -> u128 {
    t.iter().fold(0u128, |v, b| (v << 8) | *b as u128)
}

/// Binding message of the given class, reference-encoded
fn msg_bytes(class: RClass, tid: [u8; 12], attrs: &[RAttr], tail: &[RTail]) -> Vec<u8> {
    encode(&RMsg { class, method: 1, tid, attrs: attrs.to_vec(), tail: tail.to_vec() })
}

/// expected transmission instants in ms
pub(super) fn t_send(i: usize) -> u64 {
    500 * ((1u64 << i) - 1)
}

fn runtime() -> tokio::runtime::Runtime {
    tokio::runtime::Builder::new_current_thread()
        .enable_time()
        .start_paused(true)
        .build()
        .expect("runtime")
}

fn target() -> SocketAddr {
    "192.0.2.10:3478".parse().unwrap()
}

/// servers a request is sent to: IPv4, IPv6, and the IPv4 server the way a dual-stack socket names it
pub(super) fn target_pool() -> Vec<SocketAddr> {
    vec![target(), "[2001:db8::10]:3478".parse().unwrap(), "[::ffff:192.0.2.10]:19302".parse().unwrap()]
}

/// relation of the address a message is received from to the address the request was sent to
#[derive(Clone, Copy, Debug, PartialEq, Eq)]
pub(super) enum SourceKind {
    Target,
    /// same host, another port (server answers from another socket)
    OtherPort,
    /// the same IPv4 host named in the other family (a.b.c.d <-> ::ffff:a.b.c.d), same port
    MappedForm,
    /// another address of the same family (multi-homed / anycast server, NAT on the path)
    OtherIp,
    OtherFamily,
}

pub(super) fn v4_of(ip: std::net::IpAddr) -> Option<std::net::Ipv4Addr> {
    match ip {
        std::net::IpAddr::V4(a) => Some(a),
        std::net::IpAddr::V6(a) => a.to_ipv4_mapped(),
    }
}

pub(super) fn source_kind(target: SocketAddr, source: SocketAddr) -> SourceKind {
    if source == target {
        SourceKind::Target
    } else if source.ip() == target.ip() {
        SourceKind::OtherPort
    } else if v4_of(source.ip()).is_some() && v4_of(source.ip()) == v4_of(target.ip()) {
        SourceKind::MappedForm
    } else if source.is_ipv4() == target.is_ipv4() {
        SourceKind::OtherIp
    } else {
        SourceKind::OtherFamily
    }
}

/// addresses a message for a request sent to `t` is received from; the first one is `t` itself
pub(super) fn source_pool(t: SocketAddr) -> Vec<SocketAddr> {
    use std::net::{IpAddr, Ipv4Addr, Ipv6Addr};
    let p = t.port();
    let other_port = SocketAddr::new(t.ip(), if p == 3478 { 3479 } else { 3478 });
    let mut v = vec![t, other_port];
    match t.ip() {
        IpAddr::V4(a) => {
            v.push(SocketAddr::new(IpAddr::V6(a.to_ipv6_mapped()), p));
            let o = a.octets();
            v.push(SocketAddr::new(IpAddr::V4(Ipv4Addr::new(o[0], o[1], o[2], o[3] ^ 1)), p));
            v.push(SocketAddr::new(IpAddr::V4(Ipv4Addr::new(198, 51, 100, 77)), 40_000));
            v.push(SocketAddr::new(IpAddr::V6(Ipv6Addr::new(0x2001, 0xdb8, 0, 0, 0, 0, 0, 0x10)), p));
        }
        IpAddr::V6(a) => {
            if let Some(m) = a.to_ipv4_mapped() {
                v.push(SocketAddr::new(IpAddr::V4(m), p));
                let o = m.octets();
                v.push(SocketAddr::new(IpAddr::V6(Ipv4Addr::new(o[0], o[1], o[2], o[3] ^ 1).to_ipv6_mapped()), p));
                v.push(SocketAddr::new(IpAddr::V4(Ipv4Addr::new(198, 51, 100, 77)), p));
            } else {
                let mut s = a.segments();
                s[7] ^= 1;
                v.push(SocketAddr::new(IpAddr::V6(Ipv6Addr::from(s)), p));
                // the same interface id under the link-local prefix
                v.push(SocketAddr::new(IpAddr::V6(Ipv6Addr::new(0xfe80, 0, 0, 0, s[4], s[5], s[6], s[7] ^ 1)), p));
                v.push(SocketAddr::new(IpAddr::V4(Ipv4Addr::new(192, 0, 2, 10)), p));
            }
        }
    }
    v
}

pub(super) fn source_class(k: SourceKind) -> &'static str {
    match k {
        SourceKind::Target => "source:the-target",
        SourceKind::OtherPort => "source:target-host-other-port",
        SourceKind::MappedForm => "source:target-host-in-the-other-family(v4-mapped)",
        SourceKind::OtherIp => "source:other-address-same-family",
        SourceKind::OtherFamily => "source:other-address-other-family",
    }
}

/// part of a failure signature: which kind of source a response that was not matched came from
pub(super) fn source_tag(k: SourceKind) -> &'static str {
    match k {
        SourceKind::Target => "",
        SourceKind::OtherPort => "-from-another-port",
        _ => "-from-another-address",
    }
}

/// A failure signature that blames the source address (`source_tag`) is only right when the same
/// exchange answered from the target's own address IS matched. `control` runs that exchange (the
/// case with every source reset to the target; a pure function of the case); where it fails under the
/// untagged signature as well, the source is not the cause and the tag is removed.
pub(super) fn refine_source_tag(out: &mut CaseOut, control: impl FnOnce() -> CaseOut) {
    let tags = ["-from-another-address", "-from-another-port"];
    if !out.failures.iter().any(|f| tags.iter().any(|t| f.sig.contains(t))) {
        return;
    }
    let ctl = control();
    let mut kept: Vec<Failure> = vec![];
    for mut f in std::mem::take(&mut out.failures) {
        for t in tags {
            if f.sig.contains(t) {
                let base = f.sig.replace(t, "");
                if ctl.failures.iter().any(|c| c.sig == base) {
                    f.sig = base;
                    f.msg.push_str(" [control: the same exchange answered from the target's own address is not matched either]");
                }
            }
        }
        if !kept.iter().any(|k| k.sig == f.sig) {
            kept.push(f);
        }
    }
    out.failures = kept;
}

pub(super) fn scratch_out() -> CaseOut {
    CaseOut { failures: vec![], classes: vec![], nontrivial: None, note: None }
}

fn target_class(t: SocketAddr) -> &'static str {
    match t.ip() {
        std::net::IpAddr::V4(_) => "target:ipv4",
        std::net::IpAddr::V6(a) if a.to_ipv4_mapped().is_some() => "target:ipv4-mapped-ipv6",
        _ => "target:ipv6",
    }
}

/// deterministic pseudo-random rotation of (target, source) over a counter (no correlation with the
/// other rotating shapes of a case list)
fn pick_addrs(m: usize) -> (SocketAddr, SocketAddr) {
    let h = (m as u64).wrapping_mul(0x9E37_79B9_7F4A_7C15) >> 20;
    let targets = target_pool();
    let t = targets[(h % targets.len() as u64) as usize];
    let pool = source_pool(t);
    let s = pool[((h / 7) % pool.len() as u64) as usize];
    (t, s)
}

fn new_user(t0: Instant, fail_on: Option<usize>, send_delay_ms: u64) -> MockUser {
    MockUser { t0, sends: Mutex::new(vec![]), received: Mutex::new(vec![]), fail_on, send_delay_ms }
}

fn class_name(c: RClass) -> &'static str {
    match c {
        RClass::Success => "success-response",
        RClass::Error => "error-response",
        RClass::Request => "request",
        RClass::Indication => "indication",
    }
}

fn is_response(c: RClass) -> bool {
    matches!(c, RClass::Success | RClass::Error)
}

// --- shapes of the exchange: message bodies, transaction ids, requests ------------------------------------------

/// attributes + protection tail of a message
#[derive(Clone, Debug, PartialEq)]
pub struct Body {
    pub attrs: Vec<RAttr>,
    pub tail: Vec<RTail>,
}

fn short(pw: &str) -> RKey {
    RKey::ShortTerm { password: pw.into() }
}

fn long_md5() -> RKey {
    RKey::LongTermMd5 { user: "user".into(), realm: "example.org".into(), password: "secret".into() }
}

/// bodies a server really sends with the given class (RFC 8489 sections 6.3.3, 6.3.4, 9.2.4, 10, 14.8);
/// for the non-response classes: what a peer's own request / indication looks like
fn curated_bodies(class: RClass) -> Vec<Body> {
    let b = |attrs: Vec<RAttr>, tail: Vec<RTail>| Body { attrs, tail };
    let err = |code: u16, reason: &str| RAttr::ErrorCode { code, reason: reason.into() };
    let v4 = RAddr::V4 { ip: [192, 0, 2, 1], port: 32853 };
    let v6 = RAddr::V6 { ip: [0x20, 0x01, 0x0d, 0xb8, 0x12, 0x34, 0x56, 0x78, 0, 0x11, 0x22, 0x33, 0x44, 0x55, 0x66, 0x77], port: 32853 };
    match class {
        RClass::Success => vec![
            b(vec![RAttr::XorMappedAddress(v4)], vec![]),
            b(vec![RAttr::XorMappedAddress(v6), RAttr::Software("test vector".into())], vec![RTail::Integrity(short("VOkJxbRl1RmTxUk/WvJxBt")), RTail::Fingerprint]),
            b(vec![RAttr::MappedAddress(v4), RAttr::XorMappedAddress(v4)], vec![RTail::Fingerprint]),
            b(vec![RAttr::XorMappedAddress(v4)], vec![RTail::IntegritySha256(long_md5())]),
        ],
        RClass::Error => vec![
            b(vec![err(401, "Unauthenticated"), RAttr::Realm("example.org".into()), RAttr::Nonce(b"f//499k954d6OL34oL9FSTvy64sA".to_vec())], vec![]),
            b(vec![err(400, "")], vec![]),
            b(vec![err(300, "Try Alternate"), RAttr::AlternateServer(v4)], vec![]),
            b(vec![err(420, "Unknown Attribute"), RAttr::UnknownAttributes(vec![0x0030, 0x8040])], vec![RTail::Fingerprint]),
            b(vec![err(438, "Stale Nonce"), RAttr::Realm("example.org".into()), RAttr::Nonce(b"obMatJos2AAACf//".to_vec())], vec![RTail::IntegritySha256(long_md5())]),
            b(vec![err(500, "Server Error"), RAttr::Software("srv".into())], vec![RTail::Integrity(long_md5()), RTail::Fingerprint]),
        ],
        RClass::Request | RClass::Indication => vec![
            b(vec![RAttr::Software("peer".into())], vec![]),
            b(vec![RAttr::Username("evtj:h6vY".into())], vec![RTail::Integrity(short("VOkJxbRl1RmTxUk/WvJxBt")), RTail::Fingerprint]),
            b(vec![], vec![RTail::Fingerprint]),
        ],
    }
}

/// curated bodies of the class followed by attribute sets of the codec generator (fixed seed: the
/// pool is the same in every run; a case stores the body itself, not an index into the pool)
fn body_pool(class: RClass) -> Vec<Body> {
    let mut v = curated_bodies(class);
    for (i, m) in sample_strategy(&super::gen::message(), 0xC20, 60).into_iter().enumerate() {
        // every other one without protection attributes (the generator attaches them to most messages)
        let body = Body { tail: if i % 2 == 1 && !m.attrs.is_empty() { vec![] } else { m.tail }, attrs: m.attrs };
        if (body.attrs.is_empty() && body.tail.is_empty()) || v.contains(&body) {
            continue;
        }
        v.push(body);
        if v.len() >= 20 {
            break;
        }
    }
    v
}

fn tid_pool() -> Vec<[u8; 12]> {
    let mut low = [0u8; 12];
    low[11] = 1;
    let mut high = [0u8; 12];
    high[0] = 0x80;
    vec![
        TID,
        [0u8; 12],
        [0xffu8; 12],
        low,
        high,
        // low 64 bits zero / high 32 bits zero / zero tail: ids a truncating table key would confuse
        [0xde, 0xad, 0xbe, 0xef, 0, 0, 0, 0, 0, 0, 0, 0],
        [0, 0, 0, 0, 0x5a, 0x11, 0x22, 0x33, 0x44, 0x55, 0x66, 0x77],
        [0x9c, 0x01, 0x7f, 0x80, 0xff, 0x00, 0x13, 0x37, 0, 0, 0, 0],
    ]
}

fn req_pool() -> Vec<Body> {
    vec![
        Body { attrs: vec![], tail: vec![] },
        Body { attrs: vec![RAttr::Software("ezk-verif client".into())], tail: vec![] },
        Body {
            attrs: vec![RAttr::Username("user".into()), RAttr::Realm("example.org".into()), RAttr::Nonce(b"obMatJos2AAACf//".to_vec())],
            tail: vec![RTail::Integrity(long_md5()), RTail::Fingerprint],
        },
    ]
}

// --- schedule ---------------------------------------------------------------------------------------------------

#[derive(Clone, Debug, Hash, PartialEq, Eq, Serialize, Deserialize)]
pub struct ScheduleCase {
    /// bit i set: transmission i (0..7) is answered, bit clear: request or response lost
    pub answered: u8,
    /// bit i set: the answer to transmission i carries a different transaction id
    pub wrong_id: u8,
    /// 0: response 1 ms after the transmission; 1: in the middle of the wait; 2: 1 ms before the
    /// next transmission is due; 3: 1 ms after the next transmission (late response)
    pub delay: u8,
    /// which bit of the id differs in a wrong-id response
    pub wrong_bit: u8,
    /// class of every delivered message (replays written before this field existed: success)
    #[serde(default = "default_class")]
    pub class: RClass,
    /// transaction id of the request
    #[serde(default = "default_tid")]
    pub tid: [u8; 12],
    /// attributes / protection tail of every delivered message
    #[serde(default)]
    pub attrs: Vec<RAttr>,
    #[serde(default)]
    pub tail: Vec<RTail>,
    /// attributes / protection tail of the request
    #[serde(default)]
    pub req_attrs: Vec<RAttr>,
    #[serde(default)]
    pub req_tail: Vec<RTail>,
    /// address the request is sent to (replays written before this field existed: 192.0.2.10:3478)
    #[serde(default = "target")]
    pub target: SocketAddr,
    /// address every delivered message is received from; None: the target
    #[serde(default)]
    pub source: Option<SocketAddr>,
}

/// (answered, wrong_id, delay): all 2^7 loss patterns x {right id, wrong id, wrong-then-right} x 4 delays
fn base_schedules() -> Vec<(u8, u8, u8)> {
    let mut v = vec![];
    for answered in 0u8..128 {
        let first = if answered == 0 { 0 } else { 1u8 << answered.trailing_zeros() };
        let wrongs = if answered == 0 { vec![0u8] } else { vec![0u8, answered, first] };
        let mut seen = vec![];
        for w in wrongs {
            if seen.contains(&w) {
                continue;
            }
            seen.push(w);
            for delay in 0u8..4 {
                v.push((answered, w, delay));
            }
        }
    }
    v
}

pub fn schedule_cases(tier: Tier) -> Vec<ScheduleCase> {
    let classes = [RClass::Success, RClass::Error, RClass::Request, RClass::Indication];
    let pools: Vec<Vec<Body>> = classes.iter().map(|c| body_pool(*c)).collect();
    let tids = tid_pool();
    let reqs = req_pool();
    let empty = Body { attrs: vec![], tail: vec![] };
    let mut v = vec![];
    let mut m = 0usize;
    for (n, &(answered, wrong_id, delay)) in base_schedules().iter().enumerate() {
        for (ci, &class) in classes.iter().enumerate() {
            let pool = &pools[ci];
            // None: header only
            let picks: Vec<Option<usize>> = match tier {
                Tier::Thorough => std::iter::once(None).chain((0..pool.len()).map(Some)).collect(),
                Tier::Quick if is_response(class) => vec![None, Some((n + ci) % pool.len())],
                Tier::Quick => vec![if n % 4 == 0 { None } else { Some(n % pool.len()) }],
            };
            for (k, pick) in picks.iter().enumerate() {
                // the plain exchange (header-only success response, header-only request, fixed id)
                // is kept for every schedule; every other shape rotates ids and request contents
                let plain = class == RClass::Success && pick.is_none();
                let salt = n * 7 + ci * 3 + k;
                let body = pick.map_or(&empty, |i| &pool[i]);
                let req = if plain { &empty } else { &reqs[salt % reqs.len()] };
                let base_bit = answered.wrapping_mul(13).wrapping_add(delay * 31) as usize;
                // the plain exchange is answered from the address it was sent to; every other shape
                // rotates the server address and where its messages come from
                let (tgt, src) = if plain {
                    (target(), None)
                } else {
                    m += 1;
                    let (t, s) = pick_addrs(m);
                    (t, Some(s))
                };
                v.push(ScheduleCase {
                    answered,
                    wrong_id,
                    delay,
                    wrong_bit: (if plain { base_bit % 96 } else { (base_bit + salt * 5) % 96 }) as u8,
                    class,
                    tid: if plain { TID } else { tids[salt % tids.len()] },
                    attrs: body.attrs.clone(),
                    tail: body.tail.clone(),
                    req_attrs: req.attrs.clone(),
                    req_tail: req.tail.clone(),
                    target: tgt,
                    source: src,
                });
            }
        }
    }
    v
}

/// arrival time (ms) of the answer to transmission i
pub(super) fn arrival(i: usize, delay: u8) -> u64 {
    // wait after transmission i before the next one (or before giving up). For the last
    // transmission only the first 8 s are used so that both admissible give-up instants
    // (39.5 s and 63.5 s) lie after every generated arrival.
    let window = if i == 6 { 8000 } else { 500u64 << i };
    match delay {
        0 => t_send(i) + 1,
        1 => t_send(i) + window / 2,
        2 => t_send(i) + window - 1,
        _ => {
            if i == 6 {
                t_send(i) + window - 2
            } else {
                t_send(i) + window + 1
            }
        }
    }
}

fn id_class(tid: &[u8; 12]) -> &'static str {
    if *tid == TID {
        "id:fixed-pattern"
    } else if *tid == [0u8; 12] {
        "id:all-zero"
    } else if *tid == [0xffu8; 12] {
        "id:all-one"
    } else if tid.iter().filter(|b| **b != 0).count() == 1 {
        "id:single-bit"
    } else if tid[4..] == [0u8; 8] {
        "id:low-64-bits-zero"
    } else if tid[..4] == [0u8; 4] {
        "id:high-32-bits-zero"
    } else if tid[8..] == [0u8; 4] {
        "id:zero-tail"
    } else {
        "id:other"
    }
}

pub fn check_schedule(case: &ScheduleCase, out: &mut CaseOut) {
    check_schedule_from(case, out);
    refine_source_tag(out, || {
        let mut o = scratch_out();
        check_schedule_from(&ScheduleCase { source: None, ..case.clone() }, &mut o);
        o
    });
}

fn check_schedule_from(case: &ScheduleCase, out: &mut CaseOut) {
    let mut wrong_tid = case.tid;
    wrong_tid[(case.wrong_bit / 8) as usize] ^= 1 << (case.wrong_bit % 8);
    let right_bytes = msg_bytes(case.class, case.tid, &case.attrs, &case.tail);
    let wrong_bytes = msg_bytes(case.class, wrong_tid, &case.attrs, &case.tail);
    let bytes = msg_bytes(RClass::Request, case.tid, &case.req_attrs, &case.req_tail);
    let id = tid_u128(&case.tid);
    let tgt = case.target;
    let src = case.source.unwrap_or(tgt);
    let skind = source_kind(tgt, src);

    // whether ezk's parser reads reference-encoded messages is the business of sub-check ref_decode
    if ParsedMessage::parse(right_bytes.clone()).is_err() || ParsedMessage::parse(wrong_bytes.clone()).is_err() {
        out.class("skipped:ezk-refuses-the-reference-encoded-message(see ref_decode)");
        return;
    }
    out.nontrivial(case);
    out.class(target_class(tgt));
    out.class(source_class(skind));

    // script of arrivals: (ms, right id?)
    let mut arrivals: Vec<(u64, bool)> = (0..7)
        .filter(|i| case.answered & (1 << i) != 0)
        .map(|i| (arrival(i, case.delay), case.wrong_id & (1 << i) == 0))
        .collect();
    arrivals.sort();

    out.class(match case.class {
        RClass::Success => "class:success-response",
        RClass::Error => "class:error-response",
        RClass::Request => "class:request-with-the-pending-id",
        RClass::Indication => "class:indication-with-the-pending-id",
    });
    out.class(if !case.tail.is_empty() {
        "body:protected"
    } else if !case.attrs.is_empty() {
        "body:attributes"
    } else {
        "body:header-only"
    });
    out.class(id_class(&case.tid));
    out.class(if case.req_attrs.is_empty() && case.req_tail.is_empty() { "request:header-only" } else { "request:with-attributes" });
    if case.delay == 3 {
        out.class("late-response");
    }

    // ---- run ezk
    let rt = runtime();
    let (result, t_ret, pending_after, sends, received) = rt.block_on(async {
        let t0 = Instant::now();
        let ep = StunEndpoint::new(new_user(t0, None, 0));
        let tp = MockTp { reliable: false };
        let call = async {
            let r = ep.send_request(Request { bytes: &bytes, tsx_id: id, transport: &tp }, tgt).await;
            let t = (Instant::now() - t0).as_micros() as u64;
            (r, t, ep.verif_pending())
        };
        let script = async {
            for (t, right) in &arrivals {
                tokio::time::sleep_until(t0 + Duration::from_millis(*t)).await;
                let b = if *right { right_bytes.clone() } else { wrong_bytes.clone() };
                let msg = ParsedMessage::parse(b).expect("parsed before");
                ep.receive(msg, src, MockTp { reliable: false }).await;
            }
        };
        let ((r, t, p), ()) = tokio::join!(call, script);
        let sends = ep.user().sends.lock().clone();
        let received = ep.user().received.lock().clone();
        (r, t, p, sends, received)
    });
    let got_sends: Vec<u64> = sends.iter().map(|s| s.0).collect();
    out.note = Some(format!("sends at {got_sends:?} us; returned at {t_ret} us"));

    // ---- expected, from the statement
    // first delivered message with the request's id
    let t_first = arrivals.iter().find(|(_, right)| *right).map(|(t, _)| *t);
    let completed = match &result {
        Ok(Some(_)) => true,
        Ok(None) => false,
        Err(e) => {
            out.fail("c20.client/unexpected-error", format!("{e}"));
            return;
        }
    };
    // t_done: the instant at which the call is completed by a delivered message, under the reading
    // that applies (responses: must be t_first; request / indication with the id: either reading)
    let t_done = match (t_first, completed) {
        (Some(ts), true) => Some(ts),
        (Some(ts), false) => {
            if is_response(case.class) {
                out.fail(
                    format!("c20.client/{}{}-not-matched", class_name(case.class), source_tag(skind)),
                    format!(
                        "{} with the id of the pending request (sent to {tgt}) received from {src} at {ts} ms, call returned None at {t_ret} us",
                        class_name(case.class)
                    ),
                );
            }
            None
        }
        (None, false) => None,
        (None, true) => {
            let rid = result.as_ref().ok().and_then(|o| o.as_ref()).map(|m| m.tsx_id).unwrap_or(0);
            out.fail(
                "c20.client/completed-by-wrong-id",
                format!("no message with the request's id was delivered, yet the call returned a message with id {rid:#x}"),
            );
            if pending_after != 0 {
                out.fail("c20.client/pending-after-return", format!("{pending_after} transaction entries after send_request returned"));
            }
            return;
        }
    };
    if !is_response(case.class) && t_first.is_some() {
        out.class(if completed { "non-response-with-the-pending-id:completes-the-call" } else { "non-response-with-the-pending-id:handed-to-user" });
    }
    if t_first.is_some() && is_response(case.class) {
        out.class(match skind {
            SourceKind::Target => "right-id-response-from:the-target",
            SourceKind::OtherPort => "right-id-response-from:target-host-other-port",
            SourceKind::MappedForm => "right-id-response-from:v4-mapped-form-of-the-target",
            SourceKind::OtherIp => "right-id-response-from:other-address-same-family",
            SourceKind::OtherFamily => "right-id-response-from:other-address-other-family",
        });
    }
    out.class(match (t_done, t_first) {
        (Some(_), _) => "answered-with-right-id",
        (None, Some(_)) => "right-id-not-taken-as-response",
        (None, None) if case.answered == 0 => "never-answered",
        (None, None) => "only-wrong-ids",
    });
    let exp_sends: Vec<u64> = (0..7).map(t_send).filter(|t| t_done.map_or(true, |ts| *t < ts)).collect();
    out.class(match exp_sends.len() {
        1 => "transmissions:1",
        2..=6 => "transmissions:2-6",
        _ => "transmissions:7",
    });
    let exp_received: Vec<(u64, bool)> = {
        let mut taken = t_done.is_none();
        arrivals
            .iter()
            .filter(|(_, right)| {
                if *right && !taken {
                    taken = true;
                    false
                } else {
                    true
                }
            })
            .cloned()
            .collect()
    };

    // ---- compare
    let exp_sends_us: Vec<u64> = exp_sends.iter().map(|t| t * 1000).collect();
    if got_sends != exp_sends_us {
        let sig = if got_sends.len() != exp_sends_us.len() { "c20.client/transmission-count" } else { "c20.client/transmission-times" };
        out.fail(sig, format!("send_to called at {got_sends:?} us, expected {exp_sends_us:?} us"));
    }
    for (_, b, to) in &sends {
        if *b != bytes || *to != tgt {
            out.fail("c20.client/retransmission-differs", "retransmitted bytes or target differ from the request");
        }
    }
    match (&result, t_done) {
        (Ok(Some(msg)), Some(ts)) => {
            if msg.tsx_id != id {
                out.fail("c20.client/response-with-foreign-id", format!("returned response has id {:#x}", msg.tsx_id));
            } else if msg.buffer() != &right_bytes[..] || super::ezk::from_ezk_class(msg.class) != case.class {
                out.fail(
                    "c20.client/returned-message-differs",
                    format!("returned message (class {:?}, {} bytes) is not the delivered one (class {:?}, {} bytes)", msg.class, msg.buffer().len(), case.class, right_bytes.len()),
                );
            }
            if t_ret != ts * 1000 {
                out.fail("c20.client/return-time", format!("returned at {t_ret} us, response arrived at {} us", ts * 1000));
            }
        }
        _ => {
            // give-up instant: 63.5 s (doubling, the statement) or 39.5 s (RFC 8489 Rm = 16)
            if t_ret != 63_500_000 && t_ret != 39_500_000 {
                out.fail("c20.client/give-up-time", format!("returned None at {t_ret} us"));
            }
        }
    }
    let got_recv: Vec<(u64, bool)> = received.iter().map(|(t, rid, _)| (*t / 1000, *rid == id)).collect();
    if got_recv != exp_received {
        out.fail(
            "c20.client/unmatched-responses-to-user",
            format!("StunEndpointUser::receive saw {got_recv:?} (ms, right id), expected {exp_received:?}"),
        );
    } else if received.iter().any(|(_, rid, b)| *b != if *rid == id { &right_bytes[..] } else { &wrong_bytes[..] }) {
        out.fail("c20.client/message-to-user-differs", "a message handed to StunEndpointUser::receive is not the delivered one");
    }
    if pending_after != 0 {
        out.fail("c20.client/pending-after-return", format!("{pending_after} transaction entries after send_request returned"));
    }
}

// --- several requests pending at the same time ----------------------------------------------------------------

#[derive(Clone, Debug, Hash, PartialEq, Eq, Serialize, Deserialize)]
pub struct CallSpec {
    /// virtual instant at which send_request is called
    pub start_ms: u64,
    pub tid: [u8; 12],
    /// (transmission that is answered, delay selector as in ScheduleCase); None: never answered
    pub answer: Option<(u8, u8)>,
    /// class of the response: Success or Error
    pub class: RClass,
    /// response with the curated attributes of its class, or header only
    pub with_body: bool,
    /// address this call's request is sent to
    #[serde(default = "target")]
    pub target: SocketAddr,
    /// address this call's response is received from; None: its target
    #[serde(default)]
    pub source: Option<SocketAddr>,
}

#[derive(Clone, Debug, Hash, PartialEq, Eq, Serialize, Deserialize)]
pub struct ConcurrentCase {
    pub calls: Vec<CallSpec>,
}

impl CallSpec {
    fn new(start_ms: u64, tid: [u8; 12], answer: Option<(u8, u8)>, class: RClass, with_body: bool) -> Self {
        CallSpec { start_ms, tid, answer, class, with_body, target: target(), source: None }
    }
    fn source_addr(&self) -> SocketAddr {
        self.source.unwrap_or(self.target)
    }
    fn arrival_ms(&self) -> Option<u64> {
        self.answer.map(|(i, d)| self.start_ms + arrival(i as usize, d))
    }
    fn response_bytes(&self) -> Vec<u8> {
        let body = if self.with_body { curated_bodies(self.class).swap_remove(0) } else { Body { attrs: vec![], tail: vec![] } };
        msg_bytes(self.class, self.tid, &body.attrs, &body.tail)
    }
    /// every instant at which something may happen in this call
    fn instants(&self) -> Vec<u64> {
        let mut v: Vec<u64> = (0..7).map(|i| self.start_ms + t_send(i)).collect();
        v.extend(self.arrival_ms());
        v.push(self.start_ms + 39_500);
        v.push(self.start_ms + 63_500);
        v
    }
}

/// Timing ties between different calls are don't-cares: such cases are not generated. Two calls
/// with the same id are only generated one after the other (the second starts after the first
/// has certainly ended).
fn admissible_concurrent(c: &ConcurrentCase) -> bool {
    for (a, x) in c.calls.iter().enumerate() {
        for y in &c.calls[a + 1..] {
            let (ix, iy) = (x.instants(), y.instants());
            if ix.iter().any(|t| iy.contains(t)) {
                return false;
            }
            if x.tid == y.tid && y.start_ms <= x.start_ms + 63_500 && x.start_ms <= y.start_ms + 63_500 {
                return false;
            }
        }
    }
    true
}

/// Where the calls of case `n` are sent and where their responses come from. A quarter of the cases
/// keeps the plain exchange (one server, answered from its address); the others: servers and sources
/// drawn per call; one server per call with the response to each call coming from the server of the
/// NEXT call (an address another pending request was sent to); one server answering every call
/// from a different one of its addresses.
fn vary_addrs(n: usize, calls: &mut [CallSpec]) {
    let k = calls.len();
    match ((n as u64).wrapping_mul(0x9E37_79B9_7F4A_7C15) >> 33) % 4 {
        0 => {}
        1 => {
            for (j, c) in calls.iter_mut().enumerate() {
                let (t, s) = pick_addrs(n * 3 + j);
                c.target = t;
                c.source = Some(s);
            }
        }
        2 => {
            let servers: [SocketAddr; 3] = [target(), "192.0.2.11:3478".parse().unwrap(), "[2001:db8::10]:3478".parse().unwrap()];
            for (j, c) in calls.iter_mut().enumerate() {
                c.target = servers[(n + j) % 3];
                c.source = Some(servers[(n + (j + 1) % k) % 3]);
            }
        }
        _ => {
            let pool = source_pool(target());
            for (j, c) in calls.iter_mut().enumerate() {
                c.source = Some(pool[(n + j) % pool.len()]);
            }
        }
    }
}

pub fn concurrent_cases(tier: Tier) -> Vec<ConcurrentCase> {
    let flip = |byte: usize, mask: u8| {
        let mut t = TID;
        t[byte] ^= mask;
        t
    };
    let mut high32 = TID;
    high32[..4].copy_from_slice(&[0xfe, 0xdc, 0xba, 0x98]);
    let mut low64 = TID;
    for b in low64[4..].iter_mut() {
        *b = !*b;
    }
    // (id of the first call, id of the second call, start offsets of the second call)
    let near: &[u64] = &[137, 611, 2003];
    let pairs: Vec<([u8; 12], [u8; 12], &[u64])> = vec![
        (TID, flip(11, 0x01), near),
        (TID, flip(0, 0x80), near),
        (TID, high32, near),
        (TID, low64, near),
        ([0u8; 12], [0xffu8; 12], near),
        // the same id again, after the first call has ended
        (TID, TID, &[70_007]),
    ];
    let answers: Vec<Option<(u8, u8)>> = match tier {
        Tier::Quick => vec![None, Some((0, 0)), Some((0, 3)), Some((1, 1)), Some((2, 2)), Some((4, 0))],
        Tier::Thorough => std::iter::once(None).chain((0u8..=5).flat_map(|i| (0u8..4).map(move |d| Some((i, d))))).collect(),
    };
    let class_pairs = [(RClass::Success, RClass::Success), (RClass::Success, RClass::Error), (RClass::Error, RClass::Success), (RClass::Error, RClass::Error)];
    let mut v = vec![];
    let mut n = 0usize;
    for (ta, tb, offsets) in &pairs {
        for &off in offsets.iter() {
            for a0 in &answers {
                for a1 in &answers {
                    for (c0, c1) in class_pairs {
                        n += 1;
                        let mut calls = vec![
                            CallSpec::new(0, *ta, *a0, c0, n % 2 == 0),
                            CallSpec::new(off, *tb, *a1, c1, n % 3 == 0),
                        ];
                        vary_addrs(n, &mut calls);
                        v.push(ConcurrentCase { calls });
                    }
                }
            }
        }
    }
    // three calls
    let small: Vec<Option<(u8, u8)>> = vec![None, Some((0, 3)), Some((1, 1)), Some((2, 2))];
    for a0 in &small {
        for a1 in &small {
            for a2 in &small {
                for flipc in [false, true] {
                    n += 1;
                    let c = |x: bool| if x != flipc { RClass::Error } else { RClass::Success };
                    let mut calls = vec![
                        CallSpec::new(0, TID, *a0, c(false), n % 2 == 0),
                        CallSpec::new(137, flip(11, 0x01), *a1, c(true), n % 3 == 0),
                        CallSpec::new(611, flip(0, 0x80), *a2, c(false), n % 5 == 0),
                    ];
                    vary_addrs(n, &mut calls);
                    v.push(ConcurrentCase { calls });
                }
            }
        }
    }
    v.retain(admissible_concurrent);
    v
}

pub fn check_concurrent(case: &ConcurrentCase, out: &mut CaseOut) {
    check_concurrent_from(case, out);
    refine_source_tag(out, || {
        let mut c = case.clone();
        for call in c.calls.iter_mut() {
            call.source = None;
        }
        let mut o = scratch_out();
        check_concurrent_from(&c, &mut o);
        o
    });
}

fn check_concurrent_from(case: &ConcurrentCase, out: &mut CaseOut) {
    let calls = &case.calls;
    let responses: Vec<Vec<u8>> = calls.iter().map(|c| c.response_bytes()).collect();
    if responses.iter().any(|b| ParsedMessage::parse(b.clone()).is_err()) {
        out.class("skipped:ezk-refuses-the-reference-encoded-message(see ref_decode)");
        return;
    }
    out.nontrivial(case);
    out.class(match calls.len() {
        2 => "calls:2",
        _ => "calls:3",
    });
    if calls.iter().enumerate().any(|(a, x)| calls[a + 1..].iter().any(|y| x.tid == y.tid)) {
        out.class("same-id-again-after-the-call-ended");
    }
    match calls.iter().filter(|c| c.answer.is_some()).count() {
        0 => out.class("answered:none"),
        n if n == calls.len() => out.class("answered:all"),
        _ => out.class("answered:some"),
    }
    if calls.iter().any(|c| c.class == RClass::Error && c.answer.is_some()) {
        out.class("error-response");
    }
    if calls.iter().any(|c| c.target != calls[0].target) {
        out.class("calls-to-different-servers");
    }
    for c in calls.iter().filter(|c| c.answer.is_some()) {
        out.class(source_class(source_kind(c.target, c.source_addr())));
        if calls.iter().any(|o| o.tid != c.tid && o.target == c.source_addr() && o.target != c.target) {
            out.class("response-from-the-server-of-another-pending-call");
        }
    }
    // does a response overtake the response of a call that was started earlier?
    let arr: Vec<Option<u64>> = calls.iter().map(|c| c.arrival_ms()).collect();
    if (0..calls.len()).any(|a| (a + 1..calls.len()).any(|b| matches!((arr[a], arr[b]), (Some(x), Some(y)) if y < x))) {
        out.class("responses-out-of-call-order");
    }

    // ---- run ezk
    type CallResult = (Result<Option<(u128, Vec<u8>)>, String>, u64, usize);
    let rt = runtime();
    let (results, sends, received, pending_end): (Vec<CallResult>, _, _, usize) = rt.block_on(async {
        let t0 = Instant::now();
        let ep = Arc::new(StunEndpoint::new(new_user(t0, None, 0)));
        let mut handles = vec![];
        for c in calls.iter() {
            let ep = ep.clone();
            let bytes = msg_bytes(RClass::Request, c.tid, &[], &[]);
            let (start, id, tgt) = (c.start_ms, tid_u128(&c.tid), c.target);
            handles.push(tokio::spawn(async move {
                tokio::time::sleep_until(t0 + Duration::from_millis(start)).await;
                let tp = MockTp { reliable: false };
                let r = ep.send_request(Request { bytes: &bytes, tsx_id: id, transport: &tp }, tgt).await;
                let t = (Instant::now() - t0).as_micros() as u64;
                let p = ep.verif_pending();
                (r.map(|o| o.map(|m| (m.tsx_id, m.buffer().to_vec()))).map_err(|e| e.to_string()), t, p)
            }));
        }
        let mut script: Vec<(u64, usize)> = arr.iter().enumerate().filter_map(|(k, a)| a.map(|t| (t, k))).collect();
        script.sort();
        for (t, k) in script {
            tokio::time::sleep_until(t0 + Duration::from_millis(t)).await;
            let msg = ParsedMessage::parse(responses[k].clone()).expect("parsed before");
            ep.receive(msg, calls[k].source_addr(), MockTp { reliable: false }).await;
        }
        let mut results = vec![];
        for h in handles {
            results.push(h.await.expect("call task"));
        }
        let sends = ep.user().sends.lock().clone();
        let received = ep.user().received.lock().clone();
        (results, sends, received, ep.verif_pending())
    });

    // ---- compare
    // a response that is not taken for the response of its call changes everything that follows
    // (retransmissions go on, the message reaches the user, the entry stays): report the cause only
    let mut unmatched = false;
    for (k, c) in calls.iter().enumerate() {
        if let (Ok(Some((rid, _))), _, _) = &results[k] {
            if *rid != tid_u128(&c.tid) {
                unmatched = true;
                out.fail("c20.concurrent/response-of-another-call", format!("call {:#x} returned the message with id {rid:#x}", tid_u128(&c.tid)));
            }
        }
        if let ((Ok(None), t_ret, _), Some(a)) = (&results[k], arr[k]) {
            unmatched = true;
            out.fail(
                format!("c20.concurrent/{}{}-not-matched", class_name(c.class), source_tag(source_kind(c.target, c.source_addr()))),
                format!(
                    "{} for call {:#x} (sent to {}) received from {} at {a} ms, call returned None at {t_ret} us",
                    class_name(c.class),
                    tid_u128(&c.tid),
                    c.target,
                    c.source_addr()
                ),
            );
        }
    }
    if unmatched {
        if pending_end != 0 {
            out.fail("c20.concurrent/pending-after-all-calls", format!("{pending_end} transaction entries after every call returned"));
        }
        return;
    }
    // call by call
    let mut ids: Vec<[u8; 12]> = vec![];
    for c in calls.iter() {
        if !ids.contains(&c.tid) {
            ids.push(c.tid);
        }
    }
    for tid in &ids {
        // transmissions carry the id of their call (bytes 8..20 of the request)
        let mut exp: Vec<u64> = vec![];
        for (k, c) in calls.iter().enumerate().filter(|(_, c)| c.tid == *tid) {
            exp.extend((0..7).map(t_send).filter(|t| arr[k].map_or(true, |a| c.start_ms + *t < a)).map(|t| (c.start_ms + t) * 1000));
        }
        exp.sort();
        let got: Vec<u64> = sends.iter().filter(|(_, b, _)| b.len() >= 20 && b[8..20] == tid[..]).map(|s| s.0).collect();
        if got != exp {
            let sig = if got.len() != exp.len() { "c20.concurrent/transmission-count" } else { "c20.concurrent/transmission-times" };
            out.fail(sig, format!("request {:#x}: send_to called at {got:?} us, expected {exp:?} us", tid_u128(tid)));
        }
    }
    if sends.iter().any(|(_, b, tgt)| !calls.iter().any(|c| *tgt == c.target && *b == msg_bytes(RClass::Request, c.tid, &[], &[]))) {
        out.fail("c20.concurrent/retransmission-differs", "a transmission is none of the requests, or goes to another target");
    }
    for (k, c) in calls.iter().enumerate() {
        let (result, t_ret, pending) = &results[k];
        let id = tid_u128(&c.tid);
        let t_end_ms = match (result, arr[k]) {
            (Err(e), _) => {
                out.fail("c20.concurrent/unexpected-error", e.clone());
                continue;
            }
            (Ok(Some((rid, b))), Some(a)) => {
                if *rid == id && *b != responses[k] {
                    out.fail("c20.concurrent/returned-message-differs", format!("call {id:#x} returned a message that is not the delivered one"));
                }
                if *t_ret != a * 1000 {
                    out.fail("c20.concurrent/return-time", format!("call {id:#x} returned at {t_ret} us, its response arrived at {} us", a * 1000));
                }
                a
            }
            (Ok(None), Some(_)) => unreachable!("reported above"),
            (Ok(Some((rid, _))), None) => {
                out.fail("c20.concurrent/completed-by-wrong-id", format!("call {id:#x} was never answered, yet returned a message with id {rid:#x}"));
                continue;
            }
            (Ok(None), None) => {
                let rel = t_ret.wrapping_sub(c.start_ms * 1000);
                if rel != 63_500_000 && rel != 39_500_000 {
                    out.fail("c20.concurrent/give-up-time", format!("call {id:#x} started at {} ms returned None at {t_ret} us", c.start_ms));
                    continue;
                }
                t_ret / 1000
            }
        };
        // entries right after this call returned = calls still running at that instant (only when
        // that number does not depend on which of the two give-up instants is implemented)
        let mut running = 0usize;
        let mut unknown = false;
        for (j, o) in calls.iter().enumerate() {
            if j == k || o.start_ms > t_end_ms {
                continue;
            }
            match arr[j] {
                Some(a) => running += (a > t_end_ms) as usize,
                None if t_end_ms < o.start_ms + 39_500 => running += 1,
                None if t_end_ms > o.start_ms + 63_500 => {}
                None => unknown = true,
            }
        }
        if !unknown && *pending != running {
            out.fail(
                "c20.concurrent/pending-at-return",
                format!("{pending} transaction entries right after call {id:#x} returned at {t_ret} us, {running} other calls are running"),
            );
        }
    }
    if !received.is_empty() {
        let l: Vec<(u64, u128)> = received.iter().map(|(t, rid, _)| (*t, *rid)).collect();
        out.fail("c20.concurrent/response-handed-to-user", format!("every response answers a pending call, yet StunEndpointUser::receive saw {l:x?}"));
    }
    if pending_end != 0 {
        out.fail("c20.concurrent/pending-after-all-calls", format!("{pending_end} transaction entries after every call returned"));
    }
    out.note = Some(format!("returns at {:?} us", results.iter().map(|r| r.1).collect::<Vec<_>>()));
}

// --- cleanup ----------------------------------------------------------------------------------------------------------

#[derive(Clone, Debug, Hash, PartialEq, Eq, Serialize, Deserialize)]
pub enum CleanupCase {
    /// the future is dropped after `after_ms` of virtual time; afterwards a message of class
    /// `late` with the id of the request is delivered
    Drop {
        after_ms: u64,
        send_delay_ms: u64,
        #[serde(default = "default_class")]
        late: RClass,
    },
    /// the n-th `send_to` fails
    SendErr { at: usize, send_delay_ms: u64 },
}

pub fn cleanup_cases(tier: Tier) -> Vec<CleanupCase> {
    let mut v = vec![];
    for send_delay_ms in [0u64, 3] {
        let mut grid: Vec<u64> = vec![0, 1, 2, 3, 4, 250, 40_000, 63_499, 63_500, 63_501, 64_000];
        for i in 0..7u64 {
            // transmission i starts at t_i + i * (time spent inside the previous send_to calls)
            let t = t_send(i as usize) + i * send_delay_ms;
            for d in [-1i64, 0, 1, 2, 3, 4, 5] {
                let k = t as i64 + d;
                if k >= 0 {
                    grid.push(k as u64);
                }
            }
        }
        if tier == Tier::Thorough {
            grid.extend((0..=640).map(|k| k * 100 + 7));
            grid.extend(0..=520);
        }
        grid.sort();
        grid.dedup();
        for &after_ms in &grid {
            for late in [RClass::Success, RClass::Error, RClass::Request, RClass::Indication] {
                v.push(CleanupCase::Drop { after_ms, send_delay_ms, late });
            }
        }
    }
    for at in 0..7 {
        for send_delay_ms in [0u64, 3] {
            v.push(CleanupCase::SendErr { at, send_delay_ms });
        }
    }
    v
}

pub fn check_cleanup(case: &CleanupCase, out: &mut CaseOut) {
    out.nontrivial(case);
    let (fail_on, send_delay_ms) = match case {
        CleanupCase::Drop { send_delay_ms, .. } => (None, *send_delay_ms),
        CleanupCase::SendErr { at, send_delay_ms } => (Some(*at), *send_delay_ms),
    };
    let rt = runtime();
    let bytes = msg_bytes(RClass::Request, TID, &[], &[]);
    rt.block_on(async {
        let t0 = Instant::now();
        let ep = StunEndpoint::new(new_user(t0, fail_on, send_delay_ms));
        let tp = MockTp { reliable: false };
        let req = Request { bytes: &bytes, tsx_id: tid_u128(&TID), transport: &tp };
        match case {
            CleanupCase::Drop { after_ms, late, .. } => {
                let r = tokio::time::timeout(Duration::from_millis(*after_ms), ep.send_request(req, target())).await;
                let pending = ep.verif_pending();
                let n_sends = ep.user().sends.lock().len();
                match r {
                    Err(_) => {
                        out.class(if n_sends > 0 && send_delay_ms > 0 && {
                            let last = ep.user().sends.lock().last().unwrap().0;
                            after_ms * 1000 < last + send_delay_ms * 1000
                        } {
                            "dropped-inside-send_to"
                        } else {
                            "dropped-while-waiting"
                        });
                        if pending != 0 {
                            out.fail("c20.client/pending-after-drop", format!("{pending} transaction entries after the future was dropped at {after_ms} ms"));
                        }
                    }
                    Ok(Ok(None)) => {
                        out.class("completed-before-drop");
                        if pending != 0 {
                            out.fail("c20.client/pending-after-return", format!("{pending} transaction entries after None"));
                        }
                    }
                    Ok(other) => out.fail("c20.client/unexpected-result", format!("unanswered request returned {:?}", other.map(|o| o.map(|m| m.tsx_id)))),
                }
                // a late message with the id must now go to the user, not to a stale entry (whatever
                // its class: no reading lets a message complete a call that has ended)
                out.class(match late {
                    RClass::Success => "late:success-response",
                    RClass::Error => "late:error-response",
                    RClass::Request => "late:request",
                    RClass::Indication => "late:indication",
                });
                let late_msg = ParsedMessage::parse(msg_bytes(*late, TID, &[], &[])).expect("header-only message parses");
                ep.receive(late_msg, target(), MockTp { reliable: false }).await;
                if ep.user().received.lock().len() != 1 {
                    out.fail("c20.client/late-response-not-forwarded", "message after the call ended was not handed to StunEndpointUser::receive");
                }
                if ep.verif_pending() != 0 {
                    out.fail("c20.client/pending-after-drop", "entry left after late response");
                }
            }
            CleanupCase::SendErr { at, .. } => {
                out.class("send_to-error");
                let r = ep.send_request(req, target()).await;
                let pending = ep.verif_pending();
                let n_sends = ep.user().sends.lock().len();
                match r {
                    Err(e) if e.kind() == io::ErrorKind::ConnectionRefused => {}
                    Err(e) => out.fail("c20.client/send-error-changed", format!("{e}")),
                    Ok(m) => out.fail("c20.client/send-error-swallowed", format!("send_to failed but the call returned Ok({:?})", m.map(|m| m.tsx_id))),
                }
                if n_sends != at + 1 {
                    out.fail("c20.client/transmission-count", format!("{n_sends} transmissions, send_to failed at the {}th", at + 1));
                }
                if pending != 0 {
                    out.fail("c20.client/pending-after-error", format!("{pending} transaction entries after send_to failed"));
                }
            }
        }
    });
}

// --- the transport's send_to and the path of the answer ---------------------------------------------------------
//
// client_schedule / client_concurrent deliver every message from a script task at an instant at which
// the call sits in its wait, and their send_to completes on its first poll. The statement says
// "its response is matched by transaction id" without any condition on WHERE the call is when the
// response comes in, and `StunEndpointUser::send_to` is an async fn of the embedding application: it
// may complete at once, return Pending a few times without time passing (socket not writable), or
// stay pending for some time; the answer may be delivered by another task that the datagram wakes
// (any latency including 0) or from inside send_to (peer in the same process). This sub-check
// crosses those: the answer to transmission i comes in while send_to of transmission i has not
// returned / at the very instant it returned / after it returned.

/// how the user's `send_to` completes
#[derive(Clone, Copy, Debug, Hash, PartialEq, Eq, Serialize, Deserialize)]
pub enum SendMode {
    /// ready on its first poll
    Ready,
    /// returns Pending this many times, no virtual time passes (yield_now)
    Yields(u8),
    /// stays pending for this many virtual ms
    Pending(u64),
}

/// how the answer of the peer reaches `StunEndpoint::receive`
#[derive(Clone, Copy, Debug, Hash, PartialEq, Eq, Serialize, Deserialize)]
pub enum AnswerPath {
    /// from inside send_to, before its own await points (the datagram is with the peer already)
    InsideBefore,
    /// from inside send_to, after its own await points, right before it returns
    InsideAfter,
    /// by a server task that send_to wakes on entry; it delivers `latency_ms` later (0: as soon as
    /// the scheduler lets it run)
    Task { latency_ms: u64 },
}

#[derive(Clone, Debug, Hash, PartialEq, Eq, Serialize, Deserialize)]
pub struct TransportCase {
    pub send: SendMode,
    pub path: AnswerPath,
    /// transmission (0..7) that is answered by a response with the request's id; None: never
    pub right_at: Option<u8>,
    /// bit i set: transmission i is answered by a response with another id (if i == right_at: that
    /// message first, the right one immediately behind it). Only bits <= right_at matter.
    pub wrong_at: u8,
    pub wrong_bit: u8,
    /// Success or Error
    pub class: RClass,
    pub tid: [u8; 12],
    pub attrs: Vec<RAttr>,
    pub tail: Vec<RTail>,
    pub req_attrs: Vec<RAttr>,
    pub req_tail: Vec<RTail>,
    /// address the request is sent to
    #[serde(default = "target")]
    pub target: SocketAddr,
    /// address the peer's messages are received from; None: the target
    #[serde(default)]
    pub source: Option<SocketAddr>,
}

/// (send mode, answer path): every path that differs from the others under that mode. No timing
/// ties: a server task never delivers at the instant a pending send_to completes.
fn transport_modes() -> Vec<(SendMode, AnswerPath)> {
    let mut v = vec![
        (SendMode::Ready, AnswerPath::InsideBefore),
        (SendMode::Ready, AnswerPath::Task { latency_ms: 0 }),
        (SendMode::Ready, AnswerPath::Task { latency_ms: 1 }),
    ];
    for n in [1u8, 3] {
        v.push((SendMode::Yields(n), AnswerPath::InsideBefore));
        v.push((SendMode::Yields(n), AnswerPath::InsideAfter));
        v.push((SendMode::Yields(n), AnswerPath::Task { latency_ms: 0 }));
        v.push((SendMode::Yields(n), AnswerPath::Task { latency_ms: 1 }));
    }
    for d in [2u64, 40] {
        v.push((SendMode::Pending(d), AnswerPath::InsideBefore));
        v.push((SendMode::Pending(d), AnswerPath::InsideAfter));
        v.push((SendMode::Pending(d), AnswerPath::Task { latency_ms: 0 }));
        v.push((SendMode::Pending(d), AnswerPath::Task { latency_ms: d / 2 }));
        v.push((SendMode::Pending(d), AnswerPath::Task { latency_ms: d + 1 }));
    }
    v
}

pub fn transport_cases(tier: Tier) -> Vec<TransportCase> {
    // (right_at, wrong_at)
    let mut schedules: Vec<(Option<u8>, u8)> = vec![(None, 0), (None, 0x7f)];
    for i in 0u8..7 {
        schedules.push((Some(i), 0));
        // a foreign response and the right one back to back
        schedules.push((Some(i), 1 << i));
        if i > 0 {
            // every earlier transmission answered by a foreign response
            schedules.push((Some(i), (1 << i) - 1));
        }
    }
    let classes = [RClass::Success, RClass::Error];
    let pools: Vec<Vec<Body>> = classes.iter().map(|c| body_pool(*c)).collect();
    let tids = tid_pool();
    let reqs = req_pool();
    let empty = Body { attrs: vec![], tail: vec![] };
    let mut v = vec![];
    let mut n = 0usize;
    let mut m = 0usize;
    for (send, path) in transport_modes() {
        for &(right_at, wrong_at) in &schedules {
            n += 1;
            for (ci, &class) in classes.iter().enumerate() {
                let pool = &pools[ci];
                let picks: Vec<Option<usize>> = match tier {
                    Tier::Thorough => std::iter::once(None).chain((0..pool.len()).map(Some)).collect(),
                    // the answer to the INITIAL transmission is the one a fast peer overtakes send_to
                    // with: more shapes there
                    Tier::Quick if right_at == Some(0) => std::iter::once(None).chain((0..4).map(|j| Some((n + ci + j * 5) % pool.len()))).collect(),
                    Tier::Quick => vec![None, Some((n + ci) % pool.len())],
                };
                for (k, pick) in picks.iter().enumerate() {
                    let plain = class == RClass::Success && pick.is_none();
                    let salt = n * 7 + ci * 3 + k;
                    let body = pick.map_or(&empty, |i| &pool[i]);
                    let req = if plain { &empty } else { &reqs[salt % reqs.len()] };
                    let (tgt, src) = if plain {
                        (target(), None)
                    } else {
                        m += 1;
                        let (t, s) = pick_addrs(m);
                        (t, Some(s))
                    };
                    v.push(TransportCase {
                        send,
                        path,
                        right_at,
                        wrong_at,
                        wrong_bit: ((salt * 5 + n) % 96) as u8,
                        class,
                        tid: if plain { TID } else { tids[salt % tids.len()] },
                        attrs: body.attrs.clone(),
                        tail: body.tail.clone(),
                        req_attrs: req.attrs.clone(),
                        req_tail: req.tail.clone(),
                        target: tgt,
                        source: src,
                    });
                }
            }
        }
    }
    v
}

/// mock transport + peer of client_transport
struct NetUser {
    t0: Instant,
    send: SendMode,
    path: AnswerPath,
    /// address the peer's messages are received from
    source: SocketAddr,
    /// answers[n]: the messages the peer returns for transmission n, in order
    answers: Vec<Vec<Vec<u8>>>,
    ep: std::sync::OnceLock<std::sync::Weak<StunEndpoint<NetUser>>>,
    to_server: tokio::sync::mpsc::UnboundedSender<usize>,
    /// (start of send_to, end of send_to, bytes, target), virtual microseconds
    sends: Mutex<Vec<(u64, Option<u64>, Vec<u8>, SocketAddr)>>,
    received: Mutex<Vec<(u64, u128, Vec<u8>)>>,
}

impl NetUser {
    fn now_us(&self) -> u64 {
        (Instant::now() - self.t0).as_micros() as u64
    }
}

async fn deliver_answers(ep: &StunEndpoint<NetUser>, n: usize) {
    let msgs = ep.user().answers.get(n).cloned().unwrap_or_default();
    for b in msgs {
        let msg = ParsedMessage::parse(b).expect("parsed before");
        ep.receive(msg, ep.user().source, MockTp { reliable: false }).await;
    }
}

#[async_trait::async_trait]
impl StunEndpointUser for NetUser {
    type Transport = MockTp;

    async fn send_to(&self, bytes: &[u8], target: SocketAddr, _transport: &MockTp) -> io::Result<()> {
        let n = {
            let mut s = self.sends.lock();
            s.push((self.now_us(), None, bytes.to_vec(), target));
            s.len() - 1
        };
        let ep = self.ep.get().and_then(|w| w.upgrade());
        match self.path {
            AnswerPath::InsideBefore => {
                if let Some(ep) = &ep {
                    deliver_answers(ep, n).await;
                }
            }
            AnswerPath::Task { .. } => {
                let _ = self.to_server.send(n);
            }
            AnswerPath::InsideAfter => {}
        }
        match self.send {
            SendMode::Ready => {}
            SendMode::Yields(k) => {
                for _ in 0..k {
                    tokio::task::yield_now().await;
                }
            }
            SendMode::Pending(ms) => tokio::time::sleep(Duration::from_millis(ms)).await,
        }
        if self.path == AnswerPath::InsideAfter {
            if let Some(ep) = &ep {
                deliver_answers(ep, n).await;
            }
        }
        self.sends.lock()[n].1 = Some(self.now_us());
        Ok(())
    }

    async fn receive(&self, message: IncomingMessage<MockTp>) {
        self.received.lock().push((self.now_us(), message.message.tsx_id, message.message.buffer().to_vec()));
    }
}

pub fn check_transport(case: &TransportCase, out: &mut CaseOut) {
    check_transport_from(case, out);
    refine_source_tag(out, || {
        let mut o = scratch_out();
        check_transport_from(&TransportCase { source: None, ..case.clone() }, &mut o);
        o
    });
}

fn check_transport_from(case: &TransportCase, out: &mut CaseOut) {
    let mut wrong_tid = case.tid;
    wrong_tid[(case.wrong_bit / 8) as usize % 12] ^= 1 << (case.wrong_bit % 8);
    let right_bytes = msg_bytes(case.class, case.tid, &case.attrs, &case.tail);
    let wrong_bytes = msg_bytes(case.class, wrong_tid, &case.attrs, &case.tail);
    let bytes = msg_bytes(RClass::Request, case.tid, &case.req_attrs, &case.req_tail);
    let id = tid_u128(&case.tid);
    if !is_response(case.class) || case.right_at.map_or(false, |i| i > 6) {
        out.class("skipped:not-a-generated-case");
        return;
    }
    if ParsedMessage::parse(right_bytes.clone()).is_err() || ParsedMessage::parse(wrong_bytes.clone()).is_err() {
        out.class("skipped:ezk-refuses-the-reference-encoded-message(see ref_decode)");
        return;
    }
    out.nontrivial(case);
    let tgt = case.target;
    let src = case.source.unwrap_or(tgt);
    let skind = source_kind(tgt, src);
    out.class(source_class(skind));

    let last = case.right_at.map_or(6, |i| i as usize);
    let wrong = |i: usize| i <= last && case.wrong_at & (1 << i) != 0;
    let answers: Vec<Vec<Vec<u8>>> = (0..7)
        .map(|i| {
            let mut a = vec![];
            if wrong(i) {
                a.push(wrong_bytes.clone());
            }
            if case.right_at == Some(i as u8) {
                a.push(right_bytes.clone());
            }
            a
        })
        .collect();

    // virtual ms send_to stays pending; offset of the answer from the start of its send_to
    let d = match case.send {
        SendMode::Pending(ms) => ms,
        _ => 0,
    };
    let off = match case.path {
        AnswerPath::InsideBefore => 0,
        AnswerPath::InsideAfter => d,
        AnswerPath::Task { latency_ms } => latency_ms,
    };
    // does the answer come in before send_to has returned?
    let during = match (case.path, case.send) {
        (AnswerPath::InsideBefore | AnswerPath::InsideAfter, _) => true,
        (AnswerPath::Task { .. }, SendMode::Ready) => false,
        (AnswerPath::Task { latency_ms }, SendMode::Yields(_)) => latency_ms == 0,
        (AnswerPath::Task { latency_ms }, SendMode::Pending(ms)) => latency_ms < ms,
    };

    out.class(match case.send {
        SendMode::Ready => "send_to:ready-on-first-poll",
        SendMode::Yields(_) => "send_to:yields",
        SendMode::Pending(_) => "send_to:pending-for-some-ms",
    });
    out.class(match case.path {
        AnswerPath::InsideBefore | AnswerPath::InsideAfter => "answer:from-inside-send_to",
        AnswerPath::Task { latency_ms: 0 } => "answer:server-task-latency-0",
        AnswerPath::Task { .. } => "answer:server-task-latency>0",
    });
    out.class(match (case.right_at, during) {
        (None, _) if case.wrong_at == 0 => "never-answered",
        (None, _) => "only-wrong-ids",
        (Some(0), true) => "response-while-send_to-of-the-initial-transmission-is-pending",
        (Some(_), true) => "response-while-send_to-of-a-retransmission-is-pending",
        (Some(0), false) => "response-after-send_to-of-the-initial-transmission-returned",
        (Some(_), false) => "response-after-send_to-of-a-retransmission-returned",
    });
    if case.right_at.map_or(false, |i| wrong(i as usize)) {
        out.class("foreign-response-and-right-response-back-to-back");
    }
    out.class(if case.class == RClass::Success { "class:success-response" } else { "class:error-response" });
    out.class(if !case.tail.is_empty() {
        "body:protected"
    } else if !case.attrs.is_empty() {
        "body:attributes"
    } else {
        "body:header-only"
    });
    out.class(id_class(&case.tid));

    // ---- run ezk
    let rt = runtime();
    let (result, t_ret, pending_after, sends, received) = rt.block_on(async {
        let t0 = Instant::now();
        let (to_server, mut from_client) = tokio::sync::mpsc::unbounded_channel::<usize>();
        let ep = Arc::new(StunEndpoint::new(NetUser {
            t0,
            send: case.send,
            path: case.path,
            source: src,
            answers,
            ep: std::sync::OnceLock::new(),
            to_server,
            sends: Mutex::new(vec![]),
            received: Mutex::new(vec![]),
        }));
        let _ = ep.user().ep.set(Arc::downgrade(&ep));
        let latency = match case.path {
            AnswerPath::Task { latency_ms } => latency_ms,
            _ => 0,
        };
        let weak = Arc::downgrade(&ep);
        tokio::spawn(async move {
            while let Some(n) = from_client.recv().await {
                if latency > 0 {
                    tokio::time::sleep(Duration::from_millis(latency)).await;
                }
                let Some(ep) = weak.upgrade() else { return };
                deliver_answers(&ep, n).await;
            }
        });
        let tp = MockTp { reliable: false };
        let r = ep.send_request(Request { bytes: &bytes, tsx_id: id, transport: &tp }, tgt).await;
        let t = (Instant::now() - t0).as_micros() as u64;
        let p = ep.verif_pending();
        let r = r.map(|o| o.map(|m| (m.tsx_id, m.buffer().to_vec(), super::ezk::from_ezk_class(m.class))));
        let sends = ep.user().sends.lock().clone();
        let received = ep.user().received.lock().clone();
        (r, t, p, sends, received)
    });
    let got_sends: Vec<u64> = sends.iter().map(|s| s.0).collect();
    out.note = Some(format!("send_to entered at {got_sends:?} us; returned at {t_ret} us"));

    if pending_after != 0 {
        out.fail("c20.client/pending-after-return", format!("{pending_after} transaction entries after send_request returned"));
    }
    let completed = match &result {
        Ok(Some(_)) => true,
        Ok(None) => false,
        Err(e) => {
            out.fail("c20.client/unexpected-error", format!("{e}"));
            return;
        }
    };
    match (case.right_at, completed) {
        (Some(i), false) => {
            // everything that follows (retransmissions, the message at the user) is a consequence
            let what = class_name(case.class);
            let from = source_tag(skind);
            let sig = if during { format!("c20.client/{what}{from}-during-send_to-not-matched") } else { format!("c20.client/{what}{from}-not-matched") };
            out.fail(
                sig,
                format!(
                    "{what} with the id of the pending request (sent to {tgt}, received from {src}), answer to transmission {i}, delivered {} (send_to {:?}, answer {:?}); the call went on and returned None at {t_ret} us; \
                     StunEndpointUser::receive saw {:?}",
                    if during { "before send_to of that transmission returned" } else { "after send_to returned" },
                    case.send,
                    case.path,
                    received.iter().map(|(t, rid, _)| (*t, *rid == id)).collect::<Vec<_>>()
                ),
            );
            return;
        }
        (None, true) => {
            let rid = result.as_ref().ok().and_then(|o| o.as_ref()).map(|m| m.0).unwrap_or(0);
            out.fail("c20.client/completed-by-wrong-id", format!("no message with the request's id was delivered, yet the call returned a message with id {rid:#x}"));
            return;
        }
        _ => {}
    }

    // ---- expected, from the statement. The statement does not say whether the 500 ms << i run from
    // the start or from the end of a send_to that takes time: both readings accepted as a whole.
    let timeline = |from_end: bool| -> Vec<u64> {
        let mut s = vec![0u64];
        for i in 0..last {
            s.push(s[i] + if from_end { d } else { 0 } + (500u64 << i));
        }
        s
    };
    let got_ms: Vec<u64> = got_sends.iter().map(|t| t / 1000).collect();
    let exact = got_sends.iter().all(|t| t % 1000 == 0);
    let starts = if exact && got_ms == timeline(true) {
        timeline(true)
    } else if exact && got_ms == timeline(false) {
        out.class("timeout-counted-from-the-start-of-send_to");
        timeline(false)
    } else {
        let sig = if got_sends.len() != last + 1 { "c20.client/transmission-count" } else { "c20.client/transmission-times" };
        out.fail(sig, format!("send_to entered at {got_sends:?} us, expected {:?} ms (or {:?} ms)", timeline(true), timeline(false)));
        return;
    };
    for (_, _, b, to) in &sends {
        if *b != bytes || *to != tgt {
            out.fail("c20.client/retransmission-differs", "retransmitted bytes or target differ from the request");
        }
    }
    match (&result, case.right_at) {
        (Ok(Some((rid, buf, class))), Some(i)) => {
            if *rid != id {
                out.fail("c20.client/response-with-foreign-id", format!("returned response has id {rid:#x}"));
            } else if buf[..] != right_bytes[..] || *class != case.class {
                out.fail("c20.client/returned-message-differs", format!("returned message (class {class:?}, {} bytes) is not the delivered one (class {:?}, {} bytes)", buf.len(), case.class, right_bytes.len()));
            }
            // at the instant the response is delivered, or as soon as the send_to it overtook has returned
            let a = starts[i as usize] + off;
            let e = starts[i as usize] + d;
            if t_ret != a * 1000 && !(during && t_ret == e.max(a) * 1000) {
                out.fail("c20.client/return-time", format!("returned at {t_ret} us, response arrived at {a} ms, send_to of that transmission returned at {e} ms"));
            }
        }
        _ => {
            let s6 = starts[6];
            if ![s6 + 32_000, s6 + d + 32_000, s6 + 8_000, s6 + d + 8_000].contains(&(t_ret / 1000)) || t_ret % 1000 != 0 {
                out.fail("c20.client/give-up-time", format!("returned None at {t_ret} us, last transmission at {s6} ms"));
            }
        }
    }
    let exp_received: Vec<(u64, bool)> = (0..=last).filter(|i| wrong(*i)).map(|i| ((starts[i] + off) * 1000, false)).collect();
    let got_recv: Vec<(u64, bool)> = received.iter().map(|(t, rid, _)| (*t, *rid == id)).collect();
    if got_recv != exp_received {
        out.fail("c20.client/unmatched-responses-to-user", format!("StunEndpointUser::receive saw {got_recv:?} (us, right id), expected {exp_received:?}"));
    } else if received.iter().any(|(_, _, b)| b[..] != wrong_bytes[..]) {
        out.fail("c20.client/message-to-user-differs", "a message handed to StunEndpointUser::receive is not the delivered one");
    }
}
