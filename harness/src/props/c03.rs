//! C03 — Stream framing is independent of how TCP/TLS segments the bytes
//!
//! Generated: sequences of SIP messages (`GenMsg`: start line, header lines as written, body) varied in header
//! order, Content-Length spelling (name case / compact form, blanks and tabs around the colon, folds, leading
//! zeros of the 1*DIGIT value up to 34 digits, position, absence on bodiless messages), decoy headers, non-ASCII
//! UTF-8 text in the head (display names, TEXT-UTF8 values, reason phrases; 2- to 4-byte characters), bodies with
//! CRLFCRLF / fake messages / up to 65535 bytes; CRLF keep-alives; segmentations (every 1-cut and 2-cut of a
//! corpus, random cuts, cuts at structural landmarks incl. between the bytes of a multi-byte character, dribble).
//! Oracle: the stream, fed through FramedRead<_, StreamingDecoder> in exactly that segmentation, must yield the
//! same messages (start line, header name/value list, body) as each message alone through the datagram parser;
//! the datagram result itself is cross-checked against the generator's record (body bytes, number of headers).
//! Not asserted: behaviour for input the datagram parser rejects (invalid UTF-8 heads, LF-only line ends),
//! several Content-Length headers, the kind of error.

use crate::engine::*;
use bytes::Bytes;
use proptest::prelude::*;
use serde::{Deserialize, Serialize};
use sip_core::transport::streaming::verif::StreamingDecoder;
use sip_core::transport::{parse_complete, CompleteItem};
use sip_types::print::AppendCtx;
use std::collections::VecDeque;
use std::io;
use std::pin::Pin;
use std::task::{Context, Poll};
use tokio::io::{AsyncRead, ReadBuf};
use tokio_stream::StreamExt;
use tokio_util::codec::FramedRead;

// ---------------------------------------------------------------------------------------------
// message model

#[derive(Serialize, Deserialize, Clone, Debug, Hash, PartialEq, Eq)]
pub struct GenMsg {
    pub start: String,
    /// header lines exactly as written, without the terminating CRLF (may contain "\r\n " folding)
    pub lines: Vec<String>,
    #[serde(with = "hex_bytes")]
    pub body: Vec<u8>,
}

pub mod hex_bytes {
    use serde::{Deserialize, Deserializer, Serializer};
    pub fn serialize<S: Serializer>(b: &Vec<u8>, s: S) -> Result<S::Ok, S::Error> {
        let mut out = String::with_capacity(b.len() * 2);
        for x in b {
            out.push_str(&format!("{x:02x}"));
        }
        s.serialize_str(&out)
    }
    pub fn deserialize<'de, D: Deserializer<'de>>(d: D) -> Result<Vec<u8>, D::Error> {
        let s = String::deserialize(d)?;
        Ok((0..s.len() / 2)
            .filter_map(|i| u8::from_str_radix(&s[2 * i..2 * i + 2], 16).ok())
            .collect())
    }
}

impl GenMsg {
    pub fn bytes(&self) -> Vec<u8> {
        let mut s = Vec::new();
        s.extend_from_slice(self.start.as_bytes());
        s.extend_from_slice(b"\r\n");
        for l in &self.lines {
            s.extend_from_slice(l.as_bytes());
            s.extend_from_slice(b"\r\n");
        }
        s.extend_from_slice(b"\r\n");
        s.extend_from_slice(&self.body);
        s
    }
    pub fn head_len(&self) -> usize {
        self.bytes().len() - self.body.len()
    }
}

/// What a parser made of one message, in comparable form
#[derive(Debug, Clone, PartialEq, Eq)]
pub struct Parsed {
    pub line: String,
    pub headers: Vec<(String, String)>,
    pub body: Vec<u8>,
}

pub fn datagram_reference(bytes: &[u8]) -> Option<Parsed> {
    match parse_complete(Default::default(), bytes) {
        Ok(CompleteItem::Sip {
            line,
            headers,
            body,
            ..
        }) => Some(Parsed {
            line: line.default_print_ctx().to_string(),
            headers: headers
                .iter()
                .map(|(n, v)| (n.as_print_str().to_string(), v.to_string()))
                .collect(),
            body: body.to_vec(),
        }),
        _ => None,
    }
}

// ---------------------------------------------------------------------------------------------
// segmentation-preserving reader

pub struct ScriptedReader {
    chunks: VecDeque<Bytes>,
    /// stream offset behind the bytes handed out so far
    pos: usize,
    /// offsets at which a read ended: the segment boundaries the decoder really saw (a segment larger than the
    /// free space of the read buffer is handed out in several reads, as a socket would)
    boundaries: std::sync::Arc<std::sync::Mutex<Vec<usize>>>,
}

impl ScriptedReader {
    pub fn new(stream: &[u8], cuts: &[usize]) -> Self {
        let mut cuts: Vec<usize> = cuts.iter().copied().filter(|c| *c > 0 && *c < stream.len()).collect();
        cuts.sort();
        cuts.dedup();
        let mut chunks = VecDeque::new();
        let mut prev = 0;
        for c in cuts {
            chunks.push_back(Bytes::copy_from_slice(&stream[prev..c]));
            prev = c;
        }
        if prev < stream.len() {
            chunks.push_back(Bytes::copy_from_slice(&stream[prev..]));
        }
        Self { chunks, pos: 0, boundaries: Default::default() }
    }
}

impl AsyncRead for ScriptedReader {
    fn poll_read(mut self: Pin<&mut Self>, _cx: &mut Context<'_>, buf: &mut ReadBuf<'_>) -> Poll<io::Result<()>> {
        // one segment per read (a larger segment is delivered in as many reads as the buffer needs)
        if let Some(mut chunk) = self.chunks.pop_front() {
            let n = chunk.len().min(buf.remaining());
            buf.put_slice(&chunk.split_to(n));
            if n > 0 {
                self.pos += n;
                let pos = self.pos;
                self.boundaries.lock().unwrap().push(pos);
            }
            if !chunk.is_empty() {
                self.chunks.push_front(chunk);
            }
        }
        Poll::Ready(Ok(()))
    }
}

/// Feed a segmented stream through the real FramedRead<_, StreamingDecoder>.
pub fn decode_stream(stream: &[u8], cuts: &[usize]) -> (Vec<Parsed>, Option<String>) {
    let (decoded, err, _) = decode_stream_traced(stream, cuts);
    (decoded, err)
}

/// As `decode_stream`, also returns the offsets at which the reads of the decoder ended (superset of `cuts` as far
/// as the stream was read)
pub fn decode_stream_traced(stream: &[u8], cuts: &[usize]) -> (Vec<Parsed>, Option<String>, Vec<usize>) {
    let reader = ScriptedReader::new(stream, cuts);
    let boundaries = reader.boundaries.clone();
    let (decoded, err) = decode_scripted(reader);
    let b = boundaries.lock().unwrap().clone();
    (decoded, err, b)
}

fn decode_scripted(reader: ScriptedReader) -> (Vec<Parsed>, Option<String>) {
    let rt = tokio::runtime::Builder::new_current_thread().build().expect("rt");
    rt.block_on(async move {
        let mut framed = FramedRead::new(reader, StreamingDecoder::new(Default::default()));
        let mut out = vec![];
        let mut err = None;
        while let Some(item) = framed.next().await {
            match item {
                Ok(m) => out.push(Parsed {
                    line: m.line.default_print_ctx().to_string(),
                    headers: m
                        .headers
                        .iter()
                        .map(|(n, v)| (n.as_print_str().to_string(), v.to_string()))
                        .collect(),
                    body: m.body.to_vec(),
                }),
                Err(e) => {
                    err = Some(e.to_string());
                    break;
                }
            }
        }
        (out, err)
    })
}

// ---------------------------------------------------------------------------------------------
// shared oracle

pub struct Features {
    pub cut_in_head_after_cl: bool,
    pub cut_in_body: bool,
    pub cut_at_keepalive: bool,
    pub cut_in_char: bool,
    pub decoy: bool,
    pub odd_spelling: bool,
    pub zero_padded: bool,
    pub utf8_head: bool,
    pub keepalive: bool,
    pub big: bool,
}

fn cl_line_index(m: &GenMsg) -> Option<usize> {
    m.lines.iter().position(|l| {
        let name = l.split(':').next().unwrap_or("").trim();
        name.eq_ignore_ascii_case("content-length") || name.eq_ignore_ascii_case("l")
    })
}

/// The 1*DIGIT of the Content-Length line as written (without the optional, possibly folded, blanks around it)
fn cl_digits(m: &GenMsg) -> Option<&str> {
    let l = &m.lines[cl_line_index(m)?];
    Some(l.split_once(':')?.1.trim_matches(|c| matches!(c, ' ' | '\t' | '\r' | '\n')))
}

fn head_is_non_ascii(m: &GenMsg) -> bool {
    !m.start.is_ascii() || m.lines.iter().any(|l| !l.is_ascii())
}

/// Byte layout of the stream a case writes
pub struct Layout {
    pub stream: Vec<u8>,
    /// per message: (start, head_end, end, end of the Content-Length line incl. its CRLF)
    pub spans: Vec<(usize, usize, usize, Option<usize>)>,
    /// per message: (first byte after the colon of the Content-Length line, end of that line excl. CRLF)
    pub cl_values: Vec<Option<(usize, usize)>>,
    /// runs of keep-alive CRLFs
    pub ka_spans: Vec<(usize, usize)>,
}

impl Layout {
    /// keepalives[i] CRLFs before message i, keepalives[n] after the last one
    pub fn new(msgs: &[GenMsg], keepalives: &[u8]) -> Self {
        let mut stream: Vec<u8> = vec![];
        let mut spans = vec![];
        let mut cl_values = vec![];
        let mut ka_spans = vec![];
        for (i, m) in msgs.iter().enumerate() {
            let k = keepalives.get(i).copied().unwrap_or(0) as usize;
            if k > 0 {
                ka_spans.push((stream.len(), stream.len() + 2 * k));
            }
            for _ in 0..k {
                stream.extend_from_slice(b"\r\n");
            }
            let start = stream.len();
            let b = m.bytes();
            let head_end = start + m.head_len();
            let idx = cl_line_index(m);
            let cl_end = idx.map(|idx| start + m.start.len() + 2 + m.lines[..=idx].iter().map(|l| l.len() + 2).sum::<usize>());
            cl_values.push(idx.and_then(|idx| {
                let line_end = cl_end? - 2;
                let colon = m.lines[idx].find(':')?;
                Some((line_end - m.lines[idx].len() + colon + 1, line_end))
            }));
            stream.extend_from_slice(&b);
            spans.push((start, head_end, stream.len(), cl_end));
        }
        let tail_k = keepalives.get(msgs.len()).copied().unwrap_or(0) as usize;
        if tail_k > 0 {
            ka_spans.push((stream.len(), stream.len() + 2 * tail_k));
        }
        for _ in 0..tail_k {
            stream.extend_from_slice(b"\r\n");
        }
        Layout { stream, spans, cl_values, ka_spans }
    }

    /// Cut positions that fall between the bytes of one multi-byte character of a message head
    /// (the byte behind the cut is a UTF-8 continuation byte; generated heads are valid UTF-8)
    pub fn split_char_positions(&self) -> Vec<usize> {
        let mut v = vec![];
        for (start, head_end, _, _) in &self.spans {
            for p in (*start + 1)..*head_end {
                if self.stream[p] & 0xC0 == 0x80 {
                    v.push(p);
                }
            }
        }
        v
    }

    /// Structurally interesting cut positions: inside every multi-byte character of a head, inside and around the
    /// Content-Length value, around the end of the Content-Length line, around the end of the head, around the end
    /// of the message and around keep-alive runs.
    pub fn landmarks(&self) -> Vec<usize> {
        let mut v = self.split_char_positions();
        for ((_, head_end, end, cl_end), clv) in self.spans.iter().zip(&self.cl_values) {
            if let Some((a, b)) = clv {
                v.extend(a.saturating_sub(1)..=*b + 2);
            }
            if let Some(c) = cl_end {
                v.push(*c + 1);
            }
            v.extend(head_end.saturating_sub(3)..=*head_end + 1);
            v.extend(end.saturating_sub(1)..=*end + 1);
        }
        for (a, b) in &self.ka_spans {
            v.extend(a.saturating_sub(1)..=*b + 1);
        }
        let n = self.stream.len();
        v.retain(|p| *p > 0 && *p < n);
        v.sort();
        v.dedup();
        v
    }
}

pub fn oracle(msgs: &[GenMsg], keepalives: &[u8], cuts: &[usize], out: &mut CaseOut) {
    let layout = Layout::new(msgs, keepalives);
    let Layout { stream, spans, ka_spans, .. } = &layout;
    let split_positions = layout.split_char_positions();

    // reference: each message alone as a datagram
    let mut reference = vec![];
    for m in msgs {
        match datagram_reference(&m.bytes()) {
            Some(p) => reference.push(p),
            None => {
                out.fail("c03.harness/datagram-rejects-generated-message", format!("datagram parser rejects {:?}", String::from_utf8_lossy(&m.bytes())));
                return;
            }
        }
    }
    // independent sanity of the reference against the generator's own record
    for (m, r) in msgs.iter().zip(&reference) {
        if r.body != m.body {
            out.fail("c03.reference/datagram-body", "datagram reference body differs from the generated body");
        }
        if r.headers.len() != m.lines.len() {
            out.fail("c03.reference/datagram-header-count", format!("{} header lines written, datagram parser returned {}", m.lines.len(), r.headers.len()));
        }
    }

    let (decoded, err, read_ends) = decode_stream_traced(stream, cuts);

    // classes
    let f = Features {
        cut_in_head_after_cl: cuts.iter().any(|c| spans.iter().any(|(_, he, _, cl)| cl.map_or(false, |cl| *c >= cl && *c < *he))),
        cut_in_body: cuts.iter().any(|c| spans.iter().any(|(_, he, e, _)| *c > *he && *c < *e)),
        cut_at_keepalive: cuts.iter().any(|c| ka_spans.iter().any(|(s, e)| *c >= *s && *c <= *e)),
        // by the written segmentation or by the reads the decoder really made
        cut_in_char: cuts.iter().chain(&read_ends).any(|c| split_positions.binary_search(c).is_ok()),
        decoy: msgs.iter().any(|m| {
            m.lines.iter().any(|l| {
                let n = l.split(':').next().unwrap_or("").trim().to_ascii_lowercase();
                n != "l" && n != "content-length" && (n.starts_with('l') || n.contains("content-length") || n.len() == 1 || n == "content-type")
            })
        }),
        odd_spelling: msgs.iter().any(|m| cl_line_index(m).map_or(false, |i| !m.lines[i].starts_with("Content-Length: "))),
        zero_padded: msgs.iter().any(|m| cl_digits(m).map_or(false, |d| d.len() > 1 && d.starts_with('0'))),
        utf8_head: msgs.iter().any(head_is_non_ascii),
        keepalive: keepalives.iter().any(|k| *k > 0),
        big: stream.len() > 4096,
    };
    if f.cut_in_char {
        out.class("cut-inside-multibyte-char-of-head");
    }
    if f.utf8_head {
        out.class("non-ascii-head");
    }
    if f.zero_padded {
        out.class("zero-padded-content-length");
        let longest = msgs.iter().filter_map(cl_digits).map(|d| d.len()).max().unwrap_or(0);
        if longest > 5 {
            out.class("content-length-with->5-digits");
        }
        if longest > 20 {
            out.class("content-length-with->20-digits");
        }
    }
    if msgs.iter().any(|m| cl_line_index(m).map_or(false, |i| m.lines[i].contains("\r\n"))) {
        out.class("folded-content-length");
    }
    if f.cut_in_head_after_cl {
        out.class("cut-in-head-after-content-length");
    }
    if f.cut_in_body {
        out.class("cut-in-body");
    }
    if f.cut_at_keepalive {
        out.class("cut-at-keepalive");
    }
    if f.decoy {
        out.class("decoy-header");
    }
    if f.odd_spelling {
        out.class("non-canonical-content-length");
    }
    if f.keepalive {
        out.class("keepalive");
    }
    if f.big {
        out.class("stream>4096");
    }
    if msgs.len() > 1 {
        out.class("pipelined");
    }
    if msgs.iter().skip(1).any(|m| cl_line_index(m).is_none()) && msgs.iter().any(|m| !m.body.is_empty()) {
        out.class("message without Content-Length behind a message with body");
    }
    if f.cut_in_head_after_cl || f.cut_in_body || f.cut_at_keepalive || f.cut_in_char || f.decoy || f.odd_spelling || f.zero_padded {
        out.nontrivial(&(msgs, keepalives, cuts));
    }

    // verdict
    let ctx = || {
        let mut tags = vec![];
        if f.keepalive { tags.push("keepalive"); }
        if f.big { tags.push("big"); }
        if f.decoy { tags.push("decoy"); }
        if f.odd_spelling { tags.push("spelling"); }
        if f.zero_padded { tags.push("zero-padded"); }
        if f.utf8_head { tags.push("utf8-head"); }
        if f.cut_in_char { tags.push("cut-in-char"); }
        if tags.is_empty() { tags.push("plain"); }
        tags.join("+")
    };
    if let Some(e) = &err {
        out.fail(
            format!("c03.decode/error[{}]", ctx()),
            format!("stream decoder failed with `{e}` after {} of {} messages (cuts {:?}, stream {} bytes)", decoded.len(), msgs.len(), cuts, stream.len()),
        );
    }
    if decoded.len() < reference.len() && err.is_none() {
        out.fail(
            format!("c03.decode/missing[{}]", ctx()),
            format!("{} messages written, {} decoded (cuts {:?})", reference.len(), decoded.len(), cuts),
        );
    }
    if decoded.len() > reference.len() {
        out.fail(
            format!("c03.decode/extra[{}]", ctx()),
            format!("{} messages written, {} decoded (cuts {:?})", reference.len(), decoded.len(), cuts),
        );
    }
    for (i, (d, r)) in decoded.iter().zip(&reference).enumerate() {
        if d.line != r.line {
            out.fail(format!("c03.differs/start-line[{}]", ctx()), format!("message {i}: {:?} vs datagram {:?}", d.line, r.line));
        }
        if d.headers != r.headers {
            out.fail(format!("c03.differs/headers[{}]", ctx()), format!("message {i}: stream {:?} vs datagram {:?}", d.headers, r.headers));
        }
        if d.body != r.body {
            out.fail(
                format!("c03.differs/body[{}]", ctx()),
                format!("message {i}: stream body {} bytes vs datagram {} bytes (cuts {:?})", d.body.len(), r.body.len(), cuts),
            );
        }
    }
}

// ---------------------------------------------------------------------------------------------
// small corpus, exhaustive cuts

fn mk(start: &str, lines: &[&str], body: &[u8]) -> GenMsg {
    GenMsg {
        start: start.to_string(),
        lines: lines.iter().map(|s| s.to_string()).collect(),
        body: body.to_vec(),
    }
}

pub fn corpus() -> Vec<GenMsg> {
    let via = "Via: SIP/2.0/TCP 192.0.2.4;branch=z9hG4bK7";
    let from = "From: <sip:a@example.org>;tag=1";
    let to = "To: <sip:b@example.org>";
    let cid = "Call-ID: c03@x";
    let cs = "CSeq: 1 OPTIONS";
    let body4 = b"ab\r\n";
    let tricky: &[u8] = b"x\r\n\r\nOPTIONS sip:q SIP/2.0\r\nl: 9\r\n\r\n";
    vec![
        mk("OPTIONS sip:b@example.org SIP/2.0", &[via, from, to, cid, cs, "Content-Length: 0"], b""),
        mk("OPTIONS sip:b@example.org SIP/2.0", &["Content-Length: 0", via, from, to, cid, cs], b""),
        mk("OPTIONS sip:b@example.org SIP/2.0", &[via, "Content-Length: 4", from, to, cid, cs], body4),
        mk("OPTIONS sip:b@example.org SIP/2.0", &["Content-Length: 4", via, from, to, cid, cs], body4),
        mk("OPTIONS sip:b@example.org SIP/2.0", &[via, from, to, cid, cs, "Content-Length: 4"], body4),
        mk("OPTIONS sip:b@example.org SIP/2.0", &[via, from, "l: 4", to, cid, cs], body4),
        mk("OPTIONS sip:b@example.org SIP/2.0", &[via, from, "L: 4", to, cid, cs], body4),
        mk("OPTIONS sip:b@example.org SIP/2.0", &[via, from, "content-length: 4", to, cid, cs], body4),
        mk("OPTIONS sip:b@example.org SIP/2.0", &[via, from, "CONTENT-LENGTH:4", to, cid, cs], body4),
        mk("OPTIONS sip:b@example.org SIP/2.0", &[via, from, "Content-Length : 4", to, cid, cs], body4),
        mk("OPTIONS sip:b@example.org SIP/2.0", &[via, from, "Content-Length  :   4", to, cid, cs], body4),
        mk("OPTIONS sip:b@example.org SIP/2.0", &[via, from, "l :4", to, cid, cs], body4),
        mk("OPTIONS sip:b@example.org SIP/2.0", &[via, from, "Content-Length\t: 4", to, cid, cs], body4),
        mk("OPTIONS sip:b@example.org SIP/2.0", &[via, from, "l \t:\t4", to, cid, cs], body4),
        mk("OPTIONS sip:b@example.org SIP/2.0", &[via, from, to, cid, cs, "Content-Length: 0", "lr-x: 17"], b""),
        mk("OPTIONS sip:b@example.org SIP/2.0", &[via, "language: 9", from, to, cid, cs, "Content-Length: 4"], body4),
        mk("OPTIONS sip:b@example.org SIP/2.0", &[via, "X-Content-Length: 99", from, to, cid, cs, "l: 4", "Content-Length-X: 7"], body4),
        mk("OPTIONS sip:b@example.org SIP/2.0", &[via, from, to, cid, cs, "Subject: Content-Length: 50", "Content-Length: 4"], body4),
        mk("OPTIONS sip:b@example.org SIP/2.0", &[via, from, to, cid, cs, "Subject: a\r\n l: 77", "Content-Length: 4"], body4),
        mk("OPTIONS sip:b@example.org SIP/2.0", &[via, from, to, cid, cs, "Content-Length:\r\n 4", "Subject: x"], body4),
        mk("OPTIONS sip:b@example.org SIP/2.0", &[via, from, "Content-Length: 36", to, cid, cs], tricky),
        mk("OPTIONS sip:b@example.org SIP/2.0", &[via, from, to, cid, cs, "Content-Length: 1"], b"\n"),
        mk("OPTIONS sip:b@example.org SIP/2.0", &[via, from, to, cid, cs, "Content-Length: 2"], b"\r\n"),
        mk("OPTIONS sip:b@example.org SIP/2.0", &[via, from, to, cid, cs, "Content-Length: 4"], b"\r\n\r\n"),
        mk("SIP/2.0 200 OK", &[via, from, to, cid, cs, "Content-Length: 0"], b""),
        // no Content-Length header at all: nothing states a body, so there is none (and nothing may be inherited
        // from whatever message came before on the connection)
        mk("OPTIONS sip:b@example.org SIP/2.0", &[via, from, to, cid, cs], b""),
        mk("SIP/2.0 200 OK", &[via, from, to, cid, cs, "Content-Type: text/plain", "language: 4"], b""),
        mk("SIP/2.0 200 OK", &[via, "l: 4", from, to, cid, cs], body4),
        mk("SIP/2.0 180 Ringing", &["Content-Length: 4", via, from, to, cid, cs], b"\x00\xff\r\n"),
        mk("INVITE sip:b@example.org SIP/2.0", &[via, from, to, cid, "CSeq: 1 INVITE", "Content-Type: application/sdp", "Content-Length: 9"], b"v=0\r\no=- "),
        mk("INVITE sip:b@example.org SIP/2.0", &[via, from, to, cid, "CSeq: 1 INVITE", "l: 9", "c: application/sdp", "s: 42", "x: 1800"], b"v=0\r\no=- "),
        // (appended only: the replays in regress/ address this list by index)
        // Content-Length = 1*DIGIT: any number of leading zeros is a legal spelling of the same length
        mk("OPTIONS sip:b@example.org SIP/2.0", &[via, from, "Content-Length: 0004", to, cid, cs], body4),
        mk("OPTIONS sip:b@example.org SIP/2.0", &[via, from, to, cid, cs, "Content-Length: 0000000004"], body4),
        mk("OPTIONS sip:b@example.org SIP/2.0", &[via, "l: 000000", from, to, cid, cs], b""),
        mk("OPTIONS sip:b@example.org SIP/2.0", &[via, from, "l \t:  \r\n\t 00000000000000000000004", to, cid, cs], body4),
        // heads are UTF-8 text (display names, TEXT-UTF8 header values, reason phrases): 2-, 3- and 4-byte characters
        mk("OPTIONS sip:b@example.org SIP/2.0", &[via, "From: \"J\u{f6}rg M\u{fc}ller\" <sip:a@example.org>;tag=1", to, cid, cs, "Content-Length: 4"], body4),
        mk("OPTIONS sip:b@example.org SIP/2.0", &["Content-Length: 4", via, from, to, cid, cs, "Subject: \u{65e5}\u{672c} \u{1f600}"], body4),
        mk("SIP/2.0 480 Zur Zeit nicht verf\u{fc}gbar \u{2013} sp\u{e4}ter", &[via, from, to, cid, cs, "l: 0"], b""),
        // control: the same characters in a body under an ASCII head
        mk("MESSAGE sip:b@example.org SIP/2.0", &[via, from, to, cid, "CSeq: 1 MESSAGE", "Content-Type: text/plain;charset=utf-8", "Content-Length: 12"], "gr\u{fc}\u{df}e \u{1f600}".as_bytes()),
    ]
}

#[derive(Serialize, Deserialize, Clone, Debug, Hash)]
pub struct CorpusCase {
    /// indices into corpus()
    pub msgs: Vec<usize>,
    /// CRLFs before each message and after the last
    pub keepalives: Vec<u8>,
    pub cuts: Vec<usize>,
}

pub fn check_corpus(case: &CorpusCase, out: &mut CaseOut) {
    let c = corpus();
    let msgs: Vec<GenMsg> = case.msgs.iter().map(|i| c[*i % c.len()].clone()).collect();
    oracle(&msgs, &case.keepalives, &case.cuts, out);
}

fn stream_len(c: &[GenMsg], idx: &[usize], ka: &[u8]) -> usize {
    idx.iter().map(|i| c[*i].bytes().len()).sum::<usize>() + ka.iter().map(|k| 2 * *k as usize).sum::<usize>()
}

pub fn cuts1_cases(_tier: Tier) -> Vec<CorpusCase> {
    let c = corpus();
    let mut out = vec![];
    // single messages: every 1-cut (and the uncut stream)
    for i in 0..c.len() {
        let n = stream_len(&c, &[i], &[]);
        out.push(CorpusCase { msgs: vec![i], keepalives: vec![], cuts: vec![] });
        for cut in 1..n {
            out.push(CorpusCase { msgs: vec![i], keepalives: vec![], cuts: vec![cut] });
        }
    }
    // pairs (i, i+1) with keep-alive patterns: every 1-cut
    for i in 0..c.len() {
        let j = (i + 7) % c.len();
        for ka in [vec![0u8, 0, 0], vec![0, 1, 0], vec![0, 2, 0], vec![1, 0, 0], vec![2, 1, 1], vec![0, 0, 2]] {
            let n = stream_len(&c, &[i, j], &ka);
            if (i + ka[1] as usize) % 3 != 0 && ka != vec![0, 0, 0] {
                continue; // thin the keep-alive product: every message still meets every pattern family
            }
            for cut in 1..n {
                out.push(CorpusCase { msgs: vec![i, j], keepalives: ka.clone(), cuts: vec![cut] });
            }
        }
    }
    out
}

pub fn cuts2_cases(tier: Tier) -> Vec<CorpusCase> {
    let c = corpus();
    let mut out = vec![];
    let stride = tier.pick(7usize, 1usize);
    for i in 0..c.len() {
        // single message: every 2-cut
        let n = stream_len(&c, &[i], &[]);
        let mut k = i; // de-phase the stride per message
        for a in 1..n {
            for b in (a + 1)..n {
                k += 1;
                if k % stride == 0 {
                    out.push(CorpusCase { msgs: vec![i], keepalives: vec![], cuts: vec![a, b] });
                }
            }
        }
        // pair with one keep-alive between: every 2-cut (thorough), sampled in quick
        let j = (i + 11) % c.len();
        let ka = vec![0u8, (i % 3) as u8, (i % 2) as u8];
        let n = stream_len(&c, &[i, j], &ka);
        let pair_stride = tier.pick(97usize, 3usize);
        for a in 1..n {
            for b in (a + 1)..n {
                k += 1;
                if k % pair_stride == 0 {
                    out.push(CorpusCase { msgs: vec![i, j], keepalives: ka.clone(), cuts: vec![a, b] });
                }
            }
        }
    }
    out
}

// ---------------------------------------------------------------------------------------------
// random sequences

#[derive(Serialize, Deserialize, Clone, Debug, Hash)]
pub struct Case {
    pub msgs: Vec<GenMsg>,
    pub keepalives: Vec<u8>,
    pub cuts: Vec<usize>,
}

const STARTS: &[&str] = &[
    "OPTIONS sip:b@example.org SIP/2.0",
    "INVITE sip:bob@[2001:db8::1]:5070;transport=tcp SIP/2.0",
    "MESSAGE sips:carol@chicago.example.com SIP/2.0",
    "FOO sip:x SIP/2.0",
    "SIP/2.0 200 OK",
    "SIP/2.0 180 Ringing",
    "SIP/2.0 404 Not Found",
    // Reason-Phrase = *(reserved / unreserved / escaped / UTF8-NONASCII / UTF8-CONT / SP / HTAB)
    "SIP/2.0 480 Zur Zeit nicht verf\u{fc}gbar",
    "SIP/2.0 486 \u{8a71}\u{3057}\u{4e2d} \u{1f4f5}",
];
const FILLER: &[&str] = &[
    "Via: SIP/2.0/TCP 192.0.2.4;branch=z9hG4bK7",
    "From: \"A\" <sip:a@example.org>;tag=1",
    "To: <sip:b@example.org>",
    "Call-ID: c03-random@x",
    "CSeq: 7 OPTIONS",
    "Max-Forwards: 70",
    "Contact: <sip:a@192.0.2.4;transport=tcp>",
    "Subject: hello,\r\n world",
    "Accept: application/sdp,\r\n\tapplication/pkcs7-mime",
    "User-Agent: ezk-verif",
    "X-Empty:",
];
const DECOYS: &[&str] = &[
    "lr-x: 17",
    "language: 9",
    "Lx: 3",
    "X-Content-Length: 99",
    "Content-Length-X: 7",
    "Subject: Content-Length: 50",
    "Subject: a\r\n l: 77",
    "X-L: l: 5",
    "Content-Lengthy: 1",
    "c: application/sdp",
    "s: 42",
    "k: 100rel",
    "x: 1800",
    "e: 7",
    "Content-Type: 12",
];
/// Non-ASCII UTF-8 in the places the grammar has it: quoted display names (UTF8-NONASCII in quoted-string),
/// TEXT-UTF8 header values (Subject, Organization, extension headers), comments, folded values; 2-, 3- and
/// 4-byte characters, characters that Unicode (not SIP) counts as white space or line separators
const UTF8_LINES: &[&str] = &[
    "From: \"J\u{f6}rg M\u{fc}ller\" <sip:joerg@example.org>;tag=88",
    "To: \"\u{416}\u{435}\u{43d}\u{44f}\" <sip:z@example.org>",
    "Contact: \"\u{5c71}\u{7530} \u{592a}\u{90ce}\" <sip:yamada@192.0.2.9;transport=tcp>",
    "Subject: \u{65e5}\u{672c}\u{8a9e}\u{306e}\u{4ef6}\u{540d}",
    "Subject: caf\u{e9} \u{1f600} na\u{ef}ve",
    "Subject: gr\u{fc}\u{df}e,\r\n \u{4e16}\u{754c}",
    "Organization: \u{10348}\u{10349} GmbH & S\u{f6}hne",
    "User-Agent: T\u{e9}l\u{e9}phone/1.0 (\u{c9}t\u{e9})",
    "X-Note: \u{a0}lead and trail\u{a0}",
    "X-Sep: a\u{2028}b\u{85}c",
    "X-One: \u{e9}",
    "X-Last: l\u{ff}: 9 \u{10ffff}",
];
const CL_NAMES: &[&str] = &["Content-Length", "content-length", "CONTENT-LENGTH", "Content-length", "cOnTeNt-LeNgTh", "l", "L"];

fn body_strategy() -> BoxedStrategy<Vec<u8>> {
    prop_oneof![
        3 => Just(vec![]),
        2 => prop::collection::vec(any::<u8>(), 1..40),
        2 => prop::collection::vec(prop_oneof![Just(b'\r'), Just(b'\n'), Just(b'l'), Just(b':'), Just(b' '), Just(b'4')], 1..60),
        1 => Just(b"\r\n\r\n".to_vec()),
        1 => Just(b"x\r\n\r\nOPTIONS sip:q SIP/2.0\r\nContent-Length: 9\r\n\r\n123456789".to_vec()),
        1 => prop::collection::vec(any::<u8>(), 2000..4500),
        1 => (0usize..3).prop_map(|k| vec![b'v'; [65_535usize, 65_534, 30_000][k]]),
    ]
    .boxed()
}

fn msg_strategy() -> BoxedStrategy<GenMsg> {
    (
        any::<u16>(),
        prop::collection::vec(any::<u16>(), 2..11),
        prop::collection::vec(any::<u16>(), 0..3),
        // non-ASCII header lines: none in half of the messages
        prop_oneof![5 => Just(vec![]), 5 => prop::collection::vec(any::<u16>(), 1..4)],
        any::<u16>(),
        (
            any::<u16>(),
            0usize..4,
            0usize..4,
            0u8..6,
            // leading zeros of the Content-Length value: none / a few (value stays within 5 digits for small
            // bodies) / many (6 .. 34 digits, beyond the digits of u16, u32, u64 and usize)
            prop_oneof![5 => Just(0usize), 2 => 1usize..5, 3 => 5usize..30],
        ),
        body_strategy(),
        prop_oneof![9 => Just(0usize), 1 => 3000usize..3800],
    )
        .prop_map(|(ssel, fill, decoys, utf8, pos, (nsel, ws_before, ws_after, fold, zeros), body, pad)| {
            let mut lines: Vec<String> = fill.iter().map(|f| FILLER[pick_idx(*f, FILLER.len())].to_string()).collect();
            for d in decoys {
                let at = pick_idx(d, lines.len() + 1);
                lines.insert(at, DECOYS[pick_idx(d.rotate_left(5), DECOYS.len())].to_string());
            }
            for u in utf8 {
                let at = pick_idx(u, lines.len() + 1);
                lines.insert(at, UTF8_LINES[pick_idx(u.rotate_left(5), UTF8_LINES.len())].to_string());
            }
            if pad > 0 {
                // pad the head towards the 4096 limit with one long header
                lines.push(format!("X-Pad: {}", "p".repeat(pad)));
            }
            let name = CL_NAMES[pick_idx(nsel, CL_NAMES.len())];
            // HCOLON = *( SP / HTAB ) ":" SWS,  SWS = [ [*WSP CRLF] 1*WSP ] — blanks and tabs in any mix (chosen by
            // the name selector's bits), optionally with a line fold
            let ws = |n: usize, bits: u16| -> String { (0..n).map(|i| if (bits >> i) & 1 == 1 { '\t' } else { ' ' }).collect() };
            let sep = match fold {
                0..=2 => ws(ws_after, nsel >> 4),
                3 => "\r\n ".to_string(),
                4 => format!("{}\r\n\t", ws(ws_after, nsel >> 4)),
                _ => format!("{}\r\n{}", ws(ws_after, nsel >> 4), ws(1 + ws_before, nsel >> 6)),
            };
            // Content-Length = ( "Content-Length" / "l" ) HCOLON 1*DIGIT
            let cl = format!("{name}{}:{sep}{}{}", ws(ws_before, nsel >> 8), "0".repeat(zeros), body.len());
            let at = pick_idx(pos, lines.len() + 1);
            // a message without body may come without any Content-Length header (1 in 4 of the bodiless ones)
            if !(body.is_empty() && nsel % 4 == 3) {
                lines.insert(at, cl);
            }
            let mut m = GenMsg {
                start: STARTS[pick_idx(ssel, STARTS.len())].to_string(),
                lines,
                body,
            };
            // the statement covers heads of at most 4096 bytes
            while m.head_len() > 4096 {
                let i = m.lines.iter().position(|l| l.starts_with("X-Pad")).unwrap_or(0);
                if m.lines[i].len() > 50 {
                    let l = m.lines[i].len();
                    m.lines[i].truncate(l - 40);
                } else {
                    m.lines.remove(i);
                }
            }
            m
        })
        .boxed()
}

#[derive(Clone, Debug)]
enum CutSel {
    /// the whole stream in one write
    Whole,
    /// 1-byte dribble (strided above 3000 bytes)
    Dribble,
    /// k cuts anywhere
    Anywhere(Vec<u16>),
    /// k cuts at `Layout::landmarks` (the first one inside a multi-byte character of a head when there is one),
    /// plus some anywhere
    Landmarks(Vec<u16>, Vec<u16>),
}

pub fn strategy() -> BoxedStrategy<Case> {
    (
        prop::collection::vec(msg_strategy(), 1..5),
        prop::collection::vec(prop_oneof![4 => Just(0u8), 2 => Just(1u8), 2 => Just(2u8), 1 => Just(3u8)], 6),
        prop_oneof![
            2 => Just(CutSel::Whole),
            1 => Just(CutSel::Dribble),
            5 => prop::collection::vec(any::<u16>(), 1..17).prop_map(CutSel::Anywhere),
            3 => (prop::collection::vec(any::<u16>(), 1..7), prop::collection::vec(any::<u16>(), 0..4)).prop_map(|(a, b)| CutSel::Landmarks(a, b)),
        ],
    )
        .prop_map(|(msgs, ka, cutsel)| {
            let mut keepalives = ka;
            keepalives.truncate(msgs.len() + 1);
            let total: usize = msgs.iter().map(|m| m.bytes().len()).sum::<usize>() + keepalives.iter().map(|k| 2 * *k as usize).sum::<usize>();
            let anywhere = |v: &[u16]| -> Vec<usize> { v.iter().map(|s| 1 + pick_idx(*s, total.saturating_sub(1).max(1))).collect() };
            let mut cuts = match cutsel {
                CutSel::Whole => vec![],
                CutSel::Dribble => {
                    if total <= 3000 {
                        (1..total).collect()
                    } else {
                        (1..total).step_by(total / 1500 + 1).collect()
                    }
                }
                CutSel::Anywhere(v) => anywhere(&v),
                CutSel::Landmarks(at, extra) => {
                    let layout = Layout::new(&msgs, &keepalives);
                    let marks = layout.landmarks();
                    let in_char = layout.split_char_positions();
                    let mut c = anywhere(&extra);
                    for (i, s) in at.iter().enumerate() {
                        if i == 0 && !in_char.is_empty() {
                            c.push(in_char[pick_idx(*s, in_char.len())]);
                        } else if !marks.is_empty() {
                            c.push(marks[pick_idx(*s, marks.len())]);
                        }
                    }
                    c
                }
            };
            cuts.sort();
            cuts.dedup();
            Case { msgs, keepalives, cuts }
        })
        .boxed()
}

pub fn check(case: &Case, out: &mut CaseOut) {
    oracle(&case.msgs, &case.keepalives, &case.cuts, out);
}

fn seed_corpus_stream(dir: &std::path::Path) {
    // artifacts of earlier campaigns (repaired defects): re-run first by every campaign
    if let Ok(rd) = std::fs::read_dir("/verif/regress/fuzz-sip_stream") {
        for e in rd.flatten() {
            let _ = std::fs::copy(e.path(), dir.join(format!("regress-{}", e.file_name().to_string_lossy())));
        }
    }
    // input layout of the target: 3 selector bytes (segmentation), then the stream
    let c = corpus();
    for (i, m) in c.iter().enumerate() {
        for sel in [[0u8, 0, 0], [1, 77, 0], [2, 40, 200]] {
            let mut b = sel.to_vec();
            b.extend_from_slice(&m.bytes());
            if i % 3 == 0 {
                b.extend_from_slice(b"\r\n");
                b.extend_from_slice(&c[(i + 5) % c.len()].bytes());
            }
            let _ = std::fs::write(dir.join(format!("c03-{i:03}-{}", sel[0])), &b);
        }
    }
    for (i, case) in sample_strategy(&strategy(), 11, 120).into_iter().enumerate() {
        let mut b = vec![(i % 3) as u8, (i * 37 % 256) as u8, (i * 91 % 256) as u8];
        for m in case.msgs.iter().filter(|m| m.body.len() < 3000) {
            b.extend_from_slice(&m.bytes());
        }
        let _ = std::fs::write(dir.join(format!("gen-{i:03}")), &b);
    }
}

pub fn property() -> Property {
    Property {
        fuzz: vec![FuzzStage { target: "sip_stream", runs: 800_000, max_len: 9000, seed_corpus: seed_corpus_stream }],
        id: "C03",
        rule: "a case = 1..4 SIP messages (heads <= 4096 B, bodies <= 65535 B; Content-Length spelled in any case / compact l,L / blanks and tabs around the colon / folded (also with blanks before and behind the fold) / any position / value with 0..29 leading zeros (1*DIGIT: up to 34 digits, more than u16, u32, u64 hold), or absent on a bodiless message; decoy headers; non-ASCII UTF-8 (2-, 3-, 4-byte characters) in display names, TEXT-UTF8 header values, comments and reason phrases in half of the messages; bodies containing CRLFCRLF and fake messages) + 0..3 CRLF keep-alives before/between/after + a segmentation; fed through the real tokio_util FramedRead<_, StreamingDecoder>; oracle = each message alone through the datagram parser plus the generator's own record. cuts1: EVERY 1-cut of 39 corpus messages and of 2-message pipelines; cuts2: every 2-cut (thorough; strided in quick); random: generated sequences with k cuts anywhere, k cuts at landmarks (inside a multi-byte character of a head, inside / around the Content-Length value and line, around head end, message end and keep-alive runs), 1-byte dribble, single write. Non-trivial = a cut inside a head after the Content-Length line, inside a body, at a keep-alive or between the bytes of a multi-byte character of a head, or a decoy header, or a non-canonical Content-Length spelling (name, blanks, fold, leading zeros); distinct by (messages, keep-alives, cuts).",
        assumptions: vec![
            "line ends are CRLF (LF-only heads are outside the generated domain)",
            "heads are valid UTF-8 (the datagram parser named as reference rejects anything else); Content-Length values are 1*DIGIT without sign or trailing blanks",
            "the datagram parser (reference named by the statement) is taken as given; its body and header count are cross-checked against the generator's record",
            "the class / signature tag cut-in-char also counts the read boundaries the decoder really saw (a segment larger than the free read buffer is handed out in several reads)",
            "hook H1 re-exports the private StreamingDecoder",
        ],
        explanation: "cuts1 and (thorough) cuts2 are exhaustive over the stated corpus sub-space; random is sampled. Not asserted: anything about messages the datagram parser rejects, several Content-Length headers in one message, what the error is when a stream is refused.",
        subs: vec![
            enum_sub("cuts1", cuts1_cases, check_corpus),
            enum_sub("cuts2", cuts2_cases, check_corpus),
            prop_sub("random", strategy, 1500, 30000, check),
        ],
    }
}
