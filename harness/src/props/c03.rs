//! C03 — Stream framing is independent of how TCP/TLS segments the bytes
//!
//! Generated: sequences of SIP messages (`GenMsg`: start line, header lines as written, body) varied in header
//! order, Content-Length spelling (name case / compact form, blanks and tabs around the colon, folds, leading
//! zeros of the 1*DIGIT value up to 34 digits, position, absence on bodiless messages), decoy headers, non-ASCII
//! UTF-8 text in the head (display names, TEXT-UTF8 values, reason phrases; 2- to 4-byte characters), NUMBER OF
//! HEAD LINES (0 .. ~1000 short header lines of four shapes inside the 4096 byte head: `X-n: v`, 4-byte `q:`
//! lines, folded values, repeated ordinary headers; Content-Length before / inside / behind them), bodies with
//! CRLFCRLF / fake messages / up to 65535 bytes, PIPELINES of up to 6 (enumerated: up to 200) messages whose
//! concatenation is far larger than one maximum-size message; CRLF keep-alives; segmentations (every 1-cut and
//! 2-cut of a corpus, random cuts, cuts at structural landmarks incl. between the bytes of a multi-byte character,
//! dribble, equal segments of 2 .. 100000 bytes, one segment per message, one segment per k head lines, a single
//! cut in the first / last message) and the DRIVER that hands the segments to the decoder, i.e. how much may be
//! buffered when `decode` is called: `Framed` = tokio_util FramedRead::new as ezk's receive task uses it (8 KiB
//! read buffer that the decoder grows to the message awaited), `ReadAhead(n)` = FramedRead::with_capacity(n) (a
//! connection read with a large read-ahead), `Direct` = the tokio_util Decoder contract itself (every segment is
//! appended whole to the BytesMut, `decode` is called until it returns None, `decode_eof` at the end).
//! LIMITS x KEEP-ALIVE RUNS (sub `edges`, and in `random`: heads filled up to 4096 - d bytes, keep-alive runs of up
//! to 255 CRLFs, one cut k bytes in front of the end of every head): a head of 4080 .. 4096 bytes behind a run of
//! 0 .. 255 keep-alive CRLFs, the run in the same segment as the head / in an earlier one / cut between CR and LF,
//! every single cut position around the end of the head.
//! THE CONNECTION (subs `conn`, `conn-random`): the same kind of stream written by a peer to a duplex-pipe
//! connection of a running endpoint (world/stream.rs: ezk's real accept / receive task, FramedRead and managed
//! transport table), accepted by ezk's listener or opened by ezk's connection factory; the application (a layer)
//! is handed the requests and keeps each one for 0 / n further segments / until the end, an outbound connection's
//! handle is dropped after n segments - so the connection changes between used and unused while messages (also
//! larger than the 8 KiB read buffer) are partly received. Oracle there: the layer must be handed exactly the
//! written requests, in order, each with the start line, header list and body of its datagram reading.
//! Oracle: the stream, fed through the real StreamingDecoder by that driver in exactly that segmentation, must
//! yield the same messages (start line, header name/value list, body) as each message alone through the datagram
//! parser; the datagram result itself is cross-checked against the generator's record (body bytes, number of
//! headers).
//! Not asserted: behaviour for input the datagram parser rejects (invalid UTF-8 heads, LF-only line ends),
//! several Content-Length headers, the kind of error, heads above 4096 bytes or bodies above 65535 bytes, how
//! much memory the decoder uses, whether / when ezk closes a connection (an unused connection is legitimately
//! closed after 32 s: connection cases stay below 21 s of virtual time), responses on a connection (only requests
//! reach a layer), the order in which concurrently dispatched requests reach the application on a multi-threaded
//! runtime (the world is single-threaded: dispatch order = arrival order).

use crate::engine::*;
use crate::world::stream::{mock_factory, mock_listener};
use crate::world::{offline_builder, run_world, settle, WireLog};
use bytes::{Bytes, BytesMut};
use sip_core::transport::streaming::StreamingListenerBuilder;
use sip_core::{Endpoint, IncomingRequest, Layer, MayTake};
use sip_types::uri::sip::SipUri;
use std::sync::Arc;
use proptest::prelude::*;
use serde::{Deserialize, Serialize};
use sip_core::transport::streaming::verif::StreamingDecoder;
use sip_core::transport::{parse_complete, CompleteItem};
use sip_types::print::AppendCtx;
use std::collections::VecDeque;
use std::io;
use std::pin::Pin;
use std::task::{Context, Poll};
use tokio::io::{AsyncRead, ReadBuf};
use tokio_stream::StreamExt;
use tokio_util::codec::{Decoder, FramedRead};

// ---------------------------------------------------------------------------------------------
// message model

#[derive(Serialize, Deserialize, Clone, Debug, Hash, PartialEq, Eq)]
pub struct GenMsg {
    pub start: String,
    /// header lines exactly as written, without the terminating CRLF (may contain "\r\n " folding)
    pub lines: Vec<String>,
    #[serde(with = "hex_bytes")]
    pub body: Vec<u8>,
}

pub mod hex_bytes {
    use serde::{Deserialize, Deserializer, Serializer};
    pub fn serialize<S: Serializer>(b: &Vec<u8>, s: S) -> Result<S::Ok, S::Error> {
        let mut out = String::with_capacity(b.len() * 2);
        for x in b {
            out.push_str(&format!("{x:02x}"));
        }
        s.serialize_str(&out)
    }
    pub fn deserialize<'de, D: Deserializer<'de>>(d: D) -> Result<Vec<u8>, D::Error> {
        let s = String::deserialize(d)?;
        Ok((0..s.len() / 2)
            .filter_map(|i| u8::from_str_radix(&s[2 * i..2 * i + 2], 16).ok())
            .collect())
    }
}

impl GenMsg {
    pub fn bytes(&self) -> Vec<u8> {
        let mut s = Vec::new();
        s.extend_from_slice(self.start.as_bytes());
        s.extend_from_slice(b"\r\n");
        for l in &self.lines {
            s.extend_from_slice(l.as_bytes());
            s.extend_from_slice(b"\r\n");
        }
        s.extend_from_slice(b"\r\n");
        s.extend_from_slice(&self.body);
        s
    }
    pub fn head_len(&self) -> usize {
        self.start.len() + 2 + self.lines.iter().map(|l| l.len() + 2).sum::<usize>() + 2
    }
}

/// What a parser made of one message, in comparable form
#[derive(Debug, Clone, PartialEq, Eq)]
pub struct Parsed {
    pub line: String,
    pub headers: Vec<(String, String)>,
    pub body: Vec<u8>,
}

pub fn datagram_reference(bytes: &[u8]) -> Option<Parsed> {
    match parse_complete(Default::default(), bytes) {
        Ok(CompleteItem::Sip {
            line,
            headers,
            body,
            ..
        }) => Some(Parsed {
            line: line.default_print_ctx().to_string(),
            headers: headers
                .iter()
                .map(|(n, v)| (n.as_print_str().to_string(), v.to_string()))
                .collect(),
            body: body.to_vec(),
        }),
        _ => None,
    }
}

// ---------------------------------------------------------------------------------------------
// segmentation-preserving reader

pub struct ScriptedReader {
    chunks: VecDeque<Bytes>,
    /// stream offset behind the bytes handed out so far
    pos: usize,
    /// offsets at which a read ended: the segment boundaries the decoder really saw (a segment larger than the
    /// free space of the read buffer is handed out in several reads, as a socket would)
    boundaries: std::sync::Arc<std::sync::Mutex<Vec<usize>>>,
}

impl ScriptedReader {
    pub fn new(stream: &[u8], cuts: &[usize]) -> Self {
        let mut cuts: Vec<usize> = cuts.iter().copied().filter(|c| *c > 0 && *c < stream.len()).collect();
        cuts.sort();
        cuts.dedup();
        let mut chunks = VecDeque::new();
        let mut prev = 0;
        for c in cuts {
            chunks.push_back(Bytes::copy_from_slice(&stream[prev..c]));
            prev = c;
        }
        if prev < stream.len() {
            chunks.push_back(Bytes::copy_from_slice(&stream[prev..]));
        }
        Self { chunks, pos: 0, boundaries: Default::default() }
    }
}

impl AsyncRead for ScriptedReader {
    fn poll_read(mut self: Pin<&mut Self>, _cx: &mut Context<'_>, buf: &mut ReadBuf<'_>) -> Poll<io::Result<()>> {
        // one segment per read (a larger segment is delivered in as many reads as the buffer needs)
        if let Some(mut chunk) = self.chunks.pop_front() {
            let n = chunk.len().min(buf.remaining());
            buf.put_slice(&chunk.split_to(n));
            if n > 0 {
                self.pos += n;
                let pos = self.pos;
                self.boundaries.lock().unwrap().push(pos);
            }
            if !chunk.is_empty() {
                self.chunks.push_front(chunk);
            }
        }
        Poll::Ready(Ok(()))
    }
}

/// Who hands the segments to the decoder, i.e. how much can be in the buffer when `decode` is called
#[derive(Serialize, Deserialize, Clone, Copy, Debug, Hash, PartialEq, Eq, Default)]
pub enum Driver {
    /// tokio_util `FramedRead::new`, as ezk's receive task: 8 KiB read buffer, grown by the decoder to the size of
    /// the message it awaits (a segment larger than the free space is handed out in several reads)
    #[default]
    Framed,
    /// `FramedRead::with_capacity(n)`: the same with a read-ahead of n bytes
    ReadAhead(u32),
    /// the tokio_util `Decoder` contract itself: every segment is appended whole to the `BytesMut`, `decode` is
    /// called until it returns None; `decode_eof` behind the last segment (what any other framing driver may do)
    Direct,
}

/// What the decoder was really handed
#[derive(Debug, Clone, Default)]
pub struct Trace {
    /// offsets at which the reads / appends ended (superset of the cuts as far as the stream was read)
    pub read_ends: Vec<usize>,
    /// largest number of buffered bytes at the entry of a `decode` / `decode_eof` call
    pub max_buffered: usize,
    pub decode_calls: usize,
}

#[derive(Default)]
struct ProbeStats {
    max_buffered: usize,
    calls: usize,
}

/// The decoder under test behind a transparent probe that notes how many bytes are buffered at every call
struct Probe {
    inner: StreamingDecoder,
    stats: std::sync::Arc<std::sync::Mutex<ProbeStats>>,
}

impl Probe {
    fn new() -> (Self, std::sync::Arc<std::sync::Mutex<ProbeStats>>) {
        let stats: std::sync::Arc<std::sync::Mutex<ProbeStats>> = Default::default();
        (Self { inner: StreamingDecoder::new(Default::default()), stats: stats.clone() }, stats)
    }
    fn note(&self, len: usize) {
        let mut s = self.stats.lock().unwrap();
        s.calls += 1;
        s.max_buffered = s.max_buffered.max(len);
    }
}

impl Decoder for Probe {
    type Item = <StreamingDecoder as Decoder>::Item;
    type Error = <StreamingDecoder as Decoder>::Error;
    fn decode(&mut self, src: &mut BytesMut) -> Result<Option<Self::Item>, Self::Error> {
        self.note(src.len());
        self.inner.decode(src)
    }
    fn decode_eof(&mut self, src: &mut BytesMut) -> Result<Option<Self::Item>, Self::Error> {
        self.note(src.len());
        self.inner.decode_eof(src)
    }
}

fn to_parsed(m: <StreamingDecoder as Decoder>::Item) -> Parsed {
    Parsed {
        line: m.line.default_print_ctx().to_string(),
        headers: m
            .headers
            .iter()
            .map(|(n, v)| (n.as_print_str().to_string(), v.to_string()))
            .collect(),
        body: m.body.to_vec(),
    }
}

/// Feed a segmented stream through the real FramedRead<_, StreamingDecoder>.
pub fn decode_stream(stream: &[u8], cuts: &[usize]) -> (Vec<Parsed>, Option<String>) {
    let (decoded, err, _) = decode_driven(stream, cuts, Driver::Framed);
    (decoded, err)
}

/// Feed a segmented stream to the real StreamingDecoder through the given driver
pub fn decode_driven(stream: &[u8], cuts: &[usize], driver: Driver) -> (Vec<Parsed>, Option<String>, Trace) {
    let (probe, stats) = Probe::new();
    let (decoded, err, read_ends) = match driver {
        Driver::Direct => decode_direct(probe, stream, cuts),
        Driver::Framed | Driver::ReadAhead(_) => {
            let reader = ScriptedReader::new(stream, cuts);
            let boundaries = reader.boundaries.clone();
            let framed = match driver {
                Driver::ReadAhead(n) => FramedRead::with_capacity(reader, probe, n as usize),
                _ => FramedRead::new(reader, probe),
            };
            let (decoded, err) = decode_framed(framed);
            let b = boundaries.lock().unwrap().clone();
            (decoded, err, b)
        }
    };
    let s = stats.lock().unwrap();
    (decoded, err, Trace { read_ends, max_buffered: s.max_buffered, decode_calls: s.calls })
}

fn decode_framed(mut framed: FramedRead<ScriptedReader, Probe>) -> (Vec<Parsed>, Option<String>) {
    let rt = tokio::runtime::Builder::new_current_thread().build().expect("rt");
    rt.block_on(async move {
        let mut out = vec![];
        let mut err = None;
        while let Some(item) = framed.next().await {
            match item {
                Ok(m) => out.push(to_parsed(m)),
                Err(e) => {
                    err = Some(e.to_string());
                    break;
                }
            }
        }
        (out, err)
    })
}

fn decode_direct(mut dec: Probe, stream: &[u8], cuts: &[usize]) -> (Vec<Parsed>, Option<String>, Vec<usize>) {
    let mut bounds: Vec<usize> = cuts.iter().copied().filter(|c| *c > 0 && *c < stream.len()).collect();
    bounds.sort();
    bounds.dedup();
    bounds.push(stream.len());
    let mut buf = BytesMut::new();
    let mut out = vec![];
    let mut read_ends = vec![];
    let mut prev = 0;
    for b in bounds {
        buf.extend_from_slice(&stream[prev..b]);
        prev = b;
        read_ends.push(b);
        loop {
            match dec.decode(&mut buf) {
                Ok(Some(m)) => out.push(to_parsed(m)),
                Ok(None) => break,
                Err(e) => return (out, Some(e.to_string()), read_ends),
            }
        }
    }
    // end of stream, as FramedRead reports it
    loop {
        match dec.decode_eof(&mut buf) {
            Ok(Some(m)) => out.push(to_parsed(m)),
            Ok(None) => break,
            Err(e) => return (out, Some(e.to_string()), read_ends),
        }
    }
    (out, None, read_ends)
}

// ---------------------------------------------------------------------------------------------
// shared oracle

pub struct Features {
    pub cut_in_head_after_cl: bool,
    pub cut_in_body: bool,
    pub cut_at_keepalive: bool,
    pub cut_in_char: bool,
    pub decoy: bool,
    pub odd_spelling: bool,
    pub zero_padded: bool,
    pub utf8_head: bool,
    pub keepalive: bool,
    pub big: bool,
    /// a message whose head has more than MANY_LINES physical lines
    pub many_lines: bool,
    /// a decode call found more bytes buffered than the largest message of the statement has (4096 + 65535)
    pub over_buffered: bool,
}

/// More head lines than any ordinary message has (the other generators stay below 20)
pub const MANY_LINES: usize = 32;
/// Size of the largest message the statement covers: head 4096 + body 65535
pub const MAX_MESSAGE: usize = 4096 + 65535;

fn cl_line_index(m: &GenMsg) -> Option<usize> {
    m.lines.iter().position(|l| {
        let name = l.split(':').next().unwrap_or("").trim();
        name.eq_ignore_ascii_case("content-length") || name.eq_ignore_ascii_case("l")
    })
}

/// The 1*DIGIT of the Content-Length line as written (without the optional, possibly folded, blanks around it)
fn cl_digits(m: &GenMsg) -> Option<&str> {
    let l = &m.lines[cl_line_index(m)?];
    Some(l.split_once(':')?.1.trim_matches(|c| matches!(c, ' ' | '\t' | '\r' | '\n')))
}

fn head_is_non_ascii(m: &GenMsg) -> bool {
    !m.start.is_ascii() || m.lines.iter().any(|l| !l.is_ascii())
}

/// Byte layout of the stream a case writes
pub struct Layout {
    pub stream: Vec<u8>,
    /// per message: (start, head_end, end, end of the Content-Length line incl. its CRLF)
    pub spans: Vec<(usize, usize, usize, Option<usize>)>,
    /// per message: (first byte after the colon of the Content-Length line, end of that line excl. CRLF)
    pub cl_values: Vec<Option<(usize, usize)>>,
    /// runs of keep-alive CRLFs
    pub ka_spans: Vec<(usize, usize)>,
    /// per message: offset behind the CRLF of every physical line of the head (start line, header lines, folds),
    /// without the empty line that ends the head
    pub line_ends: Vec<Vec<usize>>,
}

impl Layout {
    /// keepalives[i] CRLFs before message i, keepalives[n] after the last one
    pub fn new(msgs: &[GenMsg], keepalives: &[u8]) -> Self {
        let mut stream: Vec<u8> = vec![];
        let mut spans = vec![];
        let mut cl_values = vec![];
        let mut ka_spans = vec![];
        let mut line_ends = vec![];
        for (i, m) in msgs.iter().enumerate() {
            let k = keepalives.get(i).copied().unwrap_or(0) as usize;
            if k > 0 {
                ka_spans.push((stream.len(), stream.len() + 2 * k));
            }
            for _ in 0..k {
                stream.extend_from_slice(b"\r\n");
            }
            let start = stream.len();
            let b = m.bytes();
            let head_end = start + m.head_len();
            let idx = cl_line_index(m);
            let cl_end = idx.map(|idx| start + m.start.len() + 2 + m.lines[..=idx].iter().map(|l| l.len() + 2).sum::<usize>());
            cl_values.push(idx.and_then(|idx| {
                let line_end = cl_end? - 2;
                let colon = m.lines[idx].find(':')?;
                Some((line_end - m.lines[idx].len() + colon + 1, line_end))
            }));
            stream.extend_from_slice(&b);
            spans.push((start, head_end, stream.len(), cl_end));
            let head = &stream[start..head_end - 2];
            line_ends.push((2..=head.len()).filter(|p| &head[*p - 2..*p] == b"\r\n").map(|p| start + p).collect());
        }
        let tail_k = keepalives.get(msgs.len()).copied().unwrap_or(0) as usize;
        if tail_k > 0 {
            ka_spans.push((stream.len(), stream.len() + 2 * tail_k));
        }
        for _ in 0..tail_k {
            stream.extend_from_slice(b"\r\n");
        }
        Layout { stream, spans, cl_values, ka_spans, line_ends }
    }

    /// Cut positions that fall between the bytes of one multi-byte character of a message head
    /// (the byte behind the cut is a UTF-8 continuation byte; generated heads are valid UTF-8)
    pub fn split_char_positions(&self) -> Vec<usize> {
        let mut v = vec![];
        for (start, head_end, _, _) in &self.spans {
            for p in (*start + 1)..*head_end {
                if self.stream[p] & 0xC0 == 0x80 {
                    v.push(p);
                }
            }
        }
        v
    }

    /// Largest number of physical head lines of ONE message that end inside one read (`read_ends` ascending)
    pub fn max_head_lines_in_one_read(&self, read_ends: &[usize]) -> usize {
        let mut best = 0;
        for ends in &self.line_ends {
            let mut run = 0;
            let mut cur = usize::MAX;
            for p in ends {
                // index of the read that delivered the last byte of this line
                let r = read_ends.partition_point(|e| *e < *p);
                if r == cur {
                    run += 1;
                } else {
                    cur = r;
                    run = 1;
                }
                best = best.max(run);
            }
        }
        best
    }

    /// Largest number of messages that end inside one read
    pub fn max_message_ends_in_one_read(&self, read_ends: &[usize]) -> usize {
        let mut best = 0;
        let mut run = 0;
        let mut cur = usize::MAX;
        for (_, _, end, _) in &self.spans {
            let r = read_ends.partition_point(|e| *e < *end);
            if r == cur {
                run += 1;
            } else {
                cur = r;
                run = 1;
            }
            best = best.max(run);
        }
        best
    }

    /// Structurally interesting cut positions: inside every multi-byte character of a head, inside and around the
    /// Content-Length value, around the end of the Content-Length line, around the end of the head, around the end
    /// of the message and around keep-alive runs.
    pub fn landmarks(&self) -> Vec<usize> {
        let mut v = self.split_char_positions();
        for ((_, head_end, end, cl_end), clv) in self.spans.iter().zip(&self.cl_values) {
            if let Some((a, b)) = clv {
                v.extend(a.saturating_sub(1)..=*b + 2);
            }
            if let Some(c) = cl_end {
                v.push(*c + 1);
            }
            v.extend(head_end.saturating_sub(3)..=*head_end + 1);
            v.extend(end.saturating_sub(1)..=*end + 1);
        }
        for (a, b) in &self.ka_spans {
            v.extend(a.saturating_sub(1)..=*b + 1);
        }
        let n = self.stream.len();
        v.retain(|p| *p > 0 && *p < n);
        v.sort();
        v.dedup();
        v
    }
}

pub fn oracle(msgs: &[GenMsg], keepalives: &[u8], cuts: &[usize], out: &mut CaseOut) {
    oracle_driven(msgs, keepalives, cuts, Driver::Framed, out)
}

fn show_cuts(cuts: &[usize]) -> String {
    if cuts.len() <= 12 {
        format!("{cuts:?}")
    } else {
        format!("{:?}.. ({} cuts)", &cuts[..12], cuts.len())
    }
}

pub fn oracle_driven(msgs: &[GenMsg], keepalives: &[u8], cuts: &[usize], driver: Driver, out: &mut CaseOut) {
    let layout = Layout::new(msgs, keepalives);
    let Layout { stream, spans, ka_spans, .. } = &layout;
    let split_positions = layout.split_char_positions();

    // reference: each message alone as a datagram
    let mut reference = vec![];
    for m in msgs {
        match datagram_reference(&m.bytes()) {
            Some(p) => reference.push(p),
            None => {
                out.fail("c03.harness/datagram-rejects-generated-message", format!("datagram parser rejects {:?}", String::from_utf8_lossy(&m.bytes())));
                return;
            }
        }
    }
    // independent sanity of the reference against the generator's own record
    for (m, r) in msgs.iter().zip(&reference) {
        if r.body != m.body {
            out.fail("c03.reference/datagram-body", "datagram reference body differs from the generated body");
        }
        if r.headers.len() != m.lines.len() {
            out.fail("c03.reference/datagram-header-count", format!("{} header lines written, datagram parser returned {}", m.lines.len(), r.headers.len()));
        }
    }

    let (decoded, err, trace) = decode_driven(stream, cuts, driver);
    let read_ends = &trace.read_ends;

    // classes
    let most_lines = layout.line_ends.iter().map(|l| l.len()).max().unwrap_or(0);
    let f = Features {
        cut_in_head_after_cl: cuts.iter().any(|c| spans.iter().any(|(_, he, _, cl)| cl.map_or(false, |cl| *c >= cl && *c < *he))),
        cut_in_body: cuts.iter().any(|c| spans.iter().any(|(_, he, e, _)| *c > *he && *c < *e)),
        cut_at_keepalive: cuts.iter().any(|c| ka_spans.iter().any(|(s, e)| *c >= *s && *c <= *e)),
        // by the written segmentation or by the reads the decoder really made
        cut_in_char: cuts.iter().chain(read_ends).any(|c| split_positions.binary_search(c).is_ok()),
        decoy: msgs.iter().any(|m| {
            m.lines.iter().any(|l| {
                let n = l.split(':').next().unwrap_or("").trim().to_ascii_lowercase();
                n != "l" && n != "content-length" && (n.starts_with('l') || n.contains("content-length") || n.len() == 1 || n == "content-type")
            })
        }),
        odd_spelling: msgs.iter().any(|m| cl_line_index(m).map_or(false, |i| !m.lines[i].starts_with("Content-Length: "))),
        zero_padded: msgs.iter().any(|m| cl_digits(m).map_or(false, |d| d.len() > 1 && d.starts_with('0'))),
        utf8_head: msgs.iter().any(head_is_non_ascii),
        keepalive: keepalives.iter().any(|k| *k > 0),
        big: stream.len() > 4096,
        many_lines: most_lines > MANY_LINES,
        over_buffered: trace.max_buffered > MAX_MESSAGE,
    };
    if f.cut_in_char {
        out.class("cut-inside-multibyte-char-of-head");
    }
    if f.utf8_head {
        out.class("non-ascii-head");
    }
    if f.zero_padded {
        out.class("zero-padded-content-length");
        let longest = msgs.iter().filter_map(cl_digits).map(|d| d.len()).max().unwrap_or(0);
        if longest > 5 {
            out.class("content-length-with->5-digits");
        }
        if longest > 20 {
            out.class("content-length-with->20-digits");
        }
    }
    if msgs.iter().any(|m| cl_line_index(m).map_or(false, |i| m.lines[i].contains("\r\n"))) {
        out.class("folded-content-length");
    }
    if f.cut_in_head_after_cl {
        out.class("cut-in-head-after-content-length");
    }
    if f.cut_in_body {
        out.class("cut-in-body");
    }
    if f.cut_at_keepalive {
        out.class("cut-at-keepalive");
    }
    if f.decoy {
        out.class("decoy-header");
    }
    if f.odd_spelling {
        out.class("non-canonical-content-length");
    }
    if f.keepalive {
        out.class("keepalive");
    }
    if f.big {
        out.class("stream>4096");
    }
    if msgs.len() > 1 {
        out.class("pipelined");
    }
    if msgs.iter().skip(1).any(|m| cl_line_index(m).is_none()) && msgs.iter().any(|m| !m.body.is_empty()) {
        out.class("message without Content-Length behind a message with body");
    }
    // number of head lines, and how many of them one decode call gets to see at once
    for (limit, label) in [(MANY_LINES, "head with >32 lines"), (128, "head with >128 lines"), (512, "head with >512 lines")] {
        if most_lines > limit {
            out.class(label);
        }
    }
    let lines_at_once = layout.max_head_lines_in_one_read(read_ends);
    for (limit, label) in [(MANY_LINES, "one read holds >32 lines of a head"), (128, "one read holds >128 lines of a head"), (512, "one read holds >512 lines of a head")] {
        if lines_at_once > limit {
            out.class(label);
        }
    }
    if most_lines > MANY_LINES && lines_at_once < most_lines {
        out.class("head with >32 lines spread over several reads");
    }
    if msgs.iter().zip(&layout.line_ends).any(|(m, l)| l.len() > MANY_LINES && cl_line_index(m).map_or(false, |i| i > MANY_LINES)) {
        out.class("Content-Length behind >32 header lines");
    }
    // how much is buffered when decode is called
    out.class(match driver {
        Driver::Framed => "driver: FramedRead::new",
        Driver::ReadAhead(_) => "driver: FramedRead::with_capacity (read-ahead)",
        Driver::Direct => "driver: Decoder contract (segment appended whole)",
    });
    if stream.len() > MAX_MESSAGE {
        out.class("stream larger than the largest message (>69631)");
    }
    if f.over_buffered {
        out.class("decode call with >69631 bytes buffered");
    }
    if trace.max_buffered > 2 * MAX_MESSAGE {
        out.class("decode call with >139262 bytes buffered");
    }
    let msgs_at_once = layout.max_message_ends_in_one_read(read_ends);
    if msgs_at_once > 1 {
        out.class("one read holds the ends of several messages");
    }
    if msgs_at_once > 8 {
        out.class("one read holds the ends of >8 messages");
    }
    if msgs.iter().any(|m| m.head_len() == 4096) {
        out.class("head of exactly 4096 bytes");
    }
    if msgs.iter().any(|m| m.body.len() == 65535) {
        out.class("body of exactly 65535 bytes");
    }
    if f.cut_in_head_after_cl || f.cut_in_body || f.cut_at_keepalive || f.cut_in_char || f.decoy || f.odd_spelling || f.zero_padded || f.many_lines || f.over_buffered || msgs_at_once > 1 {
        out.nontrivial(&(msgs, keepalives, cuts, driver));
    }

    // verdict
    let ctx = || {
        let mut tags = vec![];
        if f.keepalive { tags.push("keepalive"); }
        if f.big { tags.push("big"); }
        if f.decoy { tags.push("decoy"); }
        if f.odd_spelling { tags.push("spelling"); }
        if f.zero_padded { tags.push("zero-padded"); }
        if f.utf8_head { tags.push("utf8-head"); }
        if f.cut_in_char { tags.push("cut-in-char"); }
        if f.many_lines { tags.push("many-lines"); }
        if msgs.iter().any(|m| m.head_len() >= 4090) { tags.push("head-at-limit"); }
        if f.over_buffered { tags.push("buffered>max-message"); }
        if tags.is_empty() { tags.push("plain"); }
        tags.join("+")
    };
    let how = format!("driver {driver:?}, cuts {}, stream {} bytes, at most {} bytes buffered at a decode call, at most {lines_at_once} lines of one head in one read", show_cuts(cuts), stream.len(), trace.max_buffered);
    if let Some(e) = &err {
        out.fail(
            format!("c03.decode/error[{}]", ctx()),
            format!("stream decoder failed with `{e}` after {} of {} messages ({how})", decoded.len(), msgs.len()),
        );
    }
    if decoded.len() < reference.len() && err.is_none() {
        out.fail(
            format!("c03.decode/missing[{}]", ctx()),
            format!("{} messages written, {} decoded ({how})", reference.len(), decoded.len()),
        );
    }
    if decoded.len() > reference.len() {
        out.fail(
            format!("c03.decode/extra[{}]", ctx()),
            format!("{} messages written, {} decoded ({how})", reference.len(), decoded.len()),
        );
    }
    for (i, (d, r)) in decoded.iter().zip(&reference).enumerate() {
        if d.line != r.line {
            out.fail(format!("c03.differs/start-line[{}]", ctx()), format!("message {i}: {:?} vs datagram {:?}", d.line, r.line));
        }
        if d.headers != r.headers {
            let at = d.headers.iter().zip(&r.headers).position(|(a, b)| a != b).unwrap_or(d.headers.len().min(r.headers.len()));
            out.fail(
                format!("c03.differs/headers[{}]", ctx()),
                format!("message {i}: stream {} headers vs datagram {}, first difference at header {at}: {:?} vs {:?} ({how})", d.headers.len(), r.headers.len(), d.headers.get(at), r.headers.get(at)),
            );
        }
        if d.body != r.body {
            out.fail(
                format!("c03.differs/body[{}]", ctx()),
                format!("message {i}: stream body {} bytes vs datagram {} bytes ({how})", d.body.len(), r.body.len()),
            );
        }
    }
}

// ---------------------------------------------------------------------------------------------
// small corpus, exhaustive cuts

fn mk(start: &str, lines: &[&str], body: &[u8]) -> GenMsg {
    GenMsg {
        start: start.to_string(),
        lines: lines.iter().map(|s| s.to_string()).collect(),
        body: body.to_vec(),
    }
}

pub fn corpus() -> Vec<GenMsg> {
    let via = "Via: SIP/2.0/TCP 192.0.2.4;branch=z9hG4bK7";
    let from = "From: <sip:a@example.org>;tag=1";
    let to = "To: <sip:b@example.org>";
    let cid = "Call-ID: c03@x";
    let cs = "CSeq: 1 OPTIONS";
    let body4 = b"ab\r\n";
    let tricky: &[u8] = b"x\r\n\r\nOPTIONS sip:q SIP/2.0\r\nl: 9\r\n\r\n";
    vec![
        mk("OPTIONS sip:b@example.org SIP/2.0", &[via, from, to, cid, cs, "Content-Length: 0"], b""),
        mk("OPTIONS sip:b@example.org SIP/2.0", &["Content-Length: 0", via, from, to, cid, cs], b""),
        mk("OPTIONS sip:b@example.org SIP/2.0", &[via, "Content-Length: 4", from, to, cid, cs], body4),
        mk("OPTIONS sip:b@example.org SIP/2.0", &["Content-Length: 4", via, from, to, cid, cs], body4),
        mk("OPTIONS sip:b@example.org SIP/2.0", &[via, from, to, cid, cs, "Content-Length: 4"], body4),
        mk("OPTIONS sip:b@example.org SIP/2.0", &[via, from, "l: 4", to, cid, cs], body4),
        mk("OPTIONS sip:b@example.org SIP/2.0", &[via, from, "L: 4", to, cid, cs], body4),
        mk("OPTIONS sip:b@example.org SIP/2.0", &[via, from, "content-length: 4", to, cid, cs], body4),
        mk("OPTIONS sip:b@example.org SIP/2.0", &[via, from, "CONTENT-LENGTH:4", to, cid, cs], body4),
        mk("OPTIONS sip:b@example.org SIP/2.0", &[via, from, "Content-Length : 4", to, cid, cs], body4),
        mk("OPTIONS sip:b@example.org SIP/2.0", &[via, from, "Content-Length  :   4", to, cid, cs], body4),
        mk("OPTIONS sip:b@example.org SIP/2.0", &[via, from, "l :4", to, cid, cs], body4),
        mk("OPTIONS sip:b@example.org SIP/2.0", &[via, from, "Content-Length\t: 4", to, cid, cs], body4),
        mk("OPTIONS sip:b@example.org SIP/2.0", &[via, from, "l \t:\t4", to, cid, cs], body4),
        mk("OPTIONS sip:b@example.org SIP/2.0", &[via, from, to, cid, cs, "Content-Length: 0", "lr-x: 17"], b""),
        mk("OPTIONS sip:b@example.org SIP/2.0", &[via, "language: 9", from, to, cid, cs, "Content-Length: 4"], body4),
        mk("OPTIONS sip:b@example.org SIP/2.0", &[via, "X-Content-Length: 99", from, to, cid, cs, "l: 4", "Content-Length-X: 7"], body4),
        mk("OPTIONS sip:b@example.org SIP/2.0", &[via, from, to, cid, cs, "Subject: Content-Length: 50", "Content-Length: 4"], body4),
        mk("OPTIONS sip:b@example.org SIP/2.0", &[via, from, to, cid, cs, "Subject: a\r\n l: 77", "Content-Length: 4"], body4),
        mk("OPTIONS sip:b@example.org SIP/2.0", &[via, from, to, cid, cs, "Content-Length:\r\n 4", "Subject: x"], body4),
        mk("OPTIONS sip:b@example.org SIP/2.0", &[via, from, "Content-Length: 36", to, cid, cs], tricky),
        mk("OPTIONS sip:b@example.org SIP/2.0", &[via, from, to, cid, cs, "Content-Length: 1"], b"\n"),
        mk("OPTIONS sip:b@example.org SIP/2.0", &[via, from, to, cid, cs, "Content-Length: 2"], b"\r\n"),
        mk("OPTIONS sip:b@example.org SIP/2.0", &[via, from, to, cid, cs, "Content-Length: 4"], b"\r\n\r\n"),
        mk("SIP/2.0 200 OK", &[via, from, to, cid, cs, "Content-Length: 0"], b""),
        // no Content-Length header at all: nothing states a body, so there is none (and nothing may be inherited
        // from whatever message came before on the connection)
        mk("OPTIONS sip:b@example.org SIP/2.0", &[via, from, to, cid, cs], b""),
        mk("SIP/2.0 200 OK", &[via, from, to, cid, cs, "Content-Type: text/plain", "language: 4"], b""),
        mk("SIP/2.0 200 OK", &[via, "l: 4", from, to, cid, cs], body4),
        mk("SIP/2.0 180 Ringing", &["Content-Length: 4", via, from, to, cid, cs], b"\x00\xff\r\n"),
        mk("INVITE sip:b@example.org SIP/2.0", &[via, from, to, cid, "CSeq: 1 INVITE", "Content-Type: application/sdp", "Content-Length: 9"], b"v=0\r\no=- "),
        mk("INVITE sip:b@example.org SIP/2.0", &[via, from, to, cid, "CSeq: 1 INVITE", "l: 9", "c: application/sdp", "s: 42", "x: 1800"], b"v=0\r\no=- "),
        // (appended only: the replays in regress/ address this list by index)
        // Content-Length = 1*DIGIT: any number of leading zeros is a legal spelling of the same length
        mk("OPTIONS sip:b@example.org SIP/2.0", &[via, from, "Content-Length: 0004", to, cid, cs], body4),
        mk("OPTIONS sip:b@example.org SIP/2.0", &[via, from, to, cid, cs, "Content-Length: 0000000004"], body4),
        mk("OPTIONS sip:b@example.org SIP/2.0", &[via, "l: 000000", from, to, cid, cs], b""),
        mk("OPTIONS sip:b@example.org SIP/2.0", &[via, from, "l \t:  \r\n\t 00000000000000000000004", to, cid, cs], body4),
        // heads are UTF-8 text (display names, TEXT-UTF8 header values, reason phrases): 2-, 3- and 4-byte characters
        mk("OPTIONS sip:b@example.org SIP/2.0", &[via, "From: \"J\u{f6}rg M\u{fc}ller\" <sip:a@example.org>;tag=1", to, cid, cs, "Content-Length: 4"], body4),
        mk("OPTIONS sip:b@example.org SIP/2.0", &["Content-Length: 4", via, from, to, cid, cs, "Subject: \u{65e5}\u{672c} \u{1f600}"], body4),
        mk("SIP/2.0 480 Zur Zeit nicht verf\u{fc}gbar \u{2013} sp\u{e4}ter", &[via, from, to, cid, cs, "l: 0"], b""),
        // control: the same characters in a body under an ASCII head
        mk("MESSAGE sip:b@example.org SIP/2.0", &[via, from, to, cid, "CSeq: 1 MESSAGE", "Content-Type: text/plain;charset=utf-8", "Content-Length: 12"], "gr\u{fc}\u{df}e \u{1f600}".as_bytes()),
    ]
}

#[derive(Serialize, Deserialize, Clone, Debug, Hash)]
pub struct CorpusCase {
    /// indices into corpus()
    pub msgs: Vec<usize>,
    /// CRLFs before each message and after the last
    pub keepalives: Vec<u8>,
    pub cuts: Vec<usize>,
}

pub fn check_corpus(case: &CorpusCase, out: &mut CaseOut) {
    let c = corpus();
    let msgs: Vec<GenMsg> = case.msgs.iter().map(|i| c[*i % c.len()].clone()).collect();
    oracle(&msgs, &case.keepalives, &case.cuts, out);
}

fn stream_len(c: &[GenMsg], idx: &[usize], ka: &[u8]) -> usize {
    idx.iter().map(|i| c[*i].bytes().len()).sum::<usize>() + ka.iter().map(|k| 2 * *k as usize).sum::<usize>()
}

pub fn cuts1_cases(_tier: Tier) -> Vec<CorpusCase> {
    let c = corpus();
    let mut out = vec![];
    // single messages: every 1-cut (and the uncut stream)
    for i in 0..c.len() {
        let n = stream_len(&c, &[i], &[]);
        out.push(CorpusCase { msgs: vec![i], keepalives: vec![], cuts: vec![] });
        for cut in 1..n {
            out.push(CorpusCase { msgs: vec![i], keepalives: vec![], cuts: vec![cut] });
        }
    }
    // pairs (i, i+1) with keep-alive patterns: every 1-cut
    for i in 0..c.len() {
        let j = (i + 7) % c.len();
        for ka in [vec![0u8, 0, 0], vec![0, 1, 0], vec![0, 2, 0], vec![1, 0, 0], vec![2, 1, 1], vec![0, 0, 2]] {
            let n = stream_len(&c, &[i, j], &ka);
            if (i + ka[1] as usize) % 3 != 0 && ka != vec![0, 0, 0] {
                continue; // thin the keep-alive product: every message still meets every pattern family
            }
            for cut in 1..n {
                out.push(CorpusCase { msgs: vec![i, j], keepalives: ka.clone(), cuts: vec![cut] });
            }
        }
    }
    out
}

pub fn cuts2_cases(tier: Tier) -> Vec<CorpusCase> {
    let c = corpus();
    let mut out = vec![];
    let stride = tier.pick(7usize, 1usize);
    for i in 0..c.len() {
        // single message: every 2-cut
        let n = stream_len(&c, &[i], &[]);
        let mut k = i; // de-phase the stride per message
        for a in 1..n {
            for b in (a + 1)..n {
                k += 1;
                if k % stride == 0 {
                    out.push(CorpusCase { msgs: vec![i], keepalives: vec![], cuts: vec![a, b] });
                }
            }
        }
        // pair with one keep-alive between: every 2-cut (thorough), sampled in quick
        let j = (i + 11) % c.len();
        let ka = vec![0u8, (i % 3) as u8, (i % 2) as u8];
        let n = stream_len(&c, &[i, j], &ka);
        let pair_stride = tier.pick(97usize, 3usize);
        for a in 1..n {
            for b in (a + 1)..n {
                k += 1;
                if k % pair_stride == 0 {
                    out.push(CorpusCase { msgs: vec![i, j], keepalives: ka.clone(), cuts: vec![a, b] });
                }
            }
        }
    }
    out
}

// ---------------------------------------------------------------------------------------------
// random sequences

#[derive(Serialize, Deserialize, Clone, Debug, Hash)]
pub struct Case {
    pub msgs: Vec<GenMsg>,
    pub keepalives: Vec<u8>,
    pub cuts: Vec<usize>,
    #[serde(default)]
    pub driver: Driver,
}

const STARTS: &[&str] = &[
    "OPTIONS sip:b@example.org SIP/2.0",
    "INVITE sip:bob@[2001:db8::1]:5070;transport=tcp SIP/2.0",
    "MESSAGE sips:carol@chicago.example.com SIP/2.0",
    "FOO sip:x SIP/2.0",
    "SIP/2.0 200 OK",
    "SIP/2.0 180 Ringing",
    "SIP/2.0 404 Not Found",
    // Reason-Phrase = *(reserved / unreserved / escaped / UTF8-NONASCII / UTF8-CONT / SP / HTAB)
    "SIP/2.0 480 Zur Zeit nicht verf\u{fc}gbar",
    "SIP/2.0 486 \u{8a71}\u{3057}\u{4e2d} \u{1f4f5}",
];
const FILLER: &[&str] = &[
    "Via: SIP/2.0/TCP 192.0.2.4;branch=z9hG4bK7",
    "From: \"A\" <sip:a@example.org>;tag=1",
    "To: <sip:b@example.org>",
    "Call-ID: c03-random@x",
    "CSeq: 7 OPTIONS",
    "Max-Forwards: 70",
    "Contact: <sip:a@192.0.2.4;transport=tcp>",
    "Subject: hello,\r\n world",
    "Accept: application/sdp,\r\n\tapplication/pkcs7-mime",
    "User-Agent: ezk-verif",
    "X-Empty:",
];
const DECOYS: &[&str] = &[
    "lr-x: 17",
    "language: 9",
    "Lx: 3",
    "X-Content-Length: 99",
    "Content-Length-X: 7",
    "Subject: Content-Length: 50",
    "Subject: a\r\n l: 77",
    "X-L: l: 5",
    "Content-Lengthy: 1",
    "c: application/sdp",
    "s: 42",
    "k: 100rel",
    "x: 1800",
    "e: 7",
    "Content-Type: 12",
];
/// Non-ASCII UTF-8 in the places the grammar has it: quoted display names (UTF8-NONASCII in quoted-string),
/// TEXT-UTF8 header values (Subject, Organization, extension headers), comments, folded values; 2-, 3- and
/// 4-byte characters, characters that Unicode (not SIP) counts as white space or line separators
const UTF8_LINES: &[&str] = &[
    "From: \"J\u{f6}rg M\u{fc}ller\" <sip:joerg@example.org>;tag=88",
    "To: \"\u{416}\u{435}\u{43d}\u{44f}\" <sip:z@example.org>",
    "Contact: \"\u{5c71}\u{7530} \u{592a}\u{90ce}\" <sip:yamada@192.0.2.9;transport=tcp>",
    "Subject: \u{65e5}\u{672c}\u{8a9e}\u{306e}\u{4ef6}\u{540d}",
    "Subject: caf\u{e9} \u{1f600} na\u{ef}ve",
    "Subject: gr\u{fc}\u{df}e,\r\n \u{4e16}\u{754c}",
    "Organization: \u{10348}\u{10349} GmbH & S\u{f6}hne",
    "User-Agent: T\u{e9}l\u{e9}phone/1.0 (\u{c9}t\u{e9})",
    "X-Note: \u{a0}lead and trail\u{a0}",
    "X-Sep: a\u{2028}b\u{85}c",
    "X-One: \u{e9}",
    "X-Last: l\u{ff}: 9 \u{10ffff}",
];
const CL_NAMES: &[&str] = &["Content-Length", "content-length", "CONTENT-LENGTH", "Content-length", "cOnTeNt-LeNgTh", "l", "L"];

fn body_strategy() -> BoxedStrategy<Vec<u8>> {
    prop_oneof![
        3 => Just(vec![]),
        2 => prop::collection::vec(any::<u8>(), 1..40),
        2 => prop::collection::vec(prop_oneof![Just(b'\r'), Just(b'\n'), Just(b'l'), Just(b':'), Just(b' '), Just(b'4')], 1..60),
        1 => Just(b"\r\n\r\n".to_vec()),
        1 => Just(b"x\r\n\r\nOPTIONS sip:q SIP/2.0\r\nContent-Length: 9\r\n\r\n123456789".to_vec()),
        1 => prop::collection::vec(any::<u8>(), 2000..4500),
        1 => (0usize..3).prop_map(|k| vec![b'v'; [65_535usize, 65_534, 30_000][k]]),
    ]
    .boxed()
}

/// Body of the given length with bytes of every value, CRLFCRLF runs and header-like text
pub fn pattern_body(len: usize, seed: u8) -> Vec<u8> {
    let mut b: Vec<u8> = (0..len).map(|i| (i as u8).wrapping_mul(31).wrapping_add(seed)).collect();
    let text: &[u8] = b"\r\n\r\nContent-Length: 7\r\nl: 1\r\n\r\nOPTIONS sip:q SIP/2.0\r\n\r\n";
    let mut at = 10;
    while at + text.len() <= len {
        b[at..at + text.len()].copy_from_slice(text);
        at += 1 + 7 * text.len() + 1000 * (seed as usize % 5);
    }
    b
}

/// Bodies for long pipelines: mostly large
fn big_body_strategy() -> BoxedStrategy<Vec<u8>> {
    prop_oneof![
        4 => any::<u8>().prop_map(|s| pattern_body(65_535, s)),
        3 => (any::<u8>(), 0usize..6).prop_map(|(s, k)| pattern_body([65_534usize, 40_000, 30_000, 20_000, 8_192, 4_097][k], s)),
        1 => (any::<u8>(), 4_097usize..65_535).prop_map(|(s, n)| pattern_body(n, s)),
        1 => Just(vec![]),
        1 => (any::<u8>(), 1usize..200).prop_map(|(s, n)| pattern_body(n, s)),
    ]
    .boxed()
}

/// Short header lines, to give a head many lines within its 4096 bytes
pub fn short_line(shape: u8, i: usize) -> String {
    match shape % 4 {
        0 => format!("X-{i}: {}", i % 10),
        // the shortest header line there is (names that are no compact form of anything)
        1 => format!("{}:", ["g", "h", "n", "p", "q", "w", "z"][i % 7]),
        // folded: two physical lines per header
        2 => format!("X-{i}: a\r\n b{}", i % 10),
        // ordinary headers, repeated (a long Via / Record-Route / Accept list)
        _ => ["Via: SIP/2.0/TCP 192.0.2.4;branch=z9hG4bK7", "Record-Route: <sip:p1.example.org;lr>", "Accept: text/plain", "Route: <sip:p2.example.org;lr>", "Allow: INVITE", "k: timer"][i % 6].to_string(),
    }
}

fn msg_strategy() -> BoxedStrategy<GenMsg> {
    msg_strategy_with(body_strategy())
}

fn msg_strategy_with(body: BoxedStrategy<Vec<u8>>) -> BoxedStrategy<GenMsg> {
    (
        any::<u16>(),
        (
            prop::collection::vec(any::<u16>(), 2..11),
            // number of short header lines added to the head (as far as the 4096 bytes allow), their shape, where
            prop_oneof![
                30 => Just(0usize),
                2 => 1usize..33,
                2 => 33usize..129,
                1 => 120usize..140,
                2 => 129usize..420,
                1 => 250usize..262,
                1 => 400usize..1000,
            ],
            0u8..4,
            any::<u16>(),
        ),
        prop::collection::vec(any::<u16>(), 0..3),
        // non-ASCII header lines: none in half of the messages
        prop_oneof![5 => Just(vec![]), 5 => prop::collection::vec(any::<u16>(), 1..4)],
        any::<u16>(),
        (
            any::<u16>(),
            0usize..4,
            0usize..4,
            0u8..6,
            // leading zeros of the Content-Length value: none / a few (value stays within 5 digits for small
            // bodies) / many (6 .. 34 digits, beyond the digits of u16, u32, u64 and usize)
            prop_oneof![5 => Just(0usize), 2 => 1usize..5, 3 => 5usize..30],
        ),
        body,
        // padding of the head: none / one long header / filled up to 4096 - d bytes (d 0..7) = coded as 10000 + d
        prop_oneof![18 => Just(0usize), 2 => 3000usize..3800, 3 => 10_000usize..10_008],
    )
        .prop_map(|(ssel, (fill, many, shape, many_at), decoys, utf8, pos, (nsel, ws_before, ws_after, fold, zeros), body, pad)| {
            let mut lines: Vec<String> = fill.iter().map(|f| FILLER[pick_idx(*f, FILLER.len())].to_string()).collect();
            for d in decoys {
                let at = pick_idx(d, lines.len() + 1);
                lines.insert(at, DECOYS[pick_idx(d.rotate_left(5), DECOYS.len())].to_string());
            }
            for u in utf8 {
                let at = pick_idx(u, lines.len() + 1);
                lines.insert(at, UTF8_LINES[pick_idx(u.rotate_left(5), UTF8_LINES.len())].to_string());
            }
            if pad > 0 && pad < 10_000 {
                // pad the head towards the 4096 limit with one long header
                lines.push(format!("X-Pad: {}", "p".repeat(pad)));
            }
            let start = STARTS[pick_idx(ssel, STARTS.len())];
            if many > 0 {
                // a block of short lines, as many of the wanted number as fit into a head of 4096 bytes together
                // with the longest Content-Length line generated below (80 bytes)
                let mut used = start.len() + 2 + lines.iter().map(|l| l.len() + 2).sum::<usize>() + 2 + 80;
                let mut block = vec![];
                for i in 0..many {
                    let l = short_line(shape, i);
                    if used + l.len() + 2 > 4096 {
                        break;
                    }
                    used += l.len() + 2;
                    block.push(l);
                }
                let at = pick_idx(many_at, lines.len() + 1);
                lines.splice(at..at, block);
            }
            let name = CL_NAMES[pick_idx(nsel, CL_NAMES.len())];
            // HCOLON = *( SP / HTAB ) ":" SWS,  SWS = [ [*WSP CRLF] 1*WSP ] — blanks and tabs in any mix (chosen by
            // the name selector's bits), optionally with a line fold
            let ws = |n: usize, bits: u16| -> String { (0..n).map(|i| if (bits >> i) & 1 == 1 { '\t' } else { ' ' }).collect() };
            let sep = match fold {
                0..=2 => ws(ws_after, nsel >> 4),
                3 => "\r\n ".to_string(),
                4 => format!("{}\r\n\t", ws(ws_after, nsel >> 4)),
                _ => format!("{}\r\n{}", ws(ws_after, nsel >> 4), ws(1 + ws_before, nsel >> 6)),
            };
            // Content-Length = ( "Content-Length" / "l" ) HCOLON 1*DIGIT
            let cl = format!("{name}{}:{sep}{}{}", ws(ws_before, nsel >> 8), "0".repeat(zeros), body.len());
            let at = pick_idx(pos, lines.len() + 1);
            // a message without body may come without any Content-Length header (1 in 4 of the bodiless ones)
            if !(body.is_empty() && nsel % 4 == 3) {
                lines.insert(at, cl);
            }
            let mut m = GenMsg { start: start.to_string(), lines, body };
            // the statement covers heads of at most 4096 bytes
            while m.head_len() > 4096 {
                let i = m.lines.iter().position(|l| l.starts_with("X-Pad")).unwrap_or(0);
                if m.lines[i].len() > 50 {
                    let l = m.lines[i].len();
                    m.lines[i].truncate(l - 40);
                } else {
                    m.lines.remove(i);
                }
            }
            if pad >= 10_000 {
                // fill the head up to exactly 4096 - d bytes with one more header (when there is room for one)
                let want = 4096 - (pad - 10_000);
                let room = want.saturating_sub(m.head_len());
                if room >= "X-Fill: ".len() + 2 {
                    let at = pick_idx(pos.rotate_left(3), m.lines.len() + 1);
                    m.lines.insert(at, format!("X-Fill: {}", "f".repeat(room - "X-Fill: ".len() - 2)));
                }
            }
            m
        })
        .boxed()
}

/// A segmentation described by its shape (resolved against the layout of a concrete stream)
#[derive(Serialize, Deserialize, Clone, Debug, Hash, PartialEq, Eq)]
pub enum Seg {
    /// the whole stream in one write
    Whole,
    /// 1-byte dribble (strided so that there are at most ~1500 cuts)
    Dribble,
    /// equal segments of n bytes
    Every(u32),
    /// one segment per message (cut behind every message)
    PerMessage,
    /// one segment per k physical head lines of a message (cut behind every k-th line end of each head)
    LinesPer(u16),
    /// one cut in the middle of every head
    MidHeads,
    /// one cut behind the first line of every head (the rest of the head comes in one piece)
    AfterFirstLine,
    /// one cut in front of the last header line of every head
    BeforeLastLine,
    /// a single cut, in the middle of the first message
    MidFirst,
    /// a single cut, in the middle of the last message
    MidLast,
    /// one cut k bytes in front of the end of every head (k = 0: exactly behind the head)
    NearHeadEnd(u8),
    /// one cut in the middle of every body: every segment carries the end of one message and the beginning of the next
    MidBodies,
}

impl Seg {
    pub fn cuts(&self, layout: &Layout) -> Vec<usize> {
        let total = layout.stream.len();
        let mut cuts: Vec<usize> = match self {
            Seg::Whole => vec![],
            Seg::Dribble => (1..total).step_by(total / 1500 + 1).collect(),
            Seg::Every(n) => (1..total).filter(|p| p % (*n).max(1) as usize == 0).collect(),
            Seg::PerMessage => layout.spans.iter().map(|(_, _, e, _)| *e).collect(),
            Seg::LinesPer(k) => layout.line_ends.iter().flat_map(|l| l.iter().skip((*k).max(1) as usize - 1).step_by((*k).max(1) as usize).copied()).collect(),
            Seg::MidHeads => layout.spans.iter().map(|(s, he, _, _)| (s + he) / 2).collect(),
            Seg::AfterFirstLine => layout.line_ends.iter().filter_map(|l| l.first().copied()).collect(),
            Seg::BeforeLastLine => layout.line_ends.iter().filter_map(|l| l.len().checked_sub(2).map(|i| l[i])).collect(),
            Seg::MidFirst => layout.spans.first().map(|(s, _, e, _)| (s + e) / 2).into_iter().collect(),
            Seg::MidLast => layout.spans.last().map(|(s, _, e, _)| (s + e) / 2).into_iter().collect(),
            Seg::NearHeadEnd(k) => layout.spans.iter().map(|(s, he, _, _)| he.saturating_sub(*k as usize).max(s + 1)).collect(),
            Seg::MidBodies => layout.spans.iter().filter(|(_, he, e, _)| e > he).map(|(_, he, e, _)| (he + e) / 2).collect(),
        };
        cuts.retain(|c| *c > 0 && *c < total);
        cuts.sort();
        cuts.dedup();
        cuts
    }
}

const SEG_SIZES: &[u32] = &[2, 3, 7, 64, 100, 536, 1000, 1460, 4096, 8192, 16384, 65536, 100_000];
const SEG_LINES: &[u16] = &[1, 2, 3, 10, 31, 50, 64, 100, 127, 128, 129, 130, 200, 256, 300, 600];

#[derive(Clone, Debug)]
enum CutSel {
    /// a `Seg` shape, plus some cuts anywhere
    Shape(Seg, Vec<u16>),
    /// k cuts anywhere
    Anywhere(Vec<u16>),
    /// k cuts at `Layout::landmarks` (the first one inside a multi-byte character of a head when there is one),
    /// plus some anywhere
    Landmarks(Vec<u16>, Vec<u16>),
}

fn seg_strategy() -> BoxedStrategy<Seg> {
    prop_oneof![
        2 => Just(Seg::PerMessage),
        3 => any::<u16>().prop_map(|s| Seg::Every(SEG_SIZES[pick_idx(s, SEG_SIZES.len())])),
        3 => any::<u16>().prop_map(|s| Seg::LinesPer(SEG_LINES[pick_idx(s, SEG_LINES.len())])),
        1 => Just(Seg::MidHeads),
        1 => Just(Seg::AfterFirstLine),
        1 => Just(Seg::BeforeLastLine),
        1 => Just(Seg::MidFirst),
        1 => Just(Seg::MidLast),
        2 => (0u8..13).prop_map(Seg::NearHeadEnd),
        1 => Just(Seg::MidBodies),
    ]
    .boxed()
}

fn driver_strategy() -> BoxedStrategy<Driver> {
    prop_oneof![
        5 => Just(Driver::Framed),
        3 => Just(Driver::Direct),
        2 => (0usize..4).prop_map(|k| Driver::ReadAhead([16_384u32, 65_536, 262_144, 1 << 20][k])),
    ]
    .boxed()
}

pub fn strategy() -> BoxedStrategy<Case> {
    (
        prop_oneof![
            // ordinary traffic
            19 => prop::collection::vec(msg_strategy(), 1..5),
            // pipelines of mostly large messages: far more than one maximum-size message on the connection
            1 => prop::collection::vec(msg_strategy_with(big_body_strategy()), 2..6),
        ],
        // CRLF keep-alives before / between / behind the messages: mostly 0..3, sometimes a longer run
        prop::collection::vec(prop_oneof![8 => Just(0u8), 4 => Just(1u8), 4 => Just(2u8), 2 => Just(3u8), 2 => 4u8..10, 1 => 10u8..=255], 8),
        prop_oneof![
            4 => Just(CutSel::Shape(Seg::Whole, vec![])),
            2 => Just(CutSel::Shape(Seg::Dribble, vec![])),
            6 => (seg_strategy(), prop::collection::vec(any::<u16>(), 0..3)).prop_map(|(s, v)| CutSel::Shape(s, v)),
            8 => prop::collection::vec(any::<u16>(), 1..17).prop_map(CutSel::Anywhere),
            6 => (prop::collection::vec(any::<u16>(), 1..7), prop::collection::vec(any::<u16>(), 0..4)).prop_map(|(a, b)| CutSel::Landmarks(a, b)),
        ],
        driver_strategy(),
    )
        .prop_map(|(msgs, ka, cutsel, driver)| {
            let mut keepalives = ka;
            keepalives.truncate(msgs.len() + 1);
            let layout = Layout::new(&msgs, &keepalives);
            let total = layout.stream.len();
            let anywhere = |v: &[u16]| -> Vec<usize> { v.iter().map(|s| 1 + pick_idx(*s, total.saturating_sub(1).max(1))).collect() };
            let mut cuts = match cutsel {
                CutSel::Shape(Seg::Dribble, _) if total <= 3000 => (1..total).collect(),
                CutSel::Shape(seg, extra) => {
                    // at most ~2000 segments (as the strided dribble): the next larger segment size
                    let seg = match seg {
                        Seg::Every(n) if total / n as usize > 2000 => Seg::Every(*SEG_SIZES.iter().find(|s| total / **s as usize <= 2000).unwrap_or(&100_000)),
                        s => s,
                    };
                    let mut c = seg.cuts(&layout);
                    c.extend(anywhere(&extra));
                    c
                }
                CutSel::Anywhere(v) => anywhere(&v),
                CutSel::Landmarks(at, extra) => {
                    let marks = layout.landmarks();
                    let in_char = layout.split_char_positions();
                    let mut c = anywhere(&extra);
                    for (i, s) in at.iter().enumerate() {
                        if i == 0 && !in_char.is_empty() {
                            c.push(in_char[pick_idx(*s, in_char.len())]);
                        } else if !marks.is_empty() {
                            c.push(marks[pick_idx(*s, marks.len())]);
                        }
                    }
                    c
                }
            };
            cuts.sort();
            cuts.dedup();
            Case { msgs, keepalives, cuts, driver }
        })
        .boxed()
}

pub fn check(case: &Case, out: &mut CaseOut) {
    oracle_driven(&case.msgs, &case.keepalives, &case.cuts, case.driver, out);
}

// ---------------------------------------------------------------------------------------------
// number of head lines x lines per segment, enumerated

/// One or two messages whose head has `n` short header lines of one shape (as many as a head of 4096 bytes holds)
#[derive(Serialize, Deserialize, Clone, Debug, Hash)]
pub struct LinesCase {
    pub n: u16,
    /// shape of the short lines, see `short_line`
    pub shape: u8,
    /// Content-Length line: 0 first header, 1 in the middle of the short lines, 2 last header, 3 none (no body)
    pub cl_pos: u8,
    /// a second message of the same kind (n - 3 lines) behind two keep-alive CRLFs
    pub pair: bool,
    pub seg: Seg,
    pub driver: Driver,
}

fn lines_msg(n: usize, shape: u8, cl_pos: u8, k: usize) -> GenMsg {
    let base = [
        format!("Via: SIP/2.0/TCP 192.0.2.4;branch=z9hG4bKl{k}"),
        "From: <sip:a@example.org>;tag=1".to_string(),
        "To: <sip:b@example.org>".to_string(),
        "Call-ID: c03-lines@x".to_string(),
        format!("CSeq: {} OPTIONS", k + 1),
    ];
    let body: &[u8] = if cl_pos == 3 { b"" } else { b"ab\r\n" };
    let cl = if k % 2 == 0 { format!("Content-Length: {}", body.len()) } else { format!("l: {}", body.len()) };
    let start = "OPTIONS sip:b@example.org SIP/2.0";
    let mut used = start.len() + 2 + base.iter().map(|l| l.len() + 2).sum::<usize>() + cl.len() + 2 + 2;
    let mut block = vec![];
    for i in 0..n {
        let l = short_line(shape, i);
        if used + l.len() + 2 > 4096 {
            break;
        }
        used += l.len() + 2;
        block.push(l);
    }
    let mut lines = vec![];
    if cl_pos == 0 {
        lines.push(cl.clone());
    }
    lines.extend(base);
    let mid = block.len() / 2;
    for (i, l) in block.into_iter().enumerate() {
        if cl_pos == 1 && i == mid {
            lines.push(cl.clone());
        }
        lines.push(l);
    }
    if (cl_pos == 1 && mid == 0 && !lines.contains(&cl)) || cl_pos == 2 {
        lines.push(cl);
    }
    GenMsg { start: start.to_string(), lines, body: body.to_vec() }
}

pub fn lines_cases(tier: Tier) -> Vec<LinesCase> {
    // around every power of two up to the most lines a head of 4096 bytes can have (shape 1: 4 bytes per line)
    let mut counts: Vec<u16> = vec![0, 1, 7, 100, 200, 300, 400, 700, 960];
    for p in [16u16, 32, 64, 128, 256, 512] {
        counts.extend([p - 1, p, p + 1]);
    }
    if tier == Tier::Thorough {
        counts.extend((2..400).step_by(3));
        counts.extend((400..1000).step_by(20));
    }
    counts.sort();
    counts.dedup();
    let mut segs = vec![Seg::Whole, Seg::PerMessage, Seg::MidHeads, Seg::AfterFirstLine, Seg::BeforeLastLine, Seg::Every(64), Seg::Every(1000), Seg::Dribble];
    for k in [1u16, 2, 50, 100, 127, 128, 129, 200, 255, 256, 257, 300, 600] {
        segs.push(Seg::LinesPer(k));
    }
    if tier == Tier::Thorough {
        segs.extend([Seg::Every(7), Seg::Every(256), Seg::Every(536), Seg::Every(1460), Seg::Every(4096), Seg::MidFirst, Seg::MidLast]);
        segs.extend((3u16..40).map(Seg::LinesPer));
    }
    let mut out = vec![];
    for &n in &counts {
        for shape in 0u8..4 {
            // what the shape cannot reach within 4096 bytes is the same message as a smaller n
            let reach = [400u16, 1000, 200, 130][shape as usize];
            if n > reach {
                continue;
            }
            for cl_pos in 0u8..4 {
                for pair in [false, true] {
                    for seg in &segs {
                        if !pair && *seg == Seg::PerMessage {
                            continue;
                        }
                        for driver in [Driver::Framed, Driver::Direct] {
                            // thin the product in quick: every (n, shape, seg, driver) keeps two Content-Length
                            // positions, single and pair
                            if tier == Tier::Quick && (cl_pos as usize + pair as usize + n as usize) % 2 == 1 {
                                continue;
                            }
                            out.push(LinesCase { n, shape, cl_pos, pair, seg: seg.clone(), driver });
                        }
                    }
                }
            }
        }
    }
    out
}

pub fn check_lines(case: &LinesCase, out: &mut CaseOut) {
    let mut msgs = vec![lines_msg(case.n as usize, case.shape, case.cl_pos, 0)];
    let mut keepalives = vec![0u8];
    if case.pair {
        msgs.push(lines_msg((case.n as usize).saturating_sub(3), case.shape, case.cl_pos, 1));
        keepalives.push(2);
    }
    let cuts = case.seg.cuts(&Layout::new(&msgs, &keepalives));
    oracle_driven(&msgs, &keepalives, &cuts, case.driver, out);
}

// ---------------------------------------------------------------------------------------------
// pipelines larger than one maximum-size message x how much of them is buffered at once, enumerated

#[derive(Serialize, Deserialize, Clone, Debug, Hash)]
pub struct PipeCase {
    /// body length of each message
    pub bodies: Vec<u32>,
    /// 0: ordinary heads, 1: every head padded to exactly 4096 bytes, 2: every head with 300 short lines
    pub head: u8,
    /// keep-alive CRLFs in front of the first message / between messages
    pub ka_front: u8,
    pub ka_between: u8,
    pub seg: Seg,
    pub driver: Driver,
}

fn pipe_msg(i: usize, body_len: usize, head: u8) -> GenMsg {
    let cl = if i % 2 == 0 { format!("l: {body_len}") } else { format!("Content-Length: {body_len}") };
    let mut lines = vec![
        format!("Via: SIP/2.0/TCP 192.0.2.4;branch=z9hG4bKp{i}"),
        "From: <sip:a@example.org>;tag=1".to_string(),
        "To: <sip:b@example.org>".to_string(),
        "Call-ID: c03-pipe@x".to_string(),
        format!("CSeq: {} MESSAGE", i + 1),
        "Max-Forwards: 70".to_string(),
    ];
    lines.insert([1, 6, 3][i % 3], cl);
    if head == 2 {
        lines.extend((0..300).map(|k| short_line(0, k)));
    }
    let mut m = GenMsg { start: "MESSAGE sip:b@example.org SIP/2.0".to_string(), lines, body: pattern_body(body_len, i as u8) };
    if head == 1 {
        let pad = 4096 - m.head_len() - "X-Pad: ".len() - 2;
        m.lines.insert(2, format!("X-Pad: {}", "p".repeat(pad)));
    }
    m
}

pub fn pipe_cases(tier: Tier) -> Vec<PipeCase> {
    const M: u32 = 65_535;
    let mut profiles: Vec<Vec<u32>> = vec![
        vec![M],
        vec![M, M],
        vec![M, M, M],
        vec![M; 6],
        vec![30_000, 100, 30_000, 0, 20_000],
        vec![M, 0, M],
        vec![0, M, 0, M],
        vec![30_000; 3],
        vec![30_000; 5],
        vec![1_000, 4_000, 16_000, 64_000],
        vec![64_000, 16_000, 4_000, 1_000],
        vec![4_000; 20],
        // many small messages in the buffer at once
        vec![0; 40],
        vec![10; 200],
    ];
    if tier == Tier::Thorough {
        profiles.extend([vec![M; 4], vec![M; 10], vec![M - 1, M - 1], vec![35_000, 35_000], vec![34_000, 34_000], vec![20_000; 8], vec![8_192; 30], vec![1; 600], vec![M, 1, 1, 1, 1, M]]);
    }
    let mut segs = vec![Seg::Whole, Seg::PerMessage, Seg::Every(1000), Seg::Every(8192), Seg::Every(65_536), Seg::Every(100_000), Seg::MidFirst, Seg::MidLast];
    if tier == Tier::Thorough {
        segs.extend([Seg::Every(1460), Seg::Every(4096), Seg::Every(16_384), Seg::Every(69_631), Seg::Every(69_632), Seg::Every(131_072), Seg::Every(262_144), Seg::MidHeads, Seg::Dribble]);
    }
    let mut out = vec![];
    for bodies in &profiles {
        for head in 0u8..3 {
            let approx: usize = bodies.iter().map(|b| *b as usize + [250usize, 4096, 3200][head as usize]).sum();
            // keep a case below ~0.7 MB; many-line heads with a few profiles only
            if approx > 700_000 || (head == 2 && bodies.len() > 5) {
                continue;
            }
            for (ka_front, ka_between) in [(0u8, 0u8), (0, 2), (3, 1)] {
                for seg in &segs {
                    for driver in [Driver::Framed, Driver::ReadAhead(1 << 20), Driver::Direct] {
                        if tier == Tier::Quick && head == 2 && (ka_between == 2 || driver == Driver::Framed) {
                            continue;
                        }
                        out.push(PipeCase { bodies: bodies.clone(), head, ka_front, ka_between, seg: seg.clone(), driver });
                    }
                }
            }
        }
    }
    out
}

pub fn check_pipe(case: &PipeCase, out: &mut CaseOut) {
    let msgs: Vec<GenMsg> = case.bodies.iter().enumerate().map(|(i, b)| pipe_msg(i, (*b).min(65_535) as usize, case.head)).collect();
    let mut keepalives = vec![case.ka_between; msgs.len()];
    keepalives[0] = case.ka_front;
    let cuts = case.seg.cuts(&Layout::new(&msgs, &keepalives));
    oracle_driven(&msgs, &keepalives, &cuts, case.driver, out);
}

// ---------------------------------------------------------------------------------------------
// the limits (head of 4096 - d bytes) x keep-alive runs in front x a cut near the end of the head, enumerated

/// One message whose head has exactly `head_len` bytes, behind `ka` keep-alive CRLFs (optionally behind a small
/// message), with at most one cut near the end of its head and at most one cut at the keep-alive run
#[derive(Serialize, Deserialize, Clone, Debug, Hash)]
pub struct EdgeCase {
    pub head_len: u16,
    pub body_len: u32,
    /// keep-alive CRLFs directly in front of the message
    pub ka: u8,
    /// a small message in front of the keep-alives (they are then keep-alives BETWEEN messages)
    pub pre: bool,
    /// the cut inside the message: that many bytes in front of the end of its head (negative: behind it, in the
    /// body or the following bytes); None = no cut there
    pub cut_back: Option<i16>,
    /// how the keep-alive run is segmented: 0 = in one segment with what follows, 1 = a cut directly behind the run
    /// (the run in an earlier segment), 2 = a cut in the middle of the run between CR and LF, 3 = a cut directly in
    /// front of the run
    pub ka_cut: u8,
    pub driver: Driver,
}

/// `pipe_msg` with the head padded to exactly `head_len` bytes (as far as the ordinary headers leave room)
fn sized_msg(i: usize, body_len: usize, head_len: usize) -> GenMsg {
    let mut m = pipe_msg(i, body_len, 0);
    let overhead = "X-Pad: ".len() + 2;
    if head_len >= m.head_len() + overhead {
        let pad = head_len - m.head_len() - overhead;
        m.lines.insert(2 + i % 3, format!("X-Pad: {}", "p".repeat(pad)));
    }
    m
}

pub fn edge_cases(tier: Tier) -> Vec<EdgeCase> {
    let heads: Vec<u16> = tier.pick(vec![4096, 4095, 4094, 4093, 4092, 4090, 4080, 2048], (4080..=4096).chain([300, 2048, 4000, 4050]).collect());
    let kas: Vec<u8> = tier.pick(vec![0, 1, 2, 3, 4, 5, 6, 8, 16, 100, 255], (0..=20).chain([50, 100, 200, 255]).collect());
    let mut cut_backs: Vec<Option<i16>> = vec![None];
    cut_backs.extend((tier.pick(-2i16, -6)..=tier.pick(10i16, 40)).map(Some));
    let drivers: Vec<Driver> = tier.pick(vec![Driver::Framed, Driver::Direct], vec![Driver::Framed, Driver::Direct, Driver::ReadAhead(65_536)]);
    let mut out = vec![];
    for &head_len in &heads {
        for &ka in &kas {
            for &cut_back in &cut_backs {
                for ka_cut in 0u8..4 {
                    if ka == 0 && ka_cut > 1 {
                        continue; // no run to cut: 0 and 1 are (no cut, cut in front of the message)
                    }
                    for pre in [false, true] {
                        if !pre && ka_cut == 3 {
                            continue; // the run starts the stream
                        }
                        for &driver in &drivers {
                            let mut bodies = vec![if (head_len as usize + ka as usize) % 2 == 0 { 0u32 } else { 5 }];
                            if head_len == 4096 && (ka == 0 || ka == 4) && cut_back.map_or(true, |c| c % 3 == 0) {
                                bodies.push(65_535);
                            }
                            for body_len in bodies {
                                out.push(EdgeCase { head_len, body_len, ka, pre, cut_back, ka_cut, driver });
                            }
                        }
                    }
                }
            }
        }
    }
    out
}

pub fn check_edge(case: &EdgeCase, out: &mut CaseOut) {
    let mut msgs = vec![];
    let mut keepalives = vec![];
    if case.pre {
        msgs.push(sized_msg(0, 3, 0));
        keepalives.push(0u8);
    }
    msgs.push(sized_msg(msgs.len(), case.body_len.min(65_535) as usize, case.head_len.min(4096) as usize));
    keepalives.push(case.ka);
    let layout = Layout::new(&msgs, &keepalives);
    let (start, head_end, _, _) = *layout.spans.last().expect("one message");
    let mut cuts = vec![];
    if let Some(back) = case.cut_back {
        let at = head_end as i64 - back as i64;
        if at > start as i64 {
            cuts.push(at as usize);
        }
    }
    let ka_start = start - 2 * case.ka as usize;
    match case.ka_cut {
        1 => cuts.push(start),
        2 => cuts.push(ka_start + (case.ka as usize / 2) * 2 + 1),
        3 => cuts.push(ka_start),
        _ => {}
    }
    let total = layout.stream.len();
    cuts.retain(|c| *c > 0 && *c < total);
    cuts.sort();
    cuts.dedup();
    if case.ka >= 3 {
        out.class("run of >=3 keep-alive CRLFs in front of a message");
    }
    if case.head_len >= 4090 {
        out.class("head within 6 bytes of the 4096 limit");
        if case.ka >= 3 && case.ka_cut == 0 && case.cut_back.map_or(false, |c| c > 0 && c < 12) {
            out.class("keep-alive run and a head at the limit in one segment, cut <12 bytes before the end of the head");
        }
    }
    oracle_driven(&msgs, &keepalives, &cuts, case.driver, out);
}

// ---------------------------------------------------------------------------------------------
// the same stream through a real connection: ezk's receive task (world/stream.rs) and the application's handling
// of what it is handed

/// Messages written by a peer to a connection of a running endpoint; the application (a layer) keeps each request
/// for a while and lets go of it: the receive task sees the connection change between used and unused while the
/// segments arrive.
#[derive(Serialize, Deserialize, Clone, Debug, Hash)]
pub struct ConnCase {
    /// body length of each message (requests with their own branch and CSeq)
    pub bodies: Vec<u32>,
    /// 0: ordinary heads, 1: heads of exactly 4096 bytes
    #[serde(default)]
    pub head: u8,
    #[serde(default)]
    pub ka_front: u8,
    #[serde(default)]
    pub ka_between: u8,
    pub seg: Seg,
    /// what the application does with the k-th request it is handed (cyclic): 0 = lets go of it at once (inside the
    /// layer), n = keeps it while the next n segments arrive, 255 = keeps it until everything has been written
    pub hold: Vec<u8>,
    /// None: the connection was accepted by ezk's listener (nothing refers to it at first);
    /// Some(n): ezk opened it (`Endpoint::select_transport` through the connection factory), the handle obtained is
    /// dropped after n segments (255: kept until the end)
    #[serde(default)]
    pub outbound: Option<u8>,
    /// virtual time between two segments (the whole case stays below the 32 s an unused connection is kept)
    #[serde(default)]
    pub gap_ms: u16,
    #[serde(default)]
    pub rng: u8,
}

/// At most that many segments per connection case (a finer segmentation is thinned evenly)
const CONN_MAX_SEGMENTS: usize = 40;

#[derive(Default)]
struct ConnShared {
    /// what the layer was handed, in order
    seen: Vec<Parsed>,
    /// requests the application still holds: (number of written segments at which it lets go, request)
    held: Vec<(usize, IncomingRequest)>,
    hold: Vec<u8>,
    segments_written: usize,
    /// total size of the message the stream written so far ends in the middle of
    partial: Option<usize>,
    /// the handle of an outbound connection is still alive
    extra_handle: bool,
    /// the last reference to the connection went away while a message was partly received: size of the largest such message
    unused_mid_message: Option<usize>,
}

impl ConnShared {
    /// called whenever a reference to the connection has gone away
    fn note_release(&mut self) {
        if self.held.is_empty() && !self.extra_handle {
            if let Some(size) = self.partial {
                self.unused_mid_message = Some(self.unused_mid_message.unwrap_or(0).max(size));
            }
        }
    }
}

struct HoldLayer {
    shared: Arc<parking_lot::Mutex<ConnShared>>,
}

#[async_trait::async_trait]
impl Layer for HoldLayer {
    fn name(&self) -> &'static str {
        "c03-app"
    }
    async fn receive(&self, _endpoint: &Endpoint, request: MayTake<'_, IncomingRequest>) {
        let req = request.take();
        let parsed = Parsed {
            line: req.line.default_print_ctx().to_string(),
            headers: req.headers.iter().map(|(n, v)| (n.as_print_str().to_string(), v.to_string())).collect(),
            body: req.body.to_vec(),
        };
        let let_go = {
            let mut s = self.shared.lock();
            let k = s.seen.len();
            s.seen.push(parsed);
            let hold = if s.hold.is_empty() { 0 } else { s.hold[k % s.hold.len()] };
            if hold == 0 {
                s.note_release();
                Some(req)
            } else {
                let at = if hold == 255 { usize::MAX } else { s.segments_written + 1 + hold as usize };
                s.held.push((at, req));
                None
            }
        };
        drop(let_go);
    }
}

struct ConnRun {
    seen: Vec<Parsed>,
    unused_mid_message: Option<usize>,
    closed: bool,
    setup_error: Option<String>,
    segments: usize,
}

fn conn_cuts(case: &ConnCase, layout: &Layout) -> Vec<usize> {
    let mut cuts = match &case.seg {
        Seg::Dribble => Seg::Every(1).cuts(layout),
        s => s.cuts(layout),
    };
    if cuts.len() + 1 > CONN_MAX_SEGMENTS {
        // keep the first and last cuts (they surround the first / last message ends), thin the rest evenly
        let n = cuts.len();
        let keep: std::collections::BTreeSet<usize> = (0..CONN_MAX_SEGMENTS - 1).map(|i| i * (n - 1) / (CONN_MAX_SEGMENTS - 2)).collect();
        cuts = keep.into_iter().map(|i| cuts[i]).collect();
    }
    cuts
}

pub fn check_conn(case: &ConnCase, out: &mut CaseOut) {
    let msgs: Vec<GenMsg> = case.bodies.iter().take(12).enumerate().map(|(i, b)| sized_msg(i, (*b).min(65_535) as usize, if case.head == 1 { 4096 } else { 0 })).collect();
    if msgs.is_empty() {
        return;
    }
    let mut keepalives = vec![case.ka_between; msgs.len()];
    keepalives[0] = case.ka_front;
    let layout = Layout::new(&msgs, &keepalives);
    let cuts = conn_cuts(case, &layout);
    let mut reference = vec![];
    for m in &msgs {
        match datagram_reference(&m.bytes()) {
            Some(p) => reference.push(p),
            None => {
                out.fail("c03.harness/datagram-rejects-generated-message", format!("datagram parser rejects {:?}", String::from_utf8_lossy(&m.bytes())));
                return;
            }
        }
    }

    let shared: Arc<parking_lot::Mutex<ConnShared>> = Default::default();
    shared.lock().hold = case.hold.clone();
    let run: ConnRun = {
        let shared = shared.clone();
        let stream = layout.stream.clone();
        let spans = layout.spans.clone();
        let cuts = cuts.clone();
        let outbound = case.outbound;
        let gap_ms = case.gap_ms;
        run_world(case.rng as u64, |clock| async move {
            let log = WireLog::new(clock);
            let (factory, probe) = mock_factory::<false>(clock, &log);
            let (lb, dialer) = mock_listener::<false>(clock, &log, "10.0.0.1:5060");
            let mut b = offline_builder();
            b.add_transport_factory(Arc::new(factory));
            b.add_layer(HoldLayer { shared: shared.clone() });
            lb.spawn(&mut b, "10.0.0.1:5060").await.expect("listener");
            let endpoint = b.build();
            settle().await;
            let fail = |e: String| ConnRun { seen: vec![], unused_mid_message: None, closed: false, setup_error: Some(e), segments: 0 };
            let mut extra = None;
            let mut conn = if outbound.is_some() {
                let uri: SipUri = "sip:peer@192.0.2.50:5060;transport=tcp".parse().expect("uri");
                match endpoint.select_transport(&uri).await {
                    Ok((h, _)) => extra = Some(h),
                    Err(e) => return fail(format!("select_transport: {e}")),
                }
                shared.lock().extra_handle = true;
                let c = probe.conns.lock().pop();
                match c {
                    Some(c) => c,
                    None => return fail("the factory created no connection".into()),
                }
            } else {
                dialer.dial("192.0.2.50:33333")
            };
            settle().await;
            if outbound == Some(0) {
                shared.lock().extra_handle = false;
                extra = None;
                settle().await;
            }

            let mut bounds = cuts.clone();
            bounds.push(stream.len());
            // the whole case stays well below the 32 s after which an unused connection is closed
            let gap = (gap_ms as u64).min(20_000 / bounds.len() as u64);
            let mut prev = 0;
            let mut segments = 0;
            for (j, b) in bounds.iter().enumerate() {
                shared.lock().partial = spans.iter().find(|(s, _, e, _)| *s < *b && *b < *e).map(|(s, _, e, _)| e - s);
                if !conn.write(&stream[prev..*b]).await {
                    break;
                }
                prev = *b;
                segments += 1;
                settle().await;
                if gap > 0 {
                    clock.advance(gap).await;
                    settle().await;
                }
                // the application lets go of what it kept long enough
                let due: Vec<IncomingRequest> = {
                    let mut s = shared.lock();
                    s.segments_written = j + 1;
                    let n = j + 1;
                    let (due, keep): (Vec<_>, Vec<_>) = std::mem::take(&mut s.held).into_iter().partition(|(at, _)| *at <= n);
                    s.held = keep;
                    if !due.is_empty() {
                        s.note_release();
                    }
                    due.into_iter().map(|(_, r)| r).collect()
                };
                drop(due);
                if outbound == Some((j + 1).min(254) as u8) && extra.is_some() {
                    let mut s = shared.lock();
                    s.extra_handle = false;
                    s.note_release();
                    drop(s);
                    extra = None;
                }
                settle().await;
            }
            clock.advance(100).await;
            settle().await;
            let seen = shared.lock().seen.clone();
            let closed = conn.is_eof();
            // wind down
            let rest = std::mem::take(&mut shared.lock().held);
            drop(rest);
            drop(extra);
            settle().await;
            let unused_mid_message = shared.lock().unused_mid_message;
            drop(endpoint);
            ConnRun { seen, unused_mid_message, closed, setup_error: None, segments }
        })
    };
    if let Some(e) = run.setup_error {
        out.fail("c03.harness/conn-setup", e);
        return;
    }

    // classes
    let biggest = layout.spans.iter().map(|(s, _, e, _)| e - s).max().unwrap_or(0);
    out.class(if case.outbound.is_some() { "conn: opened by ezk (handle dropped while segments arrive)" } else { "conn: accepted by ezk" });
    if run.segments > 1 {
        out.class("conn: several segments");
    }
    if biggest > 8192 {
        out.class("conn: message larger than the 8 KiB read buffer");
    }
    if case.hold.iter().any(|h| *h == 0) {
        out.class("conn: application lets go of a request at once");
    }
    if case.hold.iter().any(|h| *h != 0 && *h != 255) {
        out.class("conn: application lets go of a request some segments later");
    }
    let tag = match run.unused_mid_message {
        Some(size) if size > 8192 => {
            out.class("conn: last reference dropped while a message >8 KiB is partly received");
            "unused-amid->8KiB-message"
        }
        Some(_) => {
            out.class("conn: last reference dropped while a message <=8 KiB is partly received");
            "unused-amid-message"
        }
        None => "plain",
    };
    if run.unused_mid_message.is_some() || cuts.iter().any(|c| layout.spans.iter().any(|(s, _, e, _)| *c > *s && *c < *e)) {
        out.nontrivial(&case);
    }

    // verdict: exactly the written messages, in order, each equal to its datagram reading. Messages are told
    // apart by their CSeq header (the generator numbers them), so that one lost message is one failure
    let cseq_of = |p: &Parsed| p.headers.iter().find(|(n, _)| n.eq_ignore_ascii_case("cseq")).map(|(_, v)| v.clone());
    let how = format!("{} segments (cuts {}), stream {} bytes, hold {:?}, outbound {:?}, connection {} afterwards", run.segments, show_cuts(&cuts), layout.stream.len(), case.hold, case.outbound, if run.closed { "CLOSED by ezk" } else { "open" });
    let mut got_idx = vec![];
    let mut seen_once = vec![false; reference.len()];
    for d in &run.seen {
        let idx = cseq_of(d).and_then(|c| reference.iter().position(|r| cseq_of(r).as_deref() == Some(c.as_str())));
        match idx {
            Some(i) if !seen_once[i] => {
                seen_once[i] = true;
                got_idx.push(i);
                let r = &reference[i];
                if d.line != r.line {
                    out.fail(format!("c03.conn/differs-start-line[{tag}]"), format!("message {i}: {:?} vs datagram {:?} ({how})", d.line, r.line));
                }
                if d.headers != r.headers {
                    let at = d.headers.iter().zip(&r.headers).position(|(a, b)| a != b).unwrap_or(d.headers.len().min(r.headers.len()));
                    out.fail(format!("c03.conn/differs-headers[{tag}]"), format!("message {i}: first difference at header {at}: {:?} vs {:?} ({how})", d.headers.get(at), r.headers.get(at)));
                }
                if d.body != r.body {
                    out.fail(format!("c03.conn/differs-body[{tag}]"), format!("message {i}: body {} bytes vs datagram {} bytes ({how})", d.body.len(), r.body.len()));
                }
            }
            _ => out.fail(format!("c03.conn/extra[{tag}]"), format!("the application was handed a request that was not written (or twice): {:?} ({how})", d.line)),
        }
    }
    let missing: Vec<usize> = (0..reference.len()).filter(|i| !seen_once[*i]).collect();
    if !missing.is_empty() {
        out.fail(format!("c03.conn/missing[{tag}]"), format!("{} messages written, the application was never handed message(s) {missing:?} ({how})", reference.len()));
    }
    if got_idx.windows(2).any(|w| w[0] > w[1]) {
        out.fail(format!("c03.conn/order[{tag}]"), format!("messages handed to the application in the order {got_idx:?} ({how})"));
    }
}

pub fn conn_cases(tier: Tier) -> Vec<ConnCase> {
    const M: u32 = 65_535;
    let mut profiles: Vec<(Vec<u32>, u8)> = vec![
        (vec![5, 20_000], 0),
        (vec![20_000], 0),
        (vec![5, 20_000, 5], 0),
        (vec![0, 9_000, 0, 9_000], 0),
        (vec![M, M], 0),
        (vec![100, 100, 100], 0),
        // control: nothing larger than the read buffer
        (vec![5, 7_000], 0),
        (vec![30_000, 5, 30_000], 0),
        (vec![5, 5_000, 5], 1),
        (vec![0, M, 0], 1),
    ];
    if tier == Tier::Thorough {
        profiles.extend([(vec![5, 8_000], 0), (vec![5, 8_300], 0), (vec![M; 4], 0), (vec![10; 10], 0), (vec![5, 40_000, 5, 40_000, 5], 0), (vec![4_000; 6], 1)]);
    }
    let mut segs = vec![Seg::Whole, Seg::PerMessage, Seg::MidBodies, Seg::MidHeads, Seg::MidFirst, Seg::MidLast, Seg::Every(1000), Seg::Every(8192), Seg::Every(16_384), Seg::NearHeadEnd(1)];
    if tier == Tier::Thorough {
        segs.extend([Seg::Every(100), Seg::Every(4096), Seg::Every(65_536), Seg::NearHeadEnd(0), Seg::AfterFirstLine, Seg::BeforeLastLine, Seg::LinesPer(2)]);
    }
    let holds: Vec<Vec<u8>> = vec![vec![0], vec![255], vec![1], vec![2], vec![0, 255], vec![255, 0], vec![1, 0]];
    let mut out = vec![];
    let mut k = 0usize;
    for (bodies, head) in &profiles {
        for seg in &segs {
            for hold in &holds {
                for outbound in [None, Some(0u8), Some(1), Some(2), Some(255)] {
                    for gap_ms in [0u16, 50] {
                        k += 1;
                        // quick: every (profile, segmentation, hold pattern, gap) on an accepted connection; the
                        // handle lifetimes of a connection opened by ezk thinned to a third
                        if tier == Tier::Quick && outbound.is_some() && k % 3 != 0 {
                            continue;
                        }
                        out.push(ConnCase { bodies: bodies.clone(), head: *head, ka_front: (k % 3) as u8, ka_between: ((k / 3) % 3) as u8, seg: seg.clone(), hold: hold.clone(), outbound, gap_ms, rng: (k % 251) as u8 });
                    }
                }
            }
        }
    }
    out
}

pub fn conn_strategy() -> BoxedStrategy<ConnCase> {
    const SIZES: &[u32] = &[0, 5, 100, 4_000, 7_900, 8_192, 9_000, 20_000, 40_000, 65_535];
    (
        prop::collection::vec(any::<u16>().prop_map(|s| SIZES[pick_idx(s, SIZES.len())]), 1..6),
        prop_oneof![4 => Just(0u8), 1 => Just(1u8)],
        (0u8..4, 0u8..4),
        prop_oneof![6 => seg_strategy(), 3 => Just(Seg::MidBodies), 1 => Just(Seg::Whole), 1 => Just(Seg::Dribble)],
        prop::collection::vec(prop_oneof![4 => Just(0u8), 2 => Just(1u8), 1 => Just(2u8), 1 => 3u8..8, 2 => Just(255u8)], 1..4),
        prop_oneof![3 => Just(None), 2 => (0u8..6).prop_map(Some), 1 => Just(Some(255u8))],
        prop_oneof![Just(0u16), Just(1u16), Just(50u16), Just(500u16)],
        any::<u8>(),
    )
        .prop_map(|(bodies, head, (ka_front, ka_between), seg, hold, outbound, gap_ms, rng)| ConnCase { bodies, head, ka_front, ka_between, seg, hold, outbound, gap_ms, rng })
        .boxed()
}

fn seed_corpus_stream(dir: &std::path::Path) {
    // artifacts of earlier campaigns (repaired defects): re-run first by every campaign
    if let Ok(rd) = std::fs::read_dir("/verif/regress/fuzz-sip_stream") {
        for e in rd.flatten() {
            let _ = std::fs::copy(e.path(), dir.join(format!("regress-{}", e.file_name().to_string_lossy())));
        }
    }
    // input layout of the target: 3 selector bytes (segmentation), then the stream
    let c = corpus();
    for (i, m) in c.iter().enumerate() {
        for sel in [[0u8, 0, 0], [1, 77, 0], [2, 40, 200]] {
            let mut b = sel.to_vec();
            b.extend_from_slice(&m.bytes());
            if i % 3 == 0 {
                b.extend_from_slice(b"\r\n");
                b.extend_from_slice(&c[(i + 5) % c.len()].bytes());
            }
            let _ = std::fs::write(dir.join(format!("c03-{i:03}-{}", sel[0])), &b);
        }
    }
    for (i, case) in sample_strategy(&strategy(), 11, 120).into_iter().enumerate() {
        let mut b = vec![(i % 3) as u8, (i * 37 % 256) as u8, (i * 91 % 256) as u8];
        for m in case.msgs.iter().filter(|m| m.body.len() < 3000) {
            b.extend_from_slice(&m.bytes());
        }
        let _ = std::fs::write(dir.join(format!("gen-{i:03}")), &b);
    }
}

pub fn property() -> Property {
    Property {
        fuzz: vec![FuzzStage { target: "sip_stream", runs: 800_000, max_len: 9000, seed_corpus: seed_corpus_stream }],
        id: "C03",
        rule: "a case = 1..4 SIP messages (5%: a pipeline of 2..5 messages with mostly 20000..65535 byte bodies, up to ~0.33 MB) (heads <= 4096 B, bodies <= 65535 B; Content-Length spelled in any case / compact l,L / blanks and tabs around the colon / folded (also with blanks before and behind the fold) / any position / value with 0..29 leading zeros (1*DIGIT: up to 34 digits, more than u16, u32, u64 hold), or absent on a bodiless message; decoy headers; non-ASCII UTF-8 (2-, 3-, 4-byte characters) in display names, TEXT-UTF8 header values, comments and reason phrases in half of the messages; in 23% of the messages a block of 1..999 short header lines (X-n: v / 4-byte `q:` / folded / repeated ordinary headers; as many as fit into 4096 bytes) so that heads have up to ~1000 lines; bodies containing CRLFCRLF and fake messages) + 0..3 CRLF keep-alives before/between/after + a segmentation + a driver (50% tokio_util FramedRead::new as in ezk's receive task, 20% FramedRead::with_capacity(16 KiB..1 MiB) = read-ahead, 30% the Decoder contract directly: each segment appended whole to the BytesMut, decode until None, decode_eof at the end); the decoder is the real StreamingDecoder (behind a transparent probe that records the buffered byte count per call); oracle = each message alone through the datagram parser plus the generator's own record. cuts1: EVERY 1-cut of 39 corpus messages and of 2-message pipelines; cuts2: every 2-cut (thorough; strided in quick); lines (enumerated): head line count n (0..960: around every power of two 16..512 and more) x line shape (4) x Content-Length first / amid / last / absent x single message or pair x segmentation (whole, per message, mid-head, behind the first line, before the last line, 64 / 1000 byte segments, dribble, one segment per k head lines for k in 1..600 around 128 and 256) x driver (FramedRead::new, direct); pipes (enumerated): 14 body-size profiles (1..6 maximum bodies, 30000+100+30000+0+20000, rising / falling sizes, 20 x 4000, 40 and 200 small messages) x heads (ordinary, exactly 4096 bytes, 300 lines) x keep-alives (none, 2 between, 3 in front + 1 between) x segmentation (whole, per message, 1000 / 8192 / 65536 / 100000 byte segments, one cut in the first / last message) x driver (FramedRead::new, read-ahead 1 MiB, direct); edges (enumerated): head of exactly 4096 - d bytes (d 0..6, 16; 2048) x run of 0..6 / 8 / 16 / 100 / 255 keep-alive CRLFs in front x behind a small message or first on the connection x the run in one segment with the head / cut directly behind / between CR and LF / directly in front x no cut or one cut at every offset from 10 bytes before to 2 bytes behind the end of the head x body 0 / 5 / 65535 x driver (FramedRead::new, direct); conn (enumerated) and conn-random (sampled): 1..5 requests (bodies 0..65535, heads ordinary or exactly 4096 bytes, own branch and CSeq) written by a peer to a duplex-pipe connection of a running endpoint (ezk's real accept / receive task) x keep-alives x segmentation (whole, per message, mid-body = every segment ends one message and begins the next, mid-head, near head end, 1000 / 8192 / 16384 byte segments, one cut in first / last message, at most 40 segments) x what the application does with each request it is handed (lets go at once / after 1, 2.. further segments / at the end, cyclic patterns) x connection accepted by ezk or opened by ezk with the obtained handle dropped after 0, 1, 2.. segments or never x 0 / 1 / 50 / 500 ms between segments; oracle there = the layer is handed exactly the written requests, in order, equal to their datagram reading; random: generated sequences with k cuts anywhere, k cuts at landmarks (inside a multi-byte character of a head, inside / around the Content-Length value and line, around head end, message end and keep-alive runs), 1-byte dribble, single write, equal segments of 2..100000 bytes, per message, per k head lines (k 1..600), mid-head, behind first / before last head line, one cut in the first / last message, one cut 0..12 bytes before the end of every head, mid-body; 12% of the messages have their head filled to exactly 4096 - d bytes (d 0..7); keep-alive runs 0..3 mostly, 4..9 and 10..255 sometimes. Non-trivial (conn subs) = the last reference to the connection is dropped while a message is partly received, or a cut inside a message. Non-trivial (other subs) = a cut inside a head after the Content-Length line, inside a body, at a keep-alive or between the bytes of a multi-byte character of a head, or a decoy header, or a non-canonical Content-Length spelling (name, blanks, fold, leading zeros), or a head with more than 32 lines, or a decode call that found more than 4096+65535 bytes buffered, or a read that holds the ends of several messages; distinct by (messages, keep-alives, cuts, driver).",
        assumptions: vec![
            "line ends are CRLF (LF-only heads are outside the generated domain)",
            "heads are valid UTF-8 (the datagram parser named as reference rejects anything else); Content-Length values are 1*DIGIT without sign or trailing blanks",
            "the datagram parser (reference named by the statement) is taken as given; its body and header count are cross-checked against the generator's record",
            "the class / signature tag cut-in-char also counts the read boundaries the decoder really saw (a segment larger than the free read buffer is handed out in several reads)",
            "`any segmentation` is taken at the decoder's interface: how many bytes are in the buffer when decode is called is decided by the segmentation AND by the framing driver's read-ahead; besides FramedRead::new (today's wiring, which never buffers more than the message awaited) the same StreamingDecoder is driven with a large read-ahead and by the plain tokio_util Decoder contract (decode may be called with any amount of buffered data). The statement bounds head and body of each message, not the number of header lines and not the length of the sequence",
            "the signature tag head-at-limit says that a head of the case has 4090..4096 bytes; the signature tags many-lines (a head with more than 32 physical lines) and buffered>max-message (a decode call found more than 4096+65535 bytes buffered, measured by the probe) name the dimension a failure lives in",
            "hook H1 re-exports the private StreamingDecoder",
            "conn subs: the endpoint runs in the single-threaded simulated world; `receives` is observed at a layer (first point where the application sees a request), so only requests are written there; messages are told apart by the CSeq number the generator gives them; a case lasts < 21 s of virtual time so that the 32 s idle close of an unused connection (legitimate) cannot interfere; the signature tag unused-amid-(>8KiB-)message says that, by the harness's own bookkeeping of what it wrote and what the application still held, the last reference to the connection went away while a message was partly received",
        ],
        explanation: "cuts1 and (thorough) cuts2 are exhaustive over the stated corpus sub-space; lines, pipes, edges and conn are full products of the listed values (thinned by parity rules in quick); random and conn-random are sampled. Not asserted: anything about messages the datagram parser rejects, several Content-Length headers in one message, what the error is when a stream is refused, memory use, behaviour for heads above 4096 or bodies above 65535 bytes.",
        subs: vec![
            enum_sub("cuts1", cuts1_cases, check_corpus),
            enum_sub("cuts2", cuts2_cases, check_corpus),
            enum_sub("lines", lines_cases, check_lines),
            enum_sub("pipes", pipe_cases, check_pipe),
            enum_sub("edges", edge_cases, check_edge),
            enum_sub("conn", conn_cases, check_conn),
            prop_sub("conn-random", conn_strategy, 40, 1500, check_conn),
            prop_sub("random", strategy, 1500, 30000, check),
        ],
    }
}
