//! C03 — Stream framing is independent of how TCP/TLS segments the bytes

use crate::engine::*;
use bytes::Bytes;
use proptest::prelude::*;
use serde::{Deserialize, Serialize};
use sip_core::transport::streaming::verif::StreamingDecoder;
use sip_core::transport::{parse_complete, CompleteItem};
use sip_types::print::AppendCtx;
use std::collections::VecDeque;
use std::io;
use std::pin::Pin;
use std::task::{Context, Poll};
use tokio::io::{AsyncRead, ReadBuf};
use tokio_stream::StreamExt;
use tokio_util::codec::FramedRead;

// ---------------------------------------------------------------------------------------------
// message model

#[derive(Serialize, Deserialize, Clone, Debug, Hash, PartialEq, Eq)]
pub struct GenMsg {
    pub start: String,
    /// header lines exactly as written, without the terminating CRLF (may contain "\r\n " folding)
    pub lines: Vec<String>,
    #[serde(with = "hex_bytes")]
    pub body: Vec<u8>,
}

pub mod hex_bytes {
    use serde::{Deserialize, Deserializer, Serializer};
    pub fn serialize<S: Serializer>(b: &Vec<u8>, s: S) -> Result<S::Ok, S::Error> {
        let mut out = String::with_capacity(b.len() * 2);
        for x in b {
            out.push_str(&format!("{x:02x}"));
        }
        s.serialize_str(&out)
    }
    pub fn deserialize<'de, D: Deserializer<'de>>(d: D) -> Result<Vec<u8>, D::Error> {
        let s = String::deserialize(d)?;
        Ok((0..s.len() / 2)
            .filter_map(|i| u8::from_str_radix(&s[2 * i..2 * i + 2], 16).ok())
            .collect())
    }
}

impl GenMsg {
    pub fn bytes(&self) -> Vec<u8> {
        let mut s = Vec::new();
        s.extend_from_slice(self.start.as_bytes());
        s.extend_from_slice(b"\r\n");
        for l in &self.lines {
            s.extend_from_slice(l.as_bytes());
            s.extend_from_slice(b"\r\n");
        }
        s.extend_from_slice(b"\r\n");
        s.extend_from_slice(&self.body);
        s
    }
    pub fn head_len(&self) -> usize {
        self.bytes().len() - self.body.len()
    }
}

/// What a parser made of one message, in comparable form
#[derive(Debug, Clone, PartialEq, Eq)]
pub struct Parsed {
    pub line: String,
    pub headers: Vec<(String, String)>,
    pub body: Vec<u8>,
}

pub fn datagram_reference(bytes: &[u8]) -> Option<Parsed> {
    match parse_complete(Default::default(), bytes) {
        Ok(CompleteItem::Sip {
            line,
            headers,
            body,
            ..
        }) => Some(Parsed {
            line: line.default_print_ctx().to_string(),
            headers: headers
                .iter()
                .map(|(n, v)| (n.as_print_str().to_string(), v.to_string()))
                .collect(),
            body: body.to_vec(),
        }),
        _ => None,
    }
}

// ---------------------------------------------------------------------------------------------
// segmentation-preserving reader

pub struct ScriptedReader {
    chunks: VecDeque<Bytes>,
}

impl ScriptedReader {
    pub fn new(stream: &[u8], cuts: &[usize]) -> Self {
        let mut cuts: Vec<usize> = cuts.iter().copied().filter(|c| *c > 0 && *c < stream.len()).collect();
        cuts.sort();
        cuts.dedup();
        let mut chunks = VecDeque::new();
        let mut prev = 0;
        for c in cuts {
            chunks.push_back(Bytes::copy_from_slice(&stream[prev..c]));
            prev = c;
        }
        if prev < stream.len() {
            chunks.push_back(Bytes::copy_from_slice(&stream[prev..]));
        }
        Self { chunks }
    }
}

impl AsyncRead for ScriptedReader {
    fn poll_read(mut self: Pin<&mut Self>, _cx: &mut Context<'_>, buf: &mut ReadBuf<'_>) -> Poll<io::Result<()>> {
        // one segment per read (a larger segment is delivered in as many reads as the buffer needs)
        if let Some(mut chunk) = self.chunks.pop_front() {
            let n = chunk.len().min(buf.remaining());
            buf.put_slice(&chunk.split_to(n));
            if !chunk.is_empty() {
                self.chunks.push_front(chunk);
            }
        }
        Poll::Ready(Ok(()))
    }
}

/// Feed a segmented stream through the real FramedRead<_, StreamingDecoder>.
pub fn decode_stream(stream: &[u8], cuts: &[usize]) -> (Vec<Parsed>, Option<String>) {
    let reader = ScriptedReader::new(stream, cuts);
    let rt = tokio::runtime::Builder::new_current_thread().build().expect("rt");
    rt.block_on(async move {
        let mut framed = FramedRead::new(reader, StreamingDecoder::new(Default::default()));
        let mut out = vec![];
        let mut err = None;
        while let Some(item) = framed.next().await {
            match item {
                Ok(m) => out.push(Parsed {
                    line: m.line.default_print_ctx().to_string(),
                    headers: m
                        .headers
                        .iter()
                        .map(|(n, v)| (n.as_print_str().to_string(), v.to_string()))
                        .collect(),
                    body: m.body.to_vec(),
                }),
                Err(e) => {
                    err = Some(e.to_string());
                    break;
                }
            }
        }
        (out, err)
    })
}

// ---------------------------------------------------------------------------------------------
// shared oracle

pub struct Features {
    pub cut_in_head_after_cl: bool,
    pub cut_in_body: bool,
    pub cut_at_keepalive: bool,
    pub decoy: bool,
    pub odd_spelling: bool,
    pub keepalive: bool,
    pub big: bool,
}

fn cl_line_index(m: &GenMsg) -> Option<usize> {
    m.lines.iter().position(|l| {
        let name = l.split(':').next().unwrap_or("").trim();
        name.eq_ignore_ascii_case("content-length") || name.eq_ignore_ascii_case("l")
    })
}

pub fn oracle(msgs: &[GenMsg], keepalives: &[u8], cuts: &[usize], out: &mut CaseOut) {
    // build the stream: keepalives[i] CRLFs before message i, keepalives[n] after the last one
    let mut stream: Vec<u8> = vec![];
    let mut spans = vec![]; // (start, head_end, end, cl_line_end)
    let mut ka_spans = vec![];
    for (i, m) in msgs.iter().enumerate() {
        let k = keepalives.get(i).copied().unwrap_or(0) as usize;
        if k > 0 {
            ka_spans.push((stream.len(), stream.len() + 2 * k));
        }
        for _ in 0..k {
            stream.extend_from_slice(b"\r\n");
        }
        let start = stream.len();
        let b = m.bytes();
        let head_end = start + m.head_len();
        let cl_end = cl_line_index(m).map(|idx| {
            start + m.start.len() + 2 + m.lines[..=idx].iter().map(|l| l.len() + 2).sum::<usize>()
        });
        stream.extend_from_slice(&b);
        spans.push((start, head_end, stream.len(), cl_end));
    }
    let tail_k = keepalives.get(msgs.len()).copied().unwrap_or(0) as usize;
    if tail_k > 0 {
        ka_spans.push((stream.len(), stream.len() + 2 * tail_k));
    }
    for _ in 0..tail_k {
        stream.extend_from_slice(b"\r\n");
    }

    // reference: each message alone as a datagram
    let mut reference = vec![];
    for m in msgs {
        match datagram_reference(&m.bytes()) {
            Some(p) => reference.push(p),
            None => {
                out.fail("c03.harness/datagram-rejects-generated-message", format!("datagram parser rejects {:?}", String::from_utf8_lossy(&m.bytes())));
                return;
            }
        }
    }
    // independent sanity of the reference against the generator's own record
    for (m, r) in msgs.iter().zip(&reference) {
        if r.body != m.body {
            out.fail("c03.reference/datagram-body", "datagram reference body differs from the generated body");
        }
        if r.headers.len() != m.lines.len() {
            out.fail("c03.reference/datagram-header-count", format!("{} header lines written, datagram parser returned {}", m.lines.len(), r.headers.len()));
        }
    }

    let (decoded, err) = decode_stream(&stream, cuts);

    // classes
    let f = Features {
        cut_in_head_after_cl: cuts.iter().any(|c| spans.iter().any(|(_, he, _, cl)| cl.map_or(false, |cl| *c >= cl && *c < *he))),
        cut_in_body: cuts.iter().any(|c| spans.iter().any(|(_, he, e, _)| *c > *he && *c < *e)),
        cut_at_keepalive: cuts.iter().any(|c| ka_spans.iter().any(|(s, e)| *c >= *s && *c <= *e)),
        decoy: msgs.iter().any(|m| {
            m.lines.iter().any(|l| {
                let n = l.split(':').next().unwrap_or("").trim().to_ascii_lowercase();
                n != "l" && n != "content-length" && (n.starts_with('l') || n.contains("content-length") || n.len() == 1 || n == "content-type")
            })
        }),
        odd_spelling: msgs.iter().any(|m| cl_line_index(m).map_or(false, |i| !m.lines[i].starts_with("Content-Length: "))),
        keepalive: keepalives.iter().any(|k| *k > 0),
        big: stream.len() > 4096,
    };
    if f.cut_in_head_after_cl {
        out.class("cut-in-head-after-content-length");
    }
    if f.cut_in_body {
        out.class("cut-in-body");
    }
    if f.cut_at_keepalive {
        out.class("cut-at-keepalive");
    }
    if f.decoy {
        out.class("decoy-header");
    }
    if f.odd_spelling {
        out.class("non-canonical-content-length");
    }
    if f.keepalive {
        out.class("keepalive");
    }
    if f.big {
        out.class("stream>4096");
    }
    if msgs.len() > 1 {
        out.class("pipelined");
    }
    if msgs.iter().skip(1).any(|m| cl_line_index(m).is_none()) && msgs.iter().any(|m| !m.body.is_empty()) {
        out.class("message without Content-Length behind a message with body");
    }
    if f.cut_in_head_after_cl || f.cut_in_body || f.cut_at_keepalive || f.decoy || f.odd_spelling {
        out.nontrivial(&(msgs, keepalives, cuts));
    }

    // verdict
    let ctx = || {
        let mut tags = vec![];
        if f.keepalive { tags.push("keepalive"); }
        if f.big { tags.push("big"); }
        if f.decoy { tags.push("decoy"); }
        if f.odd_spelling { tags.push("spelling"); }
        if tags.is_empty() { tags.push("plain"); }
        tags.join("+")
    };
    if let Some(e) = &err {
        out.fail(
            format!("c03.decode/error[{}]", ctx()),
            format!("stream decoder failed with `{e}` after {} of {} messages (cuts {:?}, stream {} bytes)", decoded.len(), msgs.len(), cuts, stream.len()),
        );
    }
    if decoded.len() < reference.len() && err.is_none() {
        out.fail(
            format!("c03.decode/missing[{}]", ctx()),
            format!("{} messages written, {} decoded (cuts {:?})", reference.len(), decoded.len(), cuts),
        );
    }
    if decoded.len() > reference.len() {
        out.fail(
            format!("c03.decode/extra[{}]", ctx()),
            format!("{} messages written, {} decoded (cuts {:?})", reference.len(), decoded.len(), cuts),
        );
    }
    for (i, (d, r)) in decoded.iter().zip(&reference).enumerate() {
        if d.line != r.line {
            out.fail(format!("c03.differs/start-line[{}]", ctx()), format!("message {i}: {:?} vs datagram {:?}", d.line, r.line));
        }
        if d.headers != r.headers {
            out.fail(format!("c03.differs/headers[{}]", ctx()), format!("message {i}: stream {:?} vs datagram {:?}", d.headers, r.headers));
        }
        if d.body != r.body {
            out.fail(
                format!("c03.differs/body[{}]", ctx()),
                format!("message {i}: stream body {} bytes vs datagram {} bytes (cuts {:?})", d.body.len(), r.body.len(), cuts),
            );
        }
    }
}

// ---------------------------------------------------------------------------------------------
// small corpus, exhaustive cuts

fn mk(start: &str, lines: &[&str], body: &[u8]) -> GenMsg {
    GenMsg {
        start: start.to_string(),
        lines: lines.iter().map(|s| s.to_string()).collect(),
        body: body.to_vec(),
    }
}

pub fn corpus() -> Vec<GenMsg> {
    let via = "Via: SIP/2.0/TCP 192.0.2.4;branch=z9hG4bK7";
    let from = "From: <sip:a@example.org>;tag=1";
    let to = "To: <sip:b@example.org>";
    let cid = "Call-ID: c03@x";
    let cs = "CSeq: 1 OPTIONS";
    let body4 = b"ab\r\n";
    let tricky: &[u8] = b"x\r\n\r\nOPTIONS sip:q SIP/2.0\r\nl: 9\r\n\r\n";
    vec![
        mk("OPTIONS sip:b@example.org SIP/2.0", &[via, from, to, cid, cs, "Content-Length: 0"], b""),
        mk("OPTIONS sip:b@example.org SIP/2.0", &["Content-Length: 0", via, from, to, cid, cs], b""),
        mk("OPTIONS sip:b@example.org SIP/2.0", &[via, "Content-Length: 4", from, to, cid, cs], body4),
        mk("OPTIONS sip:b@example.org SIP/2.0", &["Content-Length: 4", via, from, to, cid, cs], body4),
        mk("OPTIONS sip:b@example.org SIP/2.0", &[via, from, to, cid, cs, "Content-Length: 4"], body4),
        mk("OPTIONS sip:b@example.org SIP/2.0", &[via, from, "l: 4", to, cid, cs], body4),
        mk("OPTIONS sip:b@example.org SIP/2.0", &[via, from, "L: 4", to, cid, cs], body4),
        mk("OPTIONS sip:b@example.org SIP/2.0", &[via, from, "content-length: 4", to, cid, cs], body4),
        mk("OPTIONS sip:b@example.org SIP/2.0", &[via, from, "CONTENT-LENGTH:4", to, cid, cs], body4),
        mk("OPTIONS sip:b@example.org SIP/2.0", &[via, from, "Content-Length : 4", to, cid, cs], body4),
        mk("OPTIONS sip:b@example.org SIP/2.0", &[via, from, "Content-Length  :   4", to, cid, cs], body4),
        mk("OPTIONS sip:b@example.org SIP/2.0", &[via, from, "l :4", to, cid, cs], body4),
        mk("OPTIONS sip:b@example.org SIP/2.0", &[via, from, "Content-Length\t: 4", to, cid, cs], body4),
        mk("OPTIONS sip:b@example.org SIP/2.0", &[via, from, "l \t:\t4", to, cid, cs], body4),
        mk("OPTIONS sip:b@example.org SIP/2.0", &[via, from, to, cid, cs, "Content-Length: 0", "lr-x: 17"], b""),
        mk("OPTIONS sip:b@example.org SIP/2.0", &[via, "language: 9", from, to, cid, cs, "Content-Length: 4"], body4),
        mk("OPTIONS sip:b@example.org SIP/2.0", &[via, "X-Content-Length: 99", from, to, cid, cs, "l: 4", "Content-Length-X: 7"], body4),
        mk("OPTIONS sip:b@example.org SIP/2.0", &[via, from, to, cid, cs, "Subject: Content-Length: 50", "Content-Length: 4"], body4),
        mk("OPTIONS sip:b@example.org SIP/2.0", &[via, from, to, cid, cs, "Subject: a\r\n l: 77", "Content-Length: 4"], body4),
        mk("OPTIONS sip:b@example.org SIP/2.0", &[via, from, to, cid, cs, "Content-Length:\r\n 4", "Subject: x"], body4),
        mk("OPTIONS sip:b@example.org SIP/2.0", &[via, from, "Content-Length: 36", to, cid, cs], tricky),
        mk("OPTIONS sip:b@example.org SIP/2.0", &[via, from, to, cid, cs, "Content-Length: 1"], b"\n"),
        mk("OPTIONS sip:b@example.org SIP/2.0", &[via, from, to, cid, cs, "Content-Length: 2"], b"\r\n"),
        mk("OPTIONS sip:b@example.org SIP/2.0", &[via, from, to, cid, cs, "Content-Length: 4"], b"\r\n\r\n"),
        mk("SIP/2.0 200 OK", &[via, from, to, cid, cs, "Content-Length: 0"], b""),
        // no Content-Length header at all: nothing states a body, so there is none (and nothing may be inherited
        // from whatever message came before on the connection)
        mk("OPTIONS sip:b@example.org SIP/2.0", &[via, from, to, cid, cs], b""),
        mk("SIP/2.0 200 OK", &[via, from, to, cid, cs, "Content-Type: text/plain", "language: 4"], b""),
        mk("SIP/2.0 200 OK", &[via, "l: 4", from, to, cid, cs], body4),
        mk("SIP/2.0 180 Ringing", &["Content-Length: 4", via, from, to, cid, cs], b"\x00\xff\r\n"),
        mk("INVITE sip:b@example.org SIP/2.0", &[via, from, to, cid, "CSeq: 1 INVITE", "Content-Type: application/sdp", "Content-Length: 9"], b"v=0\r\no=- "),
        mk("INVITE sip:b@example.org SIP/2.0", &[via, from, to, cid, "CSeq: 1 INVITE", "l: 9", "c: application/sdp", "s: 42", "x: 1800"], b"v=0\r\no=- "),
    ]
}

#[derive(Serialize, Deserialize, Clone, Debug, Hash)]
pub struct CorpusCase {
    /// indices into corpus()
    pub msgs: Vec<usize>,
    /// CRLFs before each message and after the last
    pub keepalives: Vec<u8>,
    pub cuts: Vec<usize>,
}

pub fn check_corpus(case: &CorpusCase, out: &mut CaseOut) {
    let c = corpus();
    let msgs: Vec<GenMsg> = case.msgs.iter().map(|i| c[*i % c.len()].clone()).collect();
    oracle(&msgs, &case.keepalives, &case.cuts, out);
}

fn stream_len(c: &[GenMsg], idx: &[usize], ka: &[u8]) -> usize {
    idx.iter().map(|i| c[*i].bytes().len()).sum::<usize>() + ka.iter().map(|k| 2 * *k as usize).sum::<usize>()
}

pub fn cuts1_cases(_tier: Tier) -> Vec<CorpusCase> {
    let c = corpus();
    let mut out = vec![];
    // single messages: every 1-cut (and the uncut stream)
    for i in 0..c.len() {
        let n = stream_len(&c, &[i], &[]);
        out.push(CorpusCase { msgs: vec![i], keepalives: vec![], cuts: vec![] });
        for cut in 1..n {
            out.push(CorpusCase { msgs: vec![i], keepalives: vec![], cuts: vec![cut] });
        }
    }
    // pairs (i, i+1) with keep-alive patterns: every 1-cut
    for i in 0..c.len() {
        let j = (i + 7) % c.len();
        for ka in [vec![0u8, 0, 0], vec![0, 1, 0], vec![0, 2, 0], vec![1, 0, 0], vec![2, 1, 1], vec![0, 0, 2]] {
            let n = stream_len(&c, &[i, j], &ka);
            if (i + ka[1] as usize) % 3 != 0 && ka != vec![0, 0, 0] {
                continue; // thin the keep-alive product: every message still meets every pattern family
            }
            for cut in 1..n {
                out.push(CorpusCase { msgs: vec![i, j], keepalives: ka.clone(), cuts: vec![cut] });
            }
        }
    }
    out
}

pub fn cuts2_cases(tier: Tier) -> Vec<CorpusCase> {
    let c = corpus();
    let mut out = vec![];
    let stride = tier.pick(7usize, 1usize);
    for i in 0..c.len() {
        // single message: every 2-cut
        let n = stream_len(&c, &[i], &[]);
        let mut k = i; // de-phase the stride per message
        for a in 1..n {
            for b in (a + 1)..n {
                k += 1;
                if k % stride == 0 {
                    out.push(CorpusCase { msgs: vec![i], keepalives: vec![], cuts: vec![a, b] });
                }
            }
        }
        // pair with one keep-alive between: every 2-cut (thorough), sampled in quick
        let j = (i + 11) % c.len();
        let ka = vec![0u8, (i % 3) as u8, (i % 2) as u8];
        let n = stream_len(&c, &[i, j], &ka);
        let pair_stride = tier.pick(97usize, 3usize);
        for a in 1..n {
            for b in (a + 1)..n {
                k += 1;
                if k % pair_stride == 0 {
                    out.push(CorpusCase { msgs: vec![i, j], keepalives: ka.clone(), cuts: vec![a, b] });
                }
            }
        }
    }
    out
}

// ---------------------------------------------------------------------------------------------
// random sequences

#[derive(Serialize, Deserialize, Clone, Debug, Hash)]
pub struct Case {
    pub msgs: Vec<GenMsg>,
    pub keepalives: Vec<u8>,
    pub cuts: Vec<usize>,
}

const STARTS: &[&str] = &[
    "OPTIONS sip:b@example.org SIP/2.0",
    "INVITE sip:bob@[2001:db8::1]:5070;transport=tcp SIP/2.0",
    "MESSAGE sips:carol@chicago.example.com SIP/2.0",
    "FOO sip:x SIP/2.0",
    "SIP/2.0 200 OK",
    "SIP/2.0 180 Ringing",
    "SIP/2.0 404 Not Found",
];
const FILLER: &[&str] = &[
    "Via: SIP/2.0/TCP 192.0.2.4;branch=z9hG4bK7",
    "From: \"A\" <sip:a@example.org>;tag=1",
    "To: <sip:b@example.org>",
    "Call-ID: c03-random@x",
    "CSeq: 7 OPTIONS",
    "Max-Forwards: 70",
    "Contact: <sip:a@192.0.2.4;transport=tcp>",
    "Subject: hello,\r\n world",
    "Accept: application/sdp,\r\n\tapplication/pkcs7-mime",
    "User-Agent: ezk-verif",
    "X-Empty:",
];
const DECOYS: &[&str] = &[
    "lr-x: 17",
    "language: 9",
    "Lx: 3",
    "X-Content-Length: 99",
    "Content-Length-X: 7",
    "Subject: Content-Length: 50",
    "Subject: a\r\n l: 77",
    "X-L: l: 5",
    "Content-Lengthy: 1",
    "c: application/sdp",
    "s: 42",
    "k: 100rel",
    "x: 1800",
    "e: 7",
    "Content-Type: 12",
];
const CL_NAMES: &[&str] = &["Content-Length", "content-length", "CONTENT-LENGTH", "Content-length", "cOnTeNt-LeNgTh", "l", "L"];

fn body_strategy() -> BoxedStrategy<Vec<u8>> {
    prop_oneof![
        3 => Just(vec![]),
        2 => prop::collection::vec(any::<u8>(), 1..40),
        2 => prop::collection::vec(prop_oneof![Just(b'\r'), Just(b'\n'), Just(b'l'), Just(b':'), Just(b' '), Just(b'4')], 1..60),
        1 => Just(b"\r\n\r\n".to_vec()),
        1 => Just(b"x\r\n\r\nOPTIONS sip:q SIP/2.0\r\nContent-Length: 9\r\n\r\n123456789".to_vec()),
        1 => prop::collection::vec(any::<u8>(), 2000..4500),
        1 => (0usize..3).prop_map(|k| vec![b'v'; [65_535usize, 65_534, 30_000][k]]),
    ]
    .boxed()
}

fn msg_strategy() -> BoxedStrategy<GenMsg> {
    (
        any::<u16>(),
        prop::collection::vec(any::<u16>(), 2..11),
        prop::collection::vec(any::<u16>(), 0..3),
        any::<u16>(),
        (any::<u16>(), 0usize..4, 0usize..4, any::<bool>()),
        body_strategy(),
        prop_oneof![9 => Just(0usize), 1 => 3000usize..3800],
    )
        .prop_map(|(ssel, fill, decoys, pos, (nsel, ws_before, ws_after, fold_value), body, pad)| {
            let mut lines: Vec<String> = fill.iter().map(|f| FILLER[pick_idx(*f, FILLER.len())].to_string()).collect();
            for d in decoys {
                let at = pick_idx(d, lines.len() + 1);
                lines.insert(at, DECOYS[pick_idx(d.rotate_left(5), DECOYS.len())].to_string());
            }
            if pad > 0 {
                // pad the head towards the 4096 limit with one long header
                lines.push(format!("X-Pad: {}", "p".repeat(pad)));
            }
            let name = CL_NAMES[pick_idx(nsel, CL_NAMES.len())];
            // HCOLON = *( SP / HTAB ) ":" SWS — blanks and tabs in any mix (chosen by the name selector's low bits)
            let ws = |n: usize, bits: u16| -> String { (0..n).map(|i| if (bits >> i) & 1 == 1 { '\t' } else { ' ' }).collect() };
            let sep = if fold_value { "\r\n ".to_string() } else { ws(ws_after, nsel >> 4) };
            let cl = format!("{name}{}:{sep}{}", ws(ws_before, nsel >> 8), body.len());
            let at = pick_idx(pos, lines.len() + 1);
            // a message without body may come without any Content-Length header (1 in 4 of the bodiless ones)
            if !(body.is_empty() && nsel % 4 == 3) {
                lines.insert(at, cl);
            }
            let mut m = GenMsg {
                start: STARTS[pick_idx(ssel, STARTS.len())].to_string(),
                lines,
                body,
            };
            // the statement covers heads of at most 4096 bytes
            while m.head_len() > 4096 {
                let i = m.lines.iter().position(|l| l.starts_with("X-Pad")).unwrap_or(0);
                if m.lines[i].len() > 50 {
                    let l = m.lines[i].len();
                    m.lines[i].truncate(l - 40);
                } else {
                    m.lines.remove(i);
                }
            }
            m
        })
        .boxed()
}

pub fn strategy() -> BoxedStrategy<Case> {
    (
        prop::collection::vec(msg_strategy(), 1..5),
        prop::collection::vec(prop_oneof![4 => Just(0u8), 2 => Just(1u8), 2 => Just(2u8), 1 => Just(3u8)], 6),
        prop_oneof![
            2 => Just(None::<Vec<u16>>),                             // single write
            1 => Just(Some(vec![u16::MAX])),                         // marker: dribble
            6 => prop::collection::vec(any::<u16>(), 1..17).prop_map(Some),
        ],
    )
        .prop_map(|(msgs, ka, cutsel)| {
            let mut keepalives = ka;
            keepalives.truncate(msgs.len() + 1);
            let total: usize = msgs.iter().map(|m| m.bytes().len()).sum::<usize>() + keepalives.iter().map(|k| 2 * *k as usize).sum::<usize>();
            let cuts = match cutsel {
                None => vec![],
                Some(v) if v == vec![u16::MAX] => {
                    if total <= 3000 {
                        (1..total).collect()
                    } else {
                        (1..total).step_by(total / 1500 + 1).collect()
                    }
                }
                Some(v) => {
                    let mut c: Vec<usize> = v.into_iter().map(|s| 1 + pick_idx(s, total.saturating_sub(1).max(1))).collect();
                    c.sort();
                    c.dedup();
                    c
                }
            };
            Case { msgs, keepalives, cuts }
        })
        .boxed()
}

pub fn check(case: &Case, out: &mut CaseOut) {
    oracle(&case.msgs, &case.keepalives, &case.cuts, out);
}

fn seed_corpus_stream(dir: &std::path::Path) {
    // input layout of the target: 3 selector bytes (segmentation), then the stream
    let c = corpus();
    for (i, m) in c.iter().enumerate() {
        for sel in [[0u8, 0, 0], [1, 77, 0], [2, 40, 200]] {
            let mut b = sel.to_vec();
            b.extend_from_slice(&m.bytes());
            if i % 3 == 0 {
                b.extend_from_slice(b"\r\n");
                b.extend_from_slice(&c[(i + 5) % c.len()].bytes());
            }
            let _ = std::fs::write(dir.join(format!("c03-{i:03}-{}", sel[0])), &b);
        }
    }
    for (i, case) in sample_strategy(&strategy(), 11, 120).into_iter().enumerate() {
        let mut b = vec![(i % 3) as u8, (i * 37 % 256) as u8, (i * 91 % 256) as u8];
        for m in case.msgs.iter().filter(|m| m.body.len() < 3000) {
            b.extend_from_slice(&m.bytes());
        }
        let _ = std::fs::write(dir.join(format!("gen-{i:03}")), &b);
    }
}

pub fn property() -> Property {
    Property {
        fuzz: vec![FuzzStage { target: "sip_stream", runs: 800_000, max_len: 9000, seed_corpus: seed_corpus_stream }],
        id: "C03",
        rule: "a case = 1..4 SIP messages (heads <= 4096 B, bodies <= 65535 B; Content-Length spelled in any case / compact l,L / blanks around the colon / folded / any position, or absent on a bodiless message; decoy headers; bodies containing CRLFCRLF and fake messages) + 0..3 CRLF keep-alives before/between/after + a segmentation; fed through the real tokio_util FramedRead<_, StreamingDecoder>; oracle = each message alone through the datagram parser plus the generator's own record. cuts1: EVERY 1-cut of 26 corpus messages and of 2-message pipelines; cuts2: every 2-cut (thorough; strided in quick); random: generated sequences with k-cuts, 1-byte dribble, single write. Non-trivial = a cut inside a head after the Content-Length line, inside a body or at a keep-alive, or a decoy header, or a non-canonical Content-Length spelling; distinct by (messages, keep-alives, cuts).",
        assumptions: vec![
            "line ends are CRLF (LF-only heads are outside the generated domain)",
            "the datagram parser (reference named by the statement) is taken as given; its body and header count are cross-checked against the generator's record",
            "hook H1 re-exports the private StreamingDecoder",
        ],
        explanation: "cuts1 and (thorough) cuts2 are exhaustive over the stated corpus sub-space; random is sampled",
        subs: vec![
            enum_sub("cuts1", cuts1_cases, check_corpus),
            enum_sub("cuts2", cuts2_cases, check_corpus),
            prop_sub("random", strategy, 1500, 30000, check),
        ],
    }
}
