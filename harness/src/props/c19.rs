//! C19 — SDP parses without panicking and round-trips every description

use crate::engine::*;
use bytesstr::BytesStr;
use proptest::prelude::*;
use sdp_types::SessionDescription;

fn any_text() -> BoxedStrategy<String> {
    prop_oneof![
        ".{0,200}",
        "[ -~\r\n]{0,300}",
    ]
    .boxed()
}

fn check_parse_text(text: &String, out: &mut CaseOut) {
    let src = BytesStr::from(text.as_str());
    let r = SessionDescription::parse(&src);
    out.class(if r.is_ok() { "parsed" } else { "rejected" });
    if text.contains("=") {
        out.nontrivial(text);
    }
}

pub fn property() -> Property {
    Property {
        id: "C19",
        rule: "TODO",
        assumptions: vec![],
        explanation: "TODO",
        subs: vec![prop_sub("parse_text", any_text, 200, 2000, check_parse_text)],
    }
}
