//! C19 — SDP parses without panicking and round-trips every description
//!
//! Sub-checks
//! * `parse_text`  — arbitrary / ASCII-biased / line-shaped text, grammar-derived lines with
//!   out-of-range numbers, byte- and line-level mutations of valid SDP: `SessionDescription::parse`
//!   returns (Ok or Err), never panics (overflow checks are on).
//! * `roundtrip`   — generated `SessionDescription` values (mirror type `SdpCase`): value → ezk value
//!   → `Display` → `parse` → compared FIELD-WISE with the generated value; print→parse→print fixpoint;
//!   independent line scanner for the placement of media-level lines; and the reference rendering
//!   (`refmodel::sdp`) of the same value must parse to the same value.
//!   Generated (gen/sdp.rs): every field of the public structs over its grammar. Four dimensions are
//!   generated on purpose because a text-level parse→print→parse check cannot see them (the first
//!   parse already normalises): (1) white-space-delimited tokens (origin user/id/version, candidate
//!   transport/type/extension pairs) and free text (s=, attribute values, fmtp) containing code
//!   points >= U+0080 that Unicode — but not ASCII/SDP — calls white space, or that are invisible,
//!   at the start, inside and at the end; (2) every token with a catch-all variant (`Other` proto,
//!   `Ext` suite, `Ext` session parameter, unknown attribute name, candidate extension key) as a
//!   NEAR MISS of a well-known token: other letter case, proper prefix/suffix, extended;
//!   (3) host names that look like address literals: a dotted quad held as `IP6FQDN` (`IN IP6
//!   192.0.2.1` — the tag, not the text, decides the variant; also with the IPv6 `/<num>` suffix in a
//!   connection), near misses of IPv4 literals under both tags and in candidates, near misses of IPv6
//!   literals where `:` is a host character; (4) REPEATED list elements: one element of any list of a
//!   media section / the session (fmts, bandwidth, rtpmap, fmtp, candidates, crypto lines + their keys
//!   and session parameters, candidate extension pairs, unknown attributes, ice-options, whole media
//!   sections, one candidate in two sections) a second time, adjacent or not, verbatim or as a near
//!   duplicate (a candidate differing in exactly one field; elements sharing only their key) — the
//!   lists are `Vec`s, n elements printed must come back as the same n elements in the same order;
//!   (5) a WELL-KNOWN NAME IN THE OTHER FORM, held in the catch-all: an unknown attribute named like
//!   a flag the crate knows but carrying a value (`a=sendonly:x`, `a=end-of-candidates:1`, empty value
//!   too) or named like a valued attribute but without a value (`a=rtpmap`, `a=crypto`), at session and
//!   media level; an `Ext` session parameter that is a keyed well-known name with a value outside that
//!   parameter's grammar — `KDR=` / `WSH=` + a numeric look-alike that is not `1*DIGIT` within u32
//!   (signed, junk around digits, above u32::MAX), `FEC_ORDER=` + not exactly one of the two orders,
//!   `FEC_KEY=` + no inline key list — a keyed name without `=`, a flag with `=value`. The line / token
//!   dispatch has to look at the form, not only at the name, and a value parser has to reject what its
//!   grammar does not cover, for these to come back as the same unknown attribute / `Ext`.
//!   Oracle: equality with the generated value, nothing else. Not asserted: what a token that is
//!   spelled exactly like a well-known one IN THE FORM THE CRATE INTERPRETS but held in the catch-all
//!   variant parses to (value-less `sendonly`, valued `rtpmap`, `ice-lite` in either form — the crate
//!   reads `a=ice-lite:x` as the flag —, `Ext("KDR=5")`, `Ext("KDR=007")`, candidate keys `raddr` / `rport`); whether
//!   case-variants of media types (no catch-all variant exists) are accepted; control characters
//!   inside tokens (outside RFC 8866 `non-ws-string`).
//! * `whole_token` — metamorphic: a token character appended to the media-type / protocol /
//!   crypto-suite token of a valid description yields an error or the `Other`/`Ext` variant with
//!   the whole token, never the well-known variant; the other fields of that line must then be the
//!   generated ones, or at least read exactly as they do when the line carries the well-known token
//!   (a field that does not survive print -> parse with either token is `roundtrip`'s finding).

use crate::engine::*;
use crate::gen::sdp::*;
use crate::refmodel::sdp as rf;
use bytesstr::BytesStr;
use proptest::prelude::*;
use sdp_types as ez;
use serde::{Deserialize, Serialize};
use std::net::{IpAddr, Ipv4Addr, Ipv6Addr};

// ---------------------------------------------------------------------------------------------
// mirror value -> ezk value (public API only)
// ---------------------------------------------------------------------------------------------

fn bs(s: &str) -> BytesStr {
    BytesStr::from(s)
}

fn v4(b: &[u8; 4]) -> Ipv4Addr {
    Ipv4Addr::new(b[0], b[1], b[2], b[3])
}

fn v6(s: &[u16; 8]) -> Ipv6Addr {
    Ipv6Addr::new(s[0], s[1], s[2], s[3], s[4], s[5], s[6], s[7])
}

fn to_tagged(t: &TaggedC) -> ez::TaggedAddress {
    match t {
        TaggedC::Ip4(b) => ez::TaggedAddress::IP4(v4(b)),
        TaggedC::Ip4Fqdn(h) => ez::TaggedAddress::IP4FQDN(bs(h)),
        TaggedC::Ip6(s) => ez::TaggedAddress::IP6(v6(s)),
        TaggedC::Ip6Fqdn(h) => ez::TaggedAddress::IP6FQDN(bs(h)),
    }
}

fn to_untagged(t: &UntaggedC) -> ez::UntaggedAddress {
    match t {
        UntaggedC::V4(b) => ez::UntaggedAddress::IpAddress(IpAddr::V4(v4(b))),
        UntaggedC::V6(s) => ez::UntaggedAddress::IpAddress(IpAddr::V6(v6(s))),
        UntaggedC::Fqdn(h) => ez::UntaggedAddress::Fqdn(bs(h)),
    }
}

fn to_dir(d: DirC) -> ez::Direction {
    match d {
        DirC::SendRecv => ez::Direction::SendRecv,
        DirC::RecvOnly => ez::Direction::RecvOnly,
        DirC::SendOnly => ez::Direction::SendOnly,
        DirC::Inactive => ez::Direction::Inactive,
    }
}

fn to_conn(c: &ConnC) -> ez::Connection {
    ez::Connection {
        address: to_tagged(&c.address),
        ttl: c.ttl,
        num: c.num,
    }
}

fn to_bw(b: &BwC) -> ez::Bandwidth {
    ez::Bandwidth {
        type_: bs(&b.type_),
        bandwidth: b.bandwidth,
    }
}

fn to_attr(a: &AttrC) -> ez::UnknownAttribute {
    ez::UnknownAttribute {
        name: bs(&a.name),
        value: a.value.as_deref().map(bs),
    }
}

fn suite_table() -> [ez::SrtpSuite; 9] {
    // same order as SUITE_NAMES
    [
        ez::SrtpSuite::AES_CM_128_HMAC_SHA1_80,
        ez::SrtpSuite::AES_CM_128_HMAC_SHA1_32,
        ez::SrtpSuite::F8_128_HMAC_SHA1_80,
        ez::SrtpSuite::AES_192_CM_HMAC_SHA1_80,
        ez::SrtpSuite::AES_192_CM_HMAC_SHA1_32,
        ez::SrtpSuite::AES_256_CM_HMAC_SHA1_80,
        ez::SrtpSuite::AES_256_CM_HMAC_SHA1_32,
        ez::SrtpSuite::AEAD_AES_128_GCM,
        ez::SrtpSuite::AEAD_AES_256_GCM,
    ]
}

fn to_suite(s: &SuiteC) -> ez::SrtpSuite {
    match s {
        SuiteC::Known(i) => suite_table()[*i as usize % 9].clone(),
        SuiteC::Ext(t) => ez::SrtpSuite::Ext(bs(t)),
    }
}

fn to_key(k: &KeyC) -> ez::SrtpKeyingMaterial {
    ez::SrtpKeyingMaterial {
        key_and_salt: bs(&k.key_and_salt),
        lifetime: k.lifetime,
        mki: k.mki,
    }
}

fn to_param(p: &ParamC) -> ez::SrtpSessionParam {
    use ez::SrtpSessionParam as P;
    match p {
        ParamC::Kdr(v) => P::Kdr(*v),
        ParamC::UnencryptedSrtp => P::UnencryptedSrtp,
        ParamC::UnencryptedSrtcp => P::UnencryptedSrtcp,
        ParamC::UnauthenticatedSrtp => P::UnauthenticatedSrtp,
        ParamC::FecOrderFecSrtp => P::FecOrder(ez::SrtpFecOrder::FecSrtp),
        ParamC::FecOrderSrtpFec => P::FecOrder(ez::SrtpFecOrder::SrtpFec),
        ParamC::FecKey(ks) => P::FecKey(ks.iter().map(to_key).collect()),
        ParamC::Wsh(v) => P::WindowSizeHint(*v),
        ParamC::Ext(s) => P::Ext(bs(s)),
    }
}

fn to_media(m: &MediaC) -> ez::MediaDescription {
    ez::MediaDescription {
        media: ez::Media {
            media_type: match m.media_type {
                MediaTypeC::Audio => ez::MediaType::Audio,
                MediaTypeC::Video => ez::MediaType::Video,
                MediaTypeC::Text => ez::MediaType::Text,
                MediaTypeC::App => ez::MediaType::App,
            },
            port: m.port,
            ports_num: m.ports_num,
            proto: match &m.proto {
                ProtoC::Udp => ez::TransportProtocol::Unspecified,
                ProtoC::RtpAvp => ez::TransportProtocol::RtpAvp,
                ProtoC::RtpSavp => ez::TransportProtocol::RtpSavp,
                ProtoC::RtpSavpf => ez::TransportProtocol::RtpSavpf,
                ProtoC::Other(s) => ez::TransportProtocol::Other(bs(s)),
            },
            fmts: m.fmts.clone(),
        },
        direction: to_dir(m.direction),
        connection: m.connection.as_ref().map(to_conn),
        bandwidth: m.bandwidth.iter().map(to_bw).collect(),
        rtcp_attr: m.rtcp.as_ref().map(|r| ez::Rtcp {
            port: r.port,
            address: r.address.as_ref().map(to_tagged),
        }),
        rtpmaps: m
            .rtpmaps
            .iter()
            .map(|r| ez::RtpMap {
                payload: r.payload,
                encoding: bs(&r.encoding),
                clock_rate: r.clock_rate,
                params: r.params.as_deref().map(bs),
            })
            .collect(),
        fmtps: m
            .fmtps
            .iter()
            .map(|f| ez::Fmtp {
                format: f.format,
                params: bs(&f.params),
            })
            .collect(),
        ice_ufrag: m.ice_ufrag.as_deref().map(|u| ez::IceUsernameFragment { ufrag: bs(u) }),
        ice_pwd: m.ice_pwd.as_deref().map(|p| ez::IcePassword { pwd: bs(p) }),
        ice_candidates: m
            .candidates
            .iter()
            .map(|c| ez::IceCandidate {
                foundation: bs(&c.foundation),
                component: c.component,
                transport: bs(&c.transport),
                priority: c.priority,
                address: to_untagged(&c.address),
                port: c.port,
                typ: bs(&c.typ),
                rel_addr: c.rel_addr.as_ref().map(to_untagged),
                rel_port: c.rel_port,
                unknown: c.unknown.iter().map(|(k, v)| (bs(k), bs(v))).collect(),
            })
            .collect(),
        ice_end_of_candidates: m.end_of_candidates,
        crypto: m
            .crypto
            .iter()
            .map(|c| ez::SrtpCrypto {
                tag: c.tag,
                suite: to_suite(&c.suite),
                keys: c.keys.iter().map(to_key).collect(),
                params: c.params.iter().map(to_param).collect(),
            })
            .collect(),
        attributes: m.attributes.iter().map(to_attr).collect(),
    }
}

fn to_ezk(c: &SdpCase) -> ez::SessionDescription {
    ez::SessionDescription {
        name: bs(&c.name),
        origin: ez::Origin {
            username: bs(&c.origin.username),
            session_id: bs(&c.origin.session_id),
            session_version: bs(&c.origin.session_version),
            address: to_tagged(&c.origin.address),
        },
        time: ez::Time {
            start: c.time.0,
            stop: c.time.1,
        },
        direction: to_dir(c.direction),
        connection: c.connection.as_ref().map(to_conn),
        bandwidth: c.bandwidth.iter().map(to_bw).collect(),
        ice_options: ez::IceOptions {
            options: c.ice_options.iter().map(|o| bs(o)).collect(),
        },
        ice_lite: c.ice_lite,
        ice_ufrag: c.ice_ufrag.as_deref().map(|u| ez::IceUsernameFragment { ufrag: bs(u) }),
        ice_pwd: c.ice_pwd.as_deref().map(|p| ez::IcePassword { pwd: bs(p) }),
        attributes: c.attributes.iter().map(to_attr).collect(),
        media_descriptions: c.media.iter().map(to_media).collect(),
    }
}

// ---------------------------------------------------------------------------------------------
// ezk value -> mirror value (observation of what the parser returned)
// ---------------------------------------------------------------------------------------------

fn from_tagged(t: &ez::TaggedAddress) -> TaggedC {
    match t {
        ez::TaggedAddress::IP4(a) => TaggedC::Ip4(a.octets()),
        ez::TaggedAddress::IP4FQDN(h) => TaggedC::Ip4Fqdn(h.to_string()),
        ez::TaggedAddress::IP6(a) => TaggedC::Ip6(a.segments()),
        ez::TaggedAddress::IP6FQDN(h) => TaggedC::Ip6Fqdn(h.to_string()),
    }
}

fn from_untagged(t: &ez::UntaggedAddress) -> UntaggedC {
    match t {
        ez::UntaggedAddress::IpAddress(IpAddr::V4(a)) => UntaggedC::V4(a.octets()),
        ez::UntaggedAddress::IpAddress(IpAddr::V6(a)) => UntaggedC::V6(a.segments()),
        ez::UntaggedAddress::Fqdn(h) => UntaggedC::Fqdn(h.to_string()),
    }
}

fn from_dir(d: ez::Direction) -> DirC {
    match d {
        ez::Direction::SendRecv => DirC::SendRecv,
        ez::Direction::RecvOnly => DirC::RecvOnly,
        ez::Direction::SendOnly => DirC::SendOnly,
        ez::Direction::Inactive => DirC::Inactive,
    }
}

fn from_conn(c: &ez::Connection) -> ConnC {
    ConnC {
        address: from_tagged(&c.address),
        ttl: c.ttl,
        num: c.num,
    }
}

fn from_bw(b: &ez::Bandwidth) -> BwC {
    BwC {
        type_: b.type_.to_string(),
        bandwidth: b.bandwidth,
    }
}

fn from_attr(a: &ez::UnknownAttribute) -> AttrC {
    AttrC {
        name: a.name.to_string(),
        value: a.value.as_ref().map(|v| v.to_string()),
    }
}

fn from_suite(s: &ez::SrtpSuite) -> SuiteC {
    if let ez::SrtpSuite::Ext(t) = s {
        return SuiteC::Ext(t.to_string());
    }
    match suite_table().iter().position(|k| k == s) {
        Some(i) => SuiteC::Known(i as u8),
        // a variant this harness does not know: observed through its name
        None => SuiteC::Ext(format!("<unknown variant {s:?}>")),
    }
}

fn from_key(k: &ez::SrtpKeyingMaterial) -> KeyC {
    KeyC {
        key_and_salt: k.key_and_salt.to_string(),
        lifetime: k.lifetime,
        mki: k.mki,
    }
}

fn from_param(p: &ez::SrtpSessionParam) -> ParamC {
    use ez::SrtpSessionParam as P;
    match p {
        P::Kdr(v) => ParamC::Kdr(*v),
        P::UnencryptedSrtp => ParamC::UnencryptedSrtp,
        P::UnencryptedSrtcp => ParamC::UnencryptedSrtcp,
        P::UnauthenticatedSrtp => ParamC::UnauthenticatedSrtp,
        P::FecOrder(ez::SrtpFecOrder::FecSrtp) => ParamC::FecOrderFecSrtp,
        P::FecOrder(ez::SrtpFecOrder::SrtpFec) => ParamC::FecOrderSrtpFec,
        P::FecKey(ks) => ParamC::FecKey(ks.iter().map(from_key).collect()),
        P::WindowSizeHint(v) => ParamC::Wsh(*v),
        P::Ext(s) => ParamC::Ext(s.to_string()),
    }
}

#[allow(unreachable_patterns)]
fn from_media_type(t: &ez::MediaType) -> Result<MediaTypeC, String> {
    Ok(match t {
        ez::MediaType::Audio => MediaTypeC::Audio,
        ez::MediaType::Video => MediaTypeC::Video,
        ez::MediaType::Text => MediaTypeC::Text,
        ez::MediaType::App => MediaTypeC::App,
        other => return Err(format!("{other:?}")),
    })
}

#[allow(unreachable_patterns)]
fn from_proto(p: &ez::TransportProtocol) -> ProtoC {
    match p {
        ez::TransportProtocol::Unspecified => ProtoC::Udp,
        ez::TransportProtocol::RtpAvp => ProtoC::RtpAvp,
        ez::TransportProtocol::RtpSavp => ProtoC::RtpSavp,
        ez::TransportProtocol::RtpSavpf => ProtoC::RtpSavpf,
        ez::TransportProtocol::Other(s) => ProtoC::Other(s.to_string()),
        other => ProtoC::Other(format!("<unknown variant {other:?}>")),
    }
}

fn from_media(m: &ez::MediaDescription) -> MediaC {
    MediaC {
        // a media type this harness does not know cannot be an equal of any generated value;
        // whole_token observes the raw variant itself
        media_type: from_media_type(&m.media.media_type).unwrap_or(MediaTypeC::Audio),
        port: m.media.port,
        ports_num: m.media.ports_num,
        proto: from_proto(&m.media.proto),
        fmts: m.media.fmts.clone(),
        direction: from_dir(m.direction),
        connection: m.connection.as_ref().map(from_conn),
        bandwidth: m.bandwidth.iter().map(from_bw).collect(),
        rtcp: m.rtcp_attr.as_ref().map(|r| RtcpC {
            port: r.port,
            address: r.address.as_ref().map(from_tagged),
        }),
        rtpmaps: m
            .rtpmaps
            .iter()
            .map(|r| RtpMapC {
                payload: r.payload,
                encoding: r.encoding.to_string(),
                clock_rate: r.clock_rate,
                params: r.params.as_ref().map(|p| p.to_string()),
            })
            .collect(),
        fmtps: m
            .fmtps
            .iter()
            .map(|f| FmtpC {
                format: f.format,
                params: f.params.to_string(),
            })
            .collect(),
        ice_ufrag: m.ice_ufrag.as_ref().map(|u| u.ufrag.to_string()),
        ice_pwd: m.ice_pwd.as_ref().map(|p| p.pwd.to_string()),
        candidates: m
            .ice_candidates
            .iter()
            .map(|c| CandC {
                foundation: c.foundation.to_string(),
                component: c.component,
                transport: c.transport.to_string(),
                priority: c.priority,
                address: from_untagged(&c.address),
                port: c.port,
                typ: c.typ.to_string(),
                rel_addr: c.rel_addr.as_ref().map(from_untagged),
                rel_port: c.rel_port,
                unknown: c.unknown.iter().map(|(k, v)| (k.to_string(), v.to_string())).collect(),
            })
            .collect(),
        end_of_candidates: m.ice_end_of_candidates,
        crypto: m
            .crypto
            .iter()
            .map(|c| CryptoC {
                tag: c.tag,
                suite: from_suite(&c.suite),
                keys: c.keys.iter().map(from_key).collect(),
                params: c.params.iter().map(from_param).collect(),
            })
            .collect(),
        attributes: m.attributes.iter().map(from_attr).collect(),
    }
}

fn from_ezk(s: &ez::SessionDescription) -> SdpCase {
    SdpCase {
        origin: OriginC {
            username: s.origin.username.to_string(),
            session_id: s.origin.session_id.to_string(),
            session_version: s.origin.session_version.to_string(),
            address: from_tagged(&s.origin.address),
        },
        name: s.name.to_string(),
        connection: s.connection.as_ref().map(from_conn),
        bandwidth: s.bandwidth.iter().map(from_bw).collect(),
        time: (s.time.start, s.time.stop),
        direction: from_dir(s.direction),
        ice_options: s.ice_options.options.iter().map(|o| o.to_string()).collect(),
        ice_lite: s.ice_lite,
        ice_ufrag: s.ice_ufrag.as_ref().map(|u| u.ufrag.to_string()),
        ice_pwd: s.ice_pwd.as_ref().map(|p| p.pwd.to_string()),
        attributes: s.attributes.iter().map(from_attr).collect(),
        media: s.media_descriptions.iter().map(from_media).collect(),
    }
}

// ---------------------------------------------------------------------------------------------
// field-wise comparison (locus = narrow stable name of the field that differs)
// ---------------------------------------------------------------------------------------------

#[derive(Default)]
struct Diff {
    items: Vec<(&'static str, String)>,
}

impl Diff {
    fn eq<T: PartialEq + std::fmt::Debug>(&mut self, locus: &'static str, at: &str, want: &T, got: &T) {
        if want != got {
            let mut w = format!("{want:?}");
            let mut g = format!("{got:?}");
            if w.len() > 300 {
                w = format!("{}…", w.chars().take(300).collect::<String>());
            }
            if g.len() > 300 {
                g = format!("{}…", g.chars().take(300).collect::<String>());
            }
            self.items.push((locus, format!("{at}: generated {w} but parsed back {g}")));
        }
    }
}

fn cmp_key(d: &mut Diff, at: &str, lk: (&'static str, &'static str, &'static str), w: &KeyC, g: &KeyC) {
    d.eq(lk.0, at, &w.key_and_salt, &g.key_and_salt);
    d.eq(lk.1, at, &w.lifetime, &g.lifetime);
    d.eq(lk.2, at, &w.mki, &g.mki);
}

fn cmp_crypto(d: &mut Diff, at: &str, w: &CryptoC, g: &CryptoC) {
    d.eq("crypto.tag", at, &w.tag, &g.tag);
    d.eq("crypto.suite", at, &w.suite, &g.suite);
    d.eq("crypto.keys.count", at, &w.keys.len(), &g.keys.len());
    for (i, (wk, gk)) in w.keys.iter().zip(&g.keys).enumerate() {
        cmp_key(
            d,
            &format!("{at}.keys[{i}]"),
            ("crypto.key.key_and_salt", "crypto.key.lifetime", "crypto.key.mki"),
            wk,
            gk,
        );
    }
    d.eq("crypto.params.count", at, &w.params.len(), &g.params.len());
    for (i, (wp, gp)) in w.params.iter().zip(&g.params).enumerate() {
        let at = format!("{at}.params[{i}]");
        match (wp, gp) {
            (ParamC::FecKey(wk), ParamC::FecKey(gk)) => {
                d.eq("crypto.param.fec-key.count", &at, &wk.len(), &gk.len());
                for (j, (a, b)) in wk.iter().zip(gk).enumerate() {
                    cmp_key(
                        d,
                        &format!("{at}.fec_key[{j}]"),
                        (
                            "crypto.param.fec-key.key_and_salt",
                            "crypto.param.fec-key.lifetime",
                            "crypto.param.fec-key.mki",
                        ),
                        a,
                        b,
                    );
                }
            }
            // an Ext carrying a well-known name in another form gets its own locus (a dispatch on
            // the name / a lenient value parser is a different root cause than prefix matching)
            (ParamC::Ext(s), _) => d.eq(
                match param_ext_form(s) {
                    Some("keyed-name+signed-number") => "crypto.param.ext:keyed-name+signed-number",
                    Some("keyed-name+number-above-u32") => "crypto.param.ext:keyed-name+number-above-u32",
                    Some("keyed-name+non-number") => "crypto.param.ext:keyed-name+non-number",
                    Some("FEC_ORDER+other-value") => "crypto.param.ext:FEC_ORDER+other-value",
                    Some("FEC_KEY+non-key-params") => "crypto.param.ext:FEC_KEY+non-key-params",
                    Some("keyed-name-without-=") => "crypto.param.ext:keyed-name-without-=",
                    Some("flag-name+=value") => "crypto.param.ext:flag-name+=value",
                    _ => "crypto.param.ext",
                },
                &at,
                wp,
                gp,
            ),
            _ => d.eq("crypto.param", &at, wp, gp),
        }
    }
}

fn cmp_cand(d: &mut Diff, at: &str, w: &CandC, g: &CandC) {
    d.eq("candidate.foundation", at, &w.foundation, &g.foundation);
    d.eq("candidate.component", at, &w.component, &g.component);
    d.eq("candidate.transport", at, &w.transport, &g.transport);
    d.eq("candidate.priority", at, &w.priority, &g.priority);
    d.eq("candidate.address", at, &w.address, &g.address);
    d.eq("candidate.port", at, &w.port, &g.port);
    d.eq("candidate.typ", at, &w.typ, &g.typ);
    d.eq("candidate.rel_addr", at, &w.rel_addr, &g.rel_addr);
    d.eq("candidate.rel_port", at, &w.rel_port, &g.rel_port);
    d.eq("candidate.unknown", at, &w.unknown, &g.unknown);
}

fn cmp_conn(d: &mut Diff, l: (&'static str, &'static str, &'static str), at: &str, w: &Option<ConnC>, g: &Option<ConnC>) {
    match (w, g) {
        (Some(w), Some(g)) => {
            d.eq(l.0, at, &w.address, &g.address);
            d.eq(l.1, at, &w.ttl, &g.ttl);
            d.eq(l.2, at, &w.num, &g.num);
        }
        _ => d.eq(l.0, at, w, g),
    }
}

fn cmp_media(d: &mut Diff, at: &str, w: &MediaC, g: &MediaC) {
    d.eq("media.type", at, &w.media_type, &g.media_type);
    d.eq("media.port", at, &w.port, &g.port);
    d.eq("media.ports_num", at, &w.ports_num, &g.ports_num);
    d.eq("media.proto", at, &w.proto, &g.proto);
    d.eq("media.fmts", at, &w.fmts, &g.fmts);
    d.eq("media.direction", at, &w.direction, &g.direction);
    cmp_conn(
        d,
        ("media.connection.address", "media.connection.ttl", "media.connection.num"),
        at,
        &w.connection,
        &g.connection,
    );
    d.eq("media.bandwidth", at, &w.bandwidth, &g.bandwidth);
    match (&w.rtcp, &g.rtcp) {
        (Some(wr), Some(gr)) => {
            d.eq("media.rtcp.port", at, &wr.port, &gr.port);
            d.eq("media.rtcp.address", at, &wr.address, &gr.address);
        }
        (wr, gr) => d.eq("media.rtcp", at, wr, gr),
    }
    d.eq("media.rtpmaps.count", at, &w.rtpmaps.len(), &g.rtpmaps.len());
    for (i, (a, b)) in w.rtpmaps.iter().zip(&g.rtpmaps).enumerate() {
        let at = format!("{at}.rtpmaps[{i}]");
        d.eq("rtpmap.payload", &at, &a.payload, &b.payload);
        d.eq("rtpmap.encoding", &at, &a.encoding, &b.encoding);
        d.eq("rtpmap.clock_rate", &at, &a.clock_rate, &b.clock_rate);
        d.eq("rtpmap.params", &at, &a.params, &b.params);
    }
    d.eq("media.fmtps.count", at, &w.fmtps.len(), &g.fmtps.len());
    for (i, (a, b)) in w.fmtps.iter().zip(&g.fmtps).enumerate() {
        let at = format!("{at}.fmtps[{i}]");
        d.eq("fmtp.format", &at, &a.format, &b.format);
        d.eq("fmtp.params", &at, &a.params, &b.params);
    }
    d.eq("media.ice-ufrag", at, &w.ice_ufrag, &g.ice_ufrag);
    d.eq("media.ice-pwd", at, &w.ice_pwd, &g.ice_pwd);
    d.eq("media.candidates.count", at, &w.candidates.len(), &g.candidates.len());
    for (i, (a, b)) in w.candidates.iter().zip(&g.candidates).enumerate() {
        cmp_cand(d, &format!("{at}.candidates[{i}]"), a, b);
    }
    d.eq("media.end-of-candidates", at, &w.end_of_candidates, &g.end_of_candidates);
    d.eq("media.crypto.count", at, &w.crypto.len(), &g.crypto.len());
    for (i, (a, b)) in w.crypto.iter().zip(&g.crypto).enumerate() {
        cmp_crypto(d, &format!("{at}.crypto[{i}]"), a, b);
    }
    d.eq(
        attrs_locus(
            ["media.attributes", "media.attributes:flag-name+value", "media.attributes:valued-name-without-value"],
            &w.attributes,
            &g.attributes,
        ),
        at,
        &w.attributes,
        &g.attributes,
    );
}

/// locus of an attribute-list mismatch: named after the form of the first generated attribute that
/// did not come back in its place (a known name in the other form is its own class of failure)
fn attrs_locus(loci: [&'static str; 3], w: &[AttrC], g: &[AttrC]) -> &'static str {
    let i = w.iter().zip(g).position(|(a, b)| a != b).unwrap_or(w.len().min(g.len()));
    match w.get(i).and_then(attr_other_form) {
        Some("flag-name+value") => loci[1],
        Some(_) => loci[2],
        None => loci[0],
    }
}

fn cmp_session(w: &SdpCase, g: &SdpCase) -> Diff {
    let mut d = Diff::default();
    let at = "session";
    d.eq("origin.username", at, &w.origin.username, &g.origin.username);
    d.eq("origin.session_id", at, &w.origin.session_id, &g.origin.session_id);
    d.eq("origin.session_version", at, &w.origin.session_version, &g.origin.session_version);
    d.eq("origin.address", at, &w.origin.address, &g.origin.address);
    d.eq("session.name", at, &w.name, &g.name);
    cmp_conn(
        &mut d,
        ("session.connection.address", "session.connection.ttl", "session.connection.num"),
        at,
        &w.connection,
        &g.connection,
    );
    d.eq("session.bandwidth", at, &w.bandwidth, &g.bandwidth);
    d.eq("session.time", at, &w.time, &g.time);
    d.eq("session.direction", at, &w.direction, &g.direction);
    d.eq("session.ice-options", at, &w.ice_options, &g.ice_options);
    d.eq("session.ice-lite", at, &w.ice_lite, &g.ice_lite);
    d.eq("session.ice-ufrag", at, &w.ice_ufrag, &g.ice_ufrag);
    d.eq("session.ice-pwd", at, &w.ice_pwd, &g.ice_pwd);
    d.eq(
        attrs_locus(
            ["session.attributes", "session.attributes:flag-name+value", "session.attributes:valued-name-without-value"],
            &w.attributes,
            &g.attributes,
        ),
        at,
        &w.attributes,
        &g.attributes,
    );
    d.eq("media.count", at, &w.media.len(), &g.media.len());
    for (i, (a, b)) in w.media.iter().zip(&g.media).enumerate() {
        cmp_media(&mut d, &format!("media[{i}]"), a, b);
    }
    d
}

// ---------------------------------------------------------------------------------------------
// helpers
// ---------------------------------------------------------------------------------------------

fn parse(text: &str) -> Result<ez::SessionDescription, ez::ParseSessionDescriptionError> {
    let src = BytesStr::from(text);
    ez::SessionDescription::parse(&src)
}

const SKELETON: &str = "v=0\r\no=- 1 1 IN IP4 192.0.2.1\r\ns=-\r\nt=0 0\r\nm=audio 9 RTP/AVP 0\r\n";

/// which kinds of lines of `text` are rejected when parsed alone behind a fixed valid skeleton
/// (used only to give a re-parse error a narrow, data-free locus)
fn rejected_line_kinds(text: &str) -> Vec<&'static str> {
    let mut kinds: Vec<&'static str> = vec![];
    for line in text.split("\r\n") {
        if line.is_empty() {
            continue;
        }
        let (kind, _) = rf::classify(line);
        let doc = if matches!(kind, "v" | "o" | "s" | "t") {
            format!("{line}\r\n{SKELETON}")
        } else {
            format!("{SKELETON}{line}\r\n")
        };
        if parse(&doc).is_err() && !kinds.contains(&kind) {
            kinds.push(kind);
        }
    }
    kinds
}

fn shorten(s: &str) -> String {
    if s.chars().count() > 400 {
        format!("{}…", s.chars().take(400).collect::<String>())
    } else {
        s.to_string()
    }
}

fn is_pow2_exp(l: Option<u32>) -> bool {
    matches!(l, Some(v) if v != 0 && v & (v - 1) == 0)
}

/// class labels + non-triviality by the rule of DESIGN.md C19
fn classify_value(c: &SdpCase, out: &mut CaseOut) -> bool {
    out.class(match c.media.len() {
        0 => "media:0",
        1 => "media:1",
        2 => "media:2",
        3 => "media:3",
        _ => "media:4",
    });
    let mut interesting = false;
    let edge = std::cell::Cell::new(false);
    let e32 = |v: u32| {
        if v == 0 || v == u32::MAX {
            edge.set(true);
        }
    };
    if !c.ice_options.is_empty() {
        out.class("session:ice-options");
        interesting = true;
    }
    if c.ice_options.len() >= 2 {
        out.class("session:ice-options>=2");
    }
    if c.ice_lite {
        out.class("session:ice-lite");
    }
    if c.direction != DirC::SendRecv {
        out.class("session:direction-nondefault");
    }
    if let Some(conn) = &c.connection {
        out.class("session:connection");
        if conn.ttl.is_some() && conn.num.is_some() {
            out.class("connection:ttl+num");
        }
        conn.ttl.map(e32);
        conn.num.map(e32);
    }
    for t in [&c.origin.address] {
        match t {
            TaggedC::Ip6(_) => out.class("origin:ip6"),
            TaggedC::Ip4Fqdn(_) | TaggedC::Ip6Fqdn(_) => out.class("origin:fqdn"),
            _ => {}
        }
    }
    // host names that look like address literals, per place a tagged address can stand in
    {
        let mut sites: Vec<(u8, &TaggedC)> = vec![(0, &c.origin.address)];
        if let Some(conn) = &c.connection {
            sites.push((1, &conn.address));
        }
        for m in &c.media {
            if let Some(conn) = &m.connection {
                sites.push((1, &conn.address));
            }
            if let Some(TaggedC::Ip4Fqdn(_) | TaggedC::Ip6Fqdn(_)) = m.rtcp.as_ref().and_then(|r| r.address.as_ref()) {
                sites.push((2, m.rtcp.as_ref().unwrap().address.as_ref().unwrap()));
            }
        }
        for (site, t) in sites {
            let (six, shape) = match t {
                TaggedC::Ip4Fqdn(h) => (false, host_shape(h)),
                TaggedC::Ip6Fqdn(h) => (true, host_shape(h)),
                _ => continue,
            };
            match (six, shape) {
                (true, Some("ip4-literal")) => {
                    out.class(["origin:ip6fqdn=ip4-literal", "connection:ip6fqdn=ip4-literal", "rtcp:ip6fqdn=ip4-literal"][site as usize]);
                    interesting = true;
                }
                (true, Some("near-ip6-literal")) => out.class("addr:ip6fqdn-near-ip6-literal"),
                (true, Some(_)) => out.class("addr:ip6fqdn-near-ip4-literal"),
                (false, Some(_)) => out.class("addr:ip4fqdn-near-ip4-literal"),
                _ => {}
            }
        }
        for conn in c.connection.iter().chain(c.media.iter().filter_map(|m| m.connection.as_ref())) {
            if matches!(&conn.address, TaggedC::Ip6Fqdn(h) if host_shape(h) == Some("ip4-literal")) && conn.num.is_some() {
                out.class("connection:ip6fqdn=ip4-literal+num");
            }
        }
    }
    // repeated list elements (computed from the value, not from the generator's op)
    fn has_equal<T: PartialEq>(v: &[T]) -> bool {
        (0..v.len()).any(|i| (i + 1..v.len()).any(|j| v[i] == v[j]))
    }
    fn has_equal_apart<T: PartialEq>(v: &[T]) -> bool {
        (0..v.len()).any(|i| (i + 2..v.len()).any(|j| v[i] == v[j] && v[i + 1] != v[i]))
    }
    fn same_key<T, K: PartialEq>(v: &[T], key: impl Fn(&T) -> K) -> bool
    where
        T: PartialEq,
    {
        (0..v.len()).any(|i| (i + 1..v.len()).any(|j| v[i] != v[j] && key(&v[i]) == key(&v[j])))
    }
    if has_equal(&c.bandwidth) || has_equal(&c.ice_options) || has_equal(&c.attributes) {
        out.class("repeat:session-level-list-element");
    }
    if has_equal(&c.media) {
        out.class("repeat:equal-media-sections");
        interesting = true;
    }
    {
        let all: Vec<(usize, &CandC)> = c.media.iter().enumerate().flat_map(|(i, m)| m.candidates.iter().map(move |x| (i, x))).collect();
        if (0..all.len()).any(|i| (i + 1..all.len()).any(|j| all[i].0 != all[j].0 && all[i].1 == all[j].1)) {
            out.class("repeat:candidate-in-two-sections");
            interesting = true;
        }
    }
    if !c.attributes.is_empty() {
        out.class("session:unknown-attr");
    }
    let has_uws = |s: &str| s.chars().any(is_unicode_only_ws);
    let has_exotic = |s: &str| s.chars().any(|ch| EXOTIC_TOKEN_CHARS.contains(&ch));
    let edge_uws = |s: &str| s.chars().next().map_or(false, is_unicode_only_ws) || s.chars().last().map_or(false, is_unicode_only_ws);
    for t in [&c.origin.username, &c.origin.session_id, &c.origin.session_version] {
        if has_uws(t) {
            out.class("origin:token-with-unicode-ws");
            interesting = true;
        } else if has_exotic(t) {
            out.class("origin:token-with-invisible-char");
        }
    }
    if edge_uws(&c.name) {
        out.class("text:unicode-ws-at-edge");
    }
    let attr_classes = |a: &AttrC, media_level: bool, out: &mut CaseOut| -> bool {
        if a.value.as_deref().map_or(false, edge_uws) {
            out.class("text:unicode-ws-at-edge");
        }
        match attr_other_form(a) {
            Some("flag-name+value") => {
                out.class(if media_level { "attr:flag-name+value@media" } else { "attr:flag-name+value@session" });
                if a.name == "end-of-candidates" {
                    out.class("attr:end-of-candidates+value");
                } else {
                    out.class("attr:direction-name+value");
                }
                if a.value.as_deref() == Some("") {
                    out.class("attr:flag-name+empty-value");
                }
                return true;
            }
            Some(_) => {
                out.class(if media_level { "attr:valued-name-without-value@media" } else { "attr:valued-name-without-value@session" });
                return true;
            }
            None => {}
        }
        match near_miss_kind(&a.name, &KNOWN_ATTR_NAMES) {
            Some("case-variant") => {
                out.class("attr:name-case-variant-of-known");
                true
            }
            Some("part-of-wellknown") => {
                out.class("attr:name-part-of-known");
                true
            }
            Some(_) => {
                out.class("attr:name-extending-known");
                false
            }
            None => false,
        }
    };
    for a in &c.attributes {
        interesting |= attr_classes(a, false, out);
    }
    for b in &c.bandwidth {
        e32(b.bandwidth);
    }
    if c.time.0 == u64::MAX || c.time.1 == u64::MAX {
        edge.set(true);
    }
    for m in &c.media {
        match &m.proto {
            ProtoC::Udp => out.class("proto:udp"),
            ProtoC::RtpAvp => out.class("proto:RTP/AVP"),
            ProtoC::RtpSavp => out.class("proto:RTP/SAVP"),
            ProtoC::RtpSavpf => out.class("proto:RTP/SAVPF"),
            ProtoC::Other(s) => match near_miss_kind(s, &PROTO_NAMES) {
                Some("case-variant") => {
                    out.class("proto:other-case-variant-of-wellknown");
                    interesting = true;
                }
                Some("part-of-wellknown") => {
                    out.class("proto:other-part-of-wellknown");
                    interesting = true;
                }
                Some(_) => {
                    out.class("proto:other-extending-wellknown");
                    interesting = true;
                }
                None => out.class("proto:other"),
            },
        }
        if m.port == 0 || m.port == u16::MAX {
            edge.set(true);
        }
        if let Some(n) = m.ports_num {
            out.class("media:ports_num");
            e32(n);
        }
        for f in &m.fmts {
            e32(*f);
        }
        if m.fmts.is_empty() {
            out.class("media:no-fmts");
        }
        if m.connection.is_some() {
            out.class("media:connection");
        }
        if !m.bandwidth.is_empty() {
            out.class("media:bandwidth");
        }
        if let Some(r) = &m.rtcp {
            out.class(if r.address.is_some() { "rtcp:with-address" } else { "rtcp:port-only" });
        }
        if !m.rtpmaps.is_empty() {
            out.class("media:rtpmap");
        }
        if m.rtpmaps.iter().any(|r| r.params.is_some()) {
            out.class("rtpmap:params");
        }
        if !m.fmtps.is_empty() {
            out.class("media:fmtp");
        }
        if m.ice_ufrag.is_some() || m.ice_pwd.is_some() {
            out.class("media:ice-credentials");
        }
        if !m.candidates.is_empty() {
            out.class("media:candidates");
            interesting = true;
        }
        for cand in &m.candidates {
            if cand.rel_addr.is_some() || cand.rel_port.is_some() {
                out.class("candidate:raddr/rport");
            }
            if !cand.unknown.is_empty() {
                out.class("candidate:extension-pairs");
            }
            let toks = [&cand.transport, &cand.typ].into_iter().chain(cand.unknown.iter().flat_map(|(k, v)| [k, v]));
            if toks.clone().any(|t| has_uws(t)) {
                out.class("candidate:token-with-unicode-ws");
                interesting = true;
            }
            for (k, _) in &cand.unknown {
                match near_miss_kind(k, &CAND_KEYWORDS) {
                    Some("case-variant") => out.class("candidate:ext-key-case-variant-of-keyword"),
                    Some("part-of-wellknown") => out.class("candidate:ext-key-part-of-keyword"),
                    _ => {}
                }
            }
            match cand.address {
                UntaggedC::V4(_) => out.class("candidate:ip4"),
                UntaggedC::V6(_) => out.class("candidate:ip6"),
                UntaggedC::Fqdn(_) => out.class("candidate:fqdn"),
            }
            if cand.priority == 0 || cand.priority == u64::MAX {
                edge.set(true);
            }
        }
        if m.end_of_candidates {
            out.class("media:end-of-candidates");
        }
        if has_equal(&m.candidates) {
            out.class("repeat:candidate");
            interesting = true;
            if has_equal_apart(&m.candidates) {
                out.class("repeat:candidate-not-adjacent");
            }
        }
        {
            let cand_fields_differing = |a: &CandC, b: &CandC| -> usize {
                [
                    a.foundation != b.foundation,
                    a.component != b.component,
                    a.transport != b.transport,
                    a.priority != b.priority,
                    a.address != b.address,
                    a.port != b.port,
                    a.typ != b.typ,
                    a.rel_addr != b.rel_addr,
                    a.rel_port != b.rel_port,
                    a.unknown != b.unknown,
                ]
                .iter()
                .filter(|x| **x)
                .count()
            };
            let l = &m.candidates;
            if (0..l.len()).any(|i| (i + 1..l.len()).any(|j| cand_fields_differing(&l[i], &l[j]) == 1)) {
                out.class("repeat:candidate-one-field-differs");
                interesting = true;
            }
        }
        if has_equal(&m.fmts) {
            out.class("repeat:fmt");
        }
        if has_equal(&m.bandwidth) || has_equal(&m.rtpmaps) || has_equal(&m.fmtps) || has_equal(&m.attributes) {
            out.class("repeat:bandwidth/rtpmap/fmtp/attribute");
            interesting = true;
        }
        if has_equal(&m.crypto) {
            out.class("repeat:crypto-line");
            interesting = true;
        }
        if m.crypto.iter().any(|cr| has_equal(&cr.keys) || has_equal(&cr.params)) {
            out.class("repeat:crypto-key/param");
        }
        if m.candidates.iter().any(|x| has_equal(&x.unknown)) {
            out.class("repeat:candidate-extension-pair");
        }
        if same_key(&m.rtpmaps, |r| r.payload)
            || same_key(&m.fmtps, |f| f.format)
            || same_key(&m.crypto, |cr| cr.tag)
            || same_key(&m.bandwidth, |b| b.type_.clone())
            || same_key(&m.attributes, |a| a.name.clone())
        {
            out.class("repeat:same-key-different-content");
        }
        for cand in &m.candidates {
            for a in [Some(&cand.address), cand.rel_addr.as_ref()].into_iter().flatten() {
                if let UntaggedC::Fqdn(h) = a {
                    match host_shape(h) {
                        Some("near-ip6-literal") => out.class("candidate:fqdn-near-ip6-literal"),
                        Some(_) => out.class("candidate:fqdn-near-ip4-literal"),
                        None => {}
                    }
                }
            }
        }
        if !m.crypto.is_empty() {
            out.class("media:crypto");
            interesting = true;
        }
        for cr in &m.crypto {
            match &cr.suite {
                SuiteC::Known(_) => out.class("suite:well-known"),
                SuiteC::Ext(s) => out.class(match near_miss_kind(s, &SUITE_NAMES) {
                    Some("case-variant") => "suite:ext-case-variant-of-wellknown",
                    Some("part-of-wellknown") => "suite:ext-part-of-wellknown",
                    Some(_) => "suite:ext-extending-wellknown",
                    None => "suite:ext",
                }),
            }
            e32(cr.tag);
            if cr.keys.len() > 1 {
                out.class("crypto:keys>=2");
            }
            for k in &cr.keys {
                match k.lifetime {
                    None => out.class("key:lifetime-none"),
                    Some(_) if is_pow2_exp(k.lifetime) => out.class("key:lifetime-2^n"),
                    Some(_) => out.class("key:lifetime-plain"),
                }
                if k.lifetime == Some(1 << 31) {
                    out.class("key:lifetime-2^31");
                    edge.set(true);
                }
                if k.mki.is_some() {
                    out.class("key:mki");
                }
            }
            for p in &cr.params {
                out.class(match p {
                    ParamC::Kdr(_) => "param:KDR",
                    ParamC::UnencryptedSrtp => "param:UNENCRYPTED_SRTP",
                    ParamC::UnencryptedSrtcp => "param:UNENCRYPTED_SRTCP",
                    ParamC::UnauthenticatedSrtp => "param:UNAUTHENTICATED_SRTP",
                    ParamC::FecOrderFecSrtp | ParamC::FecOrderSrtpFec => "param:FEC_ORDER",
                    ParamC::FecKey(_) => "param:FEC_KEY",
                    ParamC::Wsh(_) => "param:WSH",
                    ParamC::Ext(_) => "param:ext",
                });
                if let ParamC::Ext(s) = p {
                    match param_ext_form(s) {
                        Some("keyed-name+signed-number") => out.class("param:ext-keyed-name+signed-number"),
                        Some("keyed-name+number-above-u32") => out.class("param:ext-keyed-name+number-above-u32"),
                        Some("keyed-name+non-number") => out.class("param:ext-keyed-name+non-number"),
                        Some("FEC_ORDER+other-value") => out.class("param:ext-FEC_ORDER+other-value"),
                        Some("FEC_KEY+non-key-params") => out.class("param:ext-FEC_KEY+non-key-params"),
                        Some("keyed-name-without-=") => out.class("param:ext-keyed-name-without-="),
                        Some("flag-name+=value") => out.class("param:ext-flag-name+=value"),
                        _ => {}
                    }
                    let name_end = s.find('=').map_or(s.len(), |i| i + 1);
                    let keyed = ["KDR=", "FEC_ORDER=", "FEC_KEY=", "WSH="];
                    if near_miss_kind(s, &PARAM_FLAGS) == Some("case-variant")
                        || near_miss_kind(&s[..name_end], &keyed) == Some("case-variant")
                    {
                        out.class("param:ext-case-variant-of-wellknown");
                    } else if near_miss_kind(s, &PARAM_FLAGS) == Some("part-of-wellknown") {
                        out.class("param:ext-part-of-wellknown");
                    }
                }
            }
        }
        if !m.attributes.is_empty() {
            out.class("media:unknown-attr");
        }
        for a in &m.attributes {
            interesting |= attr_classes(a, true, out);
            // the shapes in which a flag read from a valued line would change the section visibly
            if attr_other_form(a) == Some("flag-name+value") {
                if a.name == "end-of-candidates" && !m.end_of_candidates {
                    out.class("attr:end-of-candidates+value,flag-unset");
                } else if a.name != "end-of-candidates" && a.name != rf::dir_token(m.direction) {
                    out.class("attr:direction-name+value,other-than-section-direction");
                }
            }
        }
        for f in &m.fmtps {
            if edge_uws(&f.params) {
                out.class("fmtp:unicode-ws-at-edge");
            }
        }
    }
    if edge.get() {
        out.class("numeric-edge");
        interesting = true;
    }
    if c.media.len() >= 2 && c.media.windows(2).any(|w| w[0] != w[1]) {
        out.class("media:>=2-different");
        interesting = true;
    }
    !c.media.is_empty() && interesting
}

// ---------------------------------------------------------------------------------------------
// (b) roundtrip
// ---------------------------------------------------------------------------------------------

fn check_roundtrip(case: &SdpCase, out: &mut CaseOut) {
    if classify_value(case, out) {
        out.nontrivial(case);
    }
    let value = to_ezk(case);
    let printed = value.to_string();

    // (b3) independent line scanner: media-level lines stay inside their section
    for (seg, kind, line) in rf::scan_placement(case, &printed) {
        out.fail(
            format!("c19.scan/misplaced:{kind}"),
            format!(
                "printed line {:?} appears in segment {seg} (0 = session part, i = after the i-th m= line) where the value has no such item; output: {:?}",
                shorten(&line),
                shorten(&printed)
            ),
        );
    }

    // (b1) print -> parse -> field-wise equal to the generated value
    let mut reported: Vec<&'static str> = vec![];
    match parse(&printed) {
        Err(e) => {
            let kinds = rejected_line_kinds(&printed);
            if kinds.is_empty() {
                out.fail(
                    "c19.roundtrip/reparse-error:whole",
                    format!("ezk rejects its own output ({e}); output: {:?}", shorten(&printed)),
                );
            }
            for k in kinds {
                out.fail(
                    format!("c19.roundtrip/reparse-error:{k}"),
                    format!(
                        "ezk rejects its own output ({}) — a `{k}` line it printed does not parse; output: {:?}",
                        shorten(&e.to_string()),
                        shorten(&printed)
                    ),
                );
            }
        }
        Ok(back) => {
            let got = from_ezk(&back);
            let d = cmp_session(case, &got);
            for (locus, msg) in &d.items {
                reported.push(locus);
                out.fail(
                    format!("c19.roundtrip/{locus}"),
                    format!("{msg}; printed: {:?}", shorten(&printed)),
                );
            }
            // (b2) printing is a fixpoint (only meaningful once the values agree)
            if d.items.is_empty() {
                let again = back.to_string();
                if again != printed {
                    out.fail(
                        "c19.fixpoint/print-parse-print",
                        format!("print(parse(print(v))) = {:?} differs from print(v) = {:?}", shorten(&again), shorten(&printed)),
                    );
                }
            }
        }
    }

    // (b4) the reference rendering of the same value parses to the same value
    let reference = rf::ref_print(case);
    match parse(&reference) {
        Err(e) => {
            for k in rejected_line_kinds(&reference) {
                // a line kind ezk cannot even re-read from its own output is already reported
                if !out.failures.iter().any(|f| f.sig == format!("c19.roundtrip/reparse-error:{k}")) {
                    out.fail(
                        format!("c19.parse-ref/error:{k}"),
                        format!("reference SDP rejected ({}): {:?}", shorten(&e.to_string()), shorten(&reference)),
                    );
                }
            }
        }
        Ok(back) => {
            let got = from_ezk(&back);
            for (locus, msg) in cmp_session(case, &got).items {
                if !reported.contains(&locus) {
                    out.fail(
                        format!("c19.parse-ref/{locus}"),
                        format!("{msg}; reference SDP: {:?}", shorten(&reference)),
                    );
                }
            }
        }
    }
    if out.note.is_none() {
        out.note = Some(shorten(&printed));
    }
}

// ---------------------------------------------------------------------------------------------
// (a) parse_text
// ---------------------------------------------------------------------------------------------

#[derive(Clone, Debug, Serialize, Deserialize)]
pub struct TextCase {
    pub kind: String,
    pub text: String,
}

fn text_cases() -> BoxedStrategy<TextCase> {
    let tc = |k: &'static str| move |text: String| TextCase { kind: k.to_string(), text };
    let mutated = (session(), proptest::collection::vec(mutation(), 1..=4)).prop_map(|(v, muts)| {
        let mut t = rf::ref_print(&v);
        for m in &muts {
            t = apply_mutation(&t, m);
        }
        t
    });
    let lf_only = session().prop_map(|v| rf::ref_print(&v).replace("\r\n", "\n"));
    prop_oneof![
        2 => "(?s).{0,200}".prop_map(tc("utf8")),
        2 => "[ -~\r\n]{0,300}".prop_map(tc("ascii")),
        3 => "([vosctbmaz]=[ -~]{0,30}\r?\n){0,12}".prop_map(tc("lines")),
        2 => "(a=(crypto|candidate|rtpmap|fmtp|rtcp|ice-options|ice-ufrag|ice-pwd|ice-lite|end-of-candidates|sendrecv|x):?[ -~]{0,40}\r\n|m=(audio|video|text|application|image)[ -~]{0,30}\r\n|[ocbt]=[ -~]{0,30}\r\n|.{0,3}\r\n){0,10}".prop_map(tc("lines")),
        6 => hostile_doc().prop_map(tc("hostile-numbers")),
        9 => mutated.prop_map(tc("mutated-valid")),
        1 => lf_only.prop_map(tc("valid-lf")),
    ]
    .boxed()
}

fn check_parse_text(case: &TextCase, out: &mut CaseOut) {
    out.class(match case.kind.as_str() {
        "utf8" => "gen:utf8",
        "ascii" => "gen:ascii",
        "lines" => "gen:line-shaped",
        "hostile-numbers" => "gen:hostile-numbers",
        "mutated-valid" => "gen:mutated-valid",
        "valid-lf" => "gen:valid-lf",
        _ => "gen:other",
    });
    let text = &case.text;
    // the call under test; a panic (incl. arithmetic overflow) is recorded by the engine
    let r = parse(text);
    match &r {
        Ok(sd) => {
            out.class("parsed");
            if !sd.media_descriptions.is_empty() {
                out.class("parsed:with-media");
            }
            if sd.media_descriptions.iter().any(|m| !m.crypto.is_empty()) {
                out.class("parsed:with-crypto");
            }
            if sd.media_descriptions.iter().any(|m| !m.ice_candidates.is_empty()) {
                out.class("parsed:with-candidate");
            }
            // what parsed must also print without panicking
            let _ = sd.to_string();
        }
        Err(_) => out.class("rejected"),
    }
    if text.contains("2^") {
        out.class("text:has-2^n");
        let big = text.split("2^").skip(1).any(|rest| {
            let digits: String = rest.chars().take_while(|c| c.is_ascii_digit()).collect();
            digits.parse::<u64>().map_or(!digits.is_empty(), |n| n >= 32)
        });
        if big {
            out.class("text:has-2^n,n>=32");
        }
    }
    if text.split(|c: char| !c.is_ascii_digit()).any(|run| run.len() >= 11) {
        out.class("text:number>=11-digits");
    }
    // non-trivial: at least one `<letter>=` line reaches a field parser
    let reaches = text
        .split(['\r', '\n'])
        .any(|l| l.len() > 2 && l.as_bytes()[1] == b'=' && b"osctbma".contains(&l.as_bytes()[0]));
    if reaches {
        out.nontrivial(text);
    }
}

// ---------------------------------------------------------------------------------------------
// (c) whole_token
// ---------------------------------------------------------------------------------------------

#[derive(Clone, Copy, Debug, PartialEq, Eq, Serialize, Deserialize)]
pub enum Site {
    MediaType,
    Proto,
    Suite,
}

#[derive(Clone, Debug, Serialize, Deserialize)]
pub struct TokenCase {
    pub base: SdpCase,
    /// used when the chosen media section has no crypto line
    pub spare_crypto: CryptoC,
    pub site: Site,
    pub media_sel: u16,
    pub crypto_sel: u16,
    /// which well-known token is extended
    pub known_sel: u16,
    pub suffix: String,
}

fn token_cases() -> BoxedStrategy<TokenCase> {
    let site = prop_oneof![Just(Site::MediaType), Just(Site::Proto), Just(Site::Suite)];
    (
        session_with_media(),
        crypto_line(),
        site,
        any::<u16>(),
        any::<u16>(),
        any::<u16>(),
        // one token character, occasionally two
        prop_oneof![10 => "[A-Za-z0-9_]", 3 => "/", 1 => "/[A-Za-z0-9]", 2 => "[A-Za-z0-9_/]{2}"],
    )
        .prop_map(|(base, spare_crypto, site, media_sel, crypto_sel, known_sel, mut suffix)| {
            // '/' only where the grammar allows it: proto = token *("/" token)
            if site != Site::Proto {
                suffix = suffix.replace('/', "_");
            }
            TokenCase {
                base,
                spare_crypto,
                site,
                media_sel,
                crypto_sel,
                known_sel,
                suffix,
            }
        })
        .boxed()
}

#[allow(unreachable_patterns)]
fn observed_media_type_token(t: &ez::MediaType) -> String {
    match from_media_type(t) {
        Ok(m) => rf::media_type_token(m).to_string(),
        // a catch-all variant a fix may add: observed through its Display
        Err(_) => t.to_string(),
    }
}

fn check_whole_token(case: &TokenCase, out: &mut CaseOut) {
    let mut base = case.base.clone();
    if base.media.is_empty() {
        return;
    }
    let mi = pick_idx(case.media_sel, base.media.len());
    if case.site == Site::Suite && base.media[mi].crypto.is_empty() {
        base.media[mi].crypto.push(case.spare_crypto.clone());
    }
    let ci = pick_idx(case.crypto_sel, base.media[mi].crypto.len());
    let mut lines = rf::ref_lines(&base);
    let (known, whole): (&str, String) = match case.site {
        Site::MediaType => {
            let k = MEDIA_TYPE_NAMES[pick_idx(case.known_sel, MEDIA_TYPE_NAMES.len())];
            (k, format!("{k}{}", case.suffix))
        }
        Site::Proto => {
            let k = PROTO_NAMES[pick_idx(case.known_sel, PROTO_NAMES.len())];
            (k, format!("{k}{}", case.suffix))
        }
        Site::Suite => {
            let k = SUITE_NAMES[pick_idx(case.known_sel, SUITE_NAMES.len())];
            (k, format!("{k}{}", case.suffix))
        }
    };
    let m = &base.media[mi];
    let (kind, index, new_text) = match case.site {
        Site::MediaType => ("m", 0, rf::media_line(m, &whole, rf::proto_token(&m.proto))),
        Site::Proto => ("m", 0, rf::media_line(m, rf::media_type_token(m.media_type), &whole)),
        Site::Suite => ("crypto", ci, rf::crypto_line(&m.crypto[ci], &whole)),
    };
    let Some(line) = lines
        .iter_mut()
        .find(|l| l.section == mi + 1 && l.kind == kind && l.index == index)
    else {
        out.fail("c19.whole_token/harness", "reference printer did not produce the target line");
        return;
    };
    line.text = new_text.clone();
    let text = rf::join_lines(&lines);

    out.class(match case.site {
        Site::MediaType => "site:media-type",
        Site::Proto => "site:proto",
        Site::Suite => "site:suite",
    });
    let c0 = case.suffix.chars().next().unwrap_or('x');
    out.class(if c0.is_ascii_digit() {
        "suffix:digit"
    } else if c0.is_ascii_alphabetic() {
        "suffix:letter"
    } else if c0 == '_' {
        "suffix:_"
    } else {
        "suffix:/"
    });
    out.nontrivial(&(case.site as u8, known, &case.suffix, mi, &new_text));
    out.note = Some(new_text.clone());

    let parsed = match parse(&text) {
        Err(_) => {
            out.class("result:rejected");
            return;
        }
        Ok(p) => p,
    };
    let Some(pm) = parsed.media_descriptions.get(mi) else {
        out.fail(
            "c19.whole_token/section-lost",
            format!("line {new_text:?} accepted but media section {mi} does not exist in the result"),
        );
        return;
    };
    let site_name = match case.site {
        Site::MediaType => "media-type",
        Site::Proto => "proto",
        Site::Suite => "suite",
    };
    let observed: String = match case.site {
        Site::MediaType => observed_media_type_token(&pm.media.media_type),
        Site::Proto => rf::proto_token(&from_proto(&pm.media.proto)).to_string(),
        Site::Suite => match pm.crypto.get(ci) {
            Some(c) => rf::suite_token(&from_suite(&c.suite)).to_string(),
            None => {
                out.fail(
                    "c19.whole_token/crypto-line-lost",
                    format!("line {new_text:?} accepted but crypto line {ci} of section {mi} does not exist in the result"),
                );
                return;
            }
        },
    };
    if observed != whole {
        let how = if observed == known { "prefix" } else { "other" };
        out.fail(
            format!("c19.whole_token/{site_name}-{how}"),
            format!(
                "token {whole:?} in line {new_text:?} was accepted as {observed:?} (must be an error or the whole token)"
            ),
        );
        return;
    }
    out.class("result:whole-token");
    // the rest of the line must be untouched by the longer token
    let gm = from_media(pm);
    let intact = match case.site {
        Site::MediaType | Site::Proto => gm.port == m.port && gm.ports_num == m.ports_num && gm.fmts == m.fmts,
        Site::Suite => {
            let gc = &gm.crypto[ci];
            gc.tag == m.crypto[ci].tag && gc.keys == m.crypto[ci].keys && gc.params == m.crypto[ci].params
        }
    };
    // ... by the longer token: a field that reads the same way when the line carries the well-known
    // token itself is not damaged by the token (a value that does not survive print -> parse at all
    // is the round trip's finding, reported there under the name of the field)
    let same_without_suffix = || {
        let Ok(plain) = parse(&rf::ref_print(&base)) else { return false };
        let Some(pm0) = plain.media_descriptions.get(mi) else { return false };
        let g0 = from_media(pm0);
        match case.site {
            Site::MediaType | Site::Proto => g0.port == gm.port && g0.ports_num == gm.ports_num && g0.fmts == gm.fmts,
            Site::Suite => g0.crypto.get(ci).map_or(false, |c0| {
                let gc = &gm.crypto[ci];
                c0.tag == gc.tag && c0.keys == gc.keys && c0.params == gc.params
            }),
        }
    };
    if !intact && same_without_suffix() {
        out.class("result:fields-differ-independent-of-token");
    } else if !intact {
        out.fail(
            format!("c19.whole_token/{site_name}-line-damaged"),
            format!("line {new_text:?}: token accepted whole but the remaining fields changed: {:?}", pm),
        );
    }
}

// ---------------------------------------------------------------------------------------------

fn seed_corpus_sdp(dir: &std::path::Path) {
    for (i, c) in sample_strategy(&crate::gen::sdp::session(), 5, 250).into_iter().enumerate() {
        let _ = std::fs::write(dir.join(format!("gen-{i:03}")), crate::refmodel::sdp::ref_print(&c));
    }
}

pub fn property() -> Property {
    Property {
        fuzz: vec![FuzzStage { target: "sdp", runs: 2_000_000, max_len: 4096, seed_corpus: seed_corpus_sdp }],
        id: "C19",
        rule: "roundtrip: a generated SessionDescription value is non-trivial when it has >=1 media section and at least one of: >=2 \
               different sections, a candidate / crypto line / ice-options, an Other proto / unknown attribute name that is a near miss \
               of a well-known token (extends it, is a part of it, differs in letter case only), an unknown attribute that is a known \
               name in the other form (flag name + value, valued name without value), an origin / candidate token \
               holding a non-ASCII white-space code point, an IP6FQDN whose text is a dotted quad, a repeated (equal, or for \
               candidates differing in one field) element in a media-level list, two equal media sections, one candidate in two \
               sections, a numeric field at a range edge; distinct = hash of the whole value. parse_text: non-trivial when at least one `<o|s|c|t|b|m|a>=` \
               line reaches a field parser; distinct = hash of the text. whole_token: every case (site, well-known token, suffix, \
               section, line) is non-trivial.",
        assumptions: vec![
            "values stay inside each field's documented grammar (see gen/sdp.rs module doc): no empty key list / FecKey([]), no fmtp \
             params with leading ASCII blank, unknown attributes / Ext params / Other tokens never spelled exactly (byte for byte) \
             like a known one in the form the crate interprets — a different letter case IS a different token, and so is a \
             flag name with a value (a=sendonly:x), a valued name without one (a=rtpmap), KDR= / WSH= with a text that is not \
             1*DIGIT within u32 (KDR=+5, WSH=4294967296), FEC_ORDER= / FEC_KEY= with a text outside their grammar: those ARE \
             generated, only the catch-all variant can hold them; never generated: ice-lite as an unknown attribute in either \
             form (the crate reads both), KDR=/WSH= + digits within u32 incl. leading zeros —, IP4 connection `num` only with `ttl`, the host \
             text of IP4FQDN is never an IPv4 literal, of IP6FQDN never an IPv6 literal, of a candidate Fqdn never a literal of \
             either family (the API holds those as IP4 / IP6 / IpAddress); a dotted quad under the IP6 tag IS generated, it can \
             only be IP6FQDN",
            "lists are ordered multisets: equal elements may occur more than once in every Vec of the public structs and each \
             occurrence is printed as its own line / token",
            "SDP fields are separated by ASCII blanks only (RFC 8866 SP); code points >= U+0080, including the ones Unicode \
             classifies as white space, are content of non-ws-string tokens and of text fields",
            "the reference rendering uses RFC 8866/8839/4568 syntax with single blanks, the same syntax ezk's own unit tests use",
        ],
        explanation: "Sampled, not exhaustive: 16 independent proptest shards per sub-check. Values are drawn over every field of the \
                      public SessionDescription/MediaDescription structs (0..4 media sections, 5 when one is repeated; 0..n of each attribute \
                      incl. n equal ones and near duplicates; host names incl. look-alikes of address literals; integers over \
                      their full range with weight on 0/MAX/powers of two; tokens with non-ASCII white space / invisible code points; \
                      catch-all tokens as case variants, prefixes, suffixes and extensions of every well-known token, and as a \
                      well-known name in the form the crate does not interpret: flag attribute names with a value, valued attribute \
                      names without one, keyed SRTP session parameters with signed / overflowing / non-numeric numbers or a value \
                      outside their grammar); texts are arbitrary UTF-8, line-shaped ASCII, \
                      grammar-derived lines with numbers up to 41 digits and 2^n with n<=99, and 1..4 char/line/number mutations of \
                      valid reference SDP.",
        subs: vec![
            prop_sub("parse_text", text_cases, 5000, 100_000, check_parse_text),
            prop_sub("roundtrip", session, 3000, 100_000, check_roundtrip),
            prop_sub("whole_token", token_cases, 1500, 30_000, check_whole_token),
        ],
    }
}
