//! C14 — A sips: target is never sent in clear; target and transport selection are sound
//!
//! Eight sub-checks share one scenario executor and one oracle walk:
//!
//! * `config` — the finite configuration space, enumerated exhaustively (one request per configuration,
//!   target URI built through the `SipUri` builder API);
//! * `bound-addr` — what the configured datagram transports report as `bound()`: besides the concrete
//!   addresses of `config` (10.0.0.1, fd00::1) the IPv4 wildcard 0.0.0.0 and loopback 127.0.0.1, the IPv6
//!   wildcard `[::]` (a dual-stack socket on many hosts), loopback `[::1]` and an IPv4-mapped address
//!   `[::ffff:10.0.0.1]`; enumerated over every non-empty datagram subset x bind variant per family (thorough:
//!   per transport) x factories {absent, connects, refuses}^2 x registration order x pre-existing connection
//!   x sip/sips x destination family. The reference takes "address family" as the family of the socket
//!   address (`SocketAddr::is_ipv6` of the generated bound address): `[::]` and `[::ffff:a.b.c.d]` are IPv6
//!   addresses and never carry a request to an IPv4 destination, 0.0.0.0 never one to an IPv6 destination -
//!   such a request falls through to connection reuse / factories / failure like with no datagram transport
//!   of the destination's family. `sequence` draws the bind variants per transport too;
//! * `uri-text` — the target URI is TEXT that goes through one of ezk's URI readers before it becomes the
//!   request target (`SipUri::from_str`, `Endpoint::parse_uri`, the request line / the Contact header
//!   (name-addr and bare addr-spec form) of a received message); enumerated: scheme spelling (lower, UPPER,
//!   Capitalised, mIxed — RFC 3261 19.1.1 / RFC 3986 3.1: the scheme is case-insensitive) x sip/sips x user
//!   part (none, user, user:password) x host (IPv4, IPv6 lower/upper case hex) x port x uri/header
//!   parameters that say nothing about the transport x 8 endpoint configurations. The reference never sees
//!   the text: the text is rendered from the generated (sips, ip, port) triple;
//! * `uri-param` — the target URI carries a uri-parameter that speaks about routing: `;transport=` {tcp, udp,
//!   tls, TCP, sctp; thorough also Tls, UDP, ws} and / or `;maddr=` {a host of the URI host's address family, a
//!   host of the other family}, written in front of or behind other uri-parameters, set through the builder
//!   API (`uri_param_value`) or read from text by one of ezk's readers; enumerated over datagram sets x factory
//!   {absent, connects, refuses}^2 x registration order x pre-existing connection x sip/sips x family x port.
//!   The statement does not mention either parameter, so `ref_select::readings` admits every reading: the
//!   parameter is ignored (what the pinned tree does) or honoured (`transport=` narrows the candidates to the
//!   named transport - which may leave none, so a failure is accepted; `maddr=` replaces the host).  Under no
//!   reading may a sips URI leave over a transport that does not report itself secure, and the port rule,
//!   the datagram family rule and pin reuse hold per reading.  Route entries may carry `;transport=` too
//!   (`route`, `sequence`);
//! * `followup` — what the transaction emits AFTER the first transmission: the request is an INVITE or an
//!   OPTIONS that is driven (`receive()` polled); virtual time passes (retransmissions over datagram
//!   transports) and scripted responses (180, 486) are delivered to the endpoint over a chosen transport: the
//!   carrying one, any configured datagram transport, a transport outside the configuration, a pre-existing
//!   connection, from the request's destination or (datagram) from the port next to it. Transaction matching
//!   does not look at the transport or source a response arrived with, so the ACK for
//!   the non-2xx final (a request to the same URI, the only request that bypasses `Transports::select`) and
//!   its copy for a retransmitted final have a "choice"; enumerated over configurations x scripts;
//! * `route` — header content of the request: a pre-loaded route set of 1..2 Route entries (topmost entry
//!   sip/sips x loose (`;lr`) / strict x host {an IPv4 proxy, an IPv6 proxy, the Request-URI's host} x
//!   {no port, :5077}, written `<uri>`, `"Proxy" <uri>;x=1` or with a user part; two entries as two headers or
//!   one comma separated header) and decoy URIs (an insecure own Contact, a To URI with the other scheme on
//!   another host), combined with the scheme / family of the Request-URI, 16 endpoint configurations and an
//!   empty / pinned target info; enumerated.  The Request-URI and the topmost Route entry are two URIs with two
//!   schemes: `ref_select::readings` lists every reading of "the target" the statement admits (Request-URI as it
//!   stands = what the pinned tree does; topmost entry as next hop with the sips requirement of either URI
//!   carried over, RFC 3261 8.1.2) and an observation is accepted when it is clean under any of them.  No
//!   reading lets a sips Request-URI leave over an insecure transport;
//! * `pin-history` — ONE target info object is used for 1..4 consecutive requests (the way sip-ua keeps one per
//!   dialog): the caller pins a transport outside the configuration (datagram-like or reporting
//!   `reliable()`), a connection it opened itself, or lets ezk fill the empty target info in with a first
//!   request; then requests whose first `Transport::send` call FAILS (transient io::Error injected through
//!   `WireLog::fail_calls` for datagram mocks / `PeerConn::write_faults` for connections: nothing reaches the
//!   wire, the transport stays usable) precede the request under test, which must still go over the pinned
//!   transport to the pinned destination; enumerated over pin kind x history x configuration x target;
//! * `sequence` — random sequences of 2..6 requests against ONE endpoint, so that the connections opened by
//!   earlier requests (held, released, expired) are the pre-existing ones for the later requests; every step
//!   draws URI form, method and follow-up script as above, plus route set / decoy headers, a send fault for
//!   the first transmission, and what the caller pins (nothing; the very target info object of an earlier
//!   held request - used in place, not a copy; an external transport; a connection the caller opened).
//!
//! The executor only drives ezk and records what the mocks saw; every transmission is attributed to its
//! request by Call-ID with the independent wire reader. The verdict is computed afterwards by
//! `refmodel::ref_select` (decision table written from the statement, no ezk code): `judge` for the first
//! transmission (selection), `judge_later` for retransmissions and ACKs.
//!
//! A request whose first send was made to fail may be reported as failed (liveness and `c14.pin/failed` are
//! not asserted for it); whatever did leave is judged as usual.  What a kept target info pins is what the
//! CALLER put there (or what ezk stored for the unpinned request that succeeded); for a pinned request it is
//! never read back from the object after the call, so a stack that edits the caller's pin is seen by the next
//! request going elsewhere.
//!
//! Not asserted: which of the readings a request with a Route header follows (next hop = Request-URI or
//! topmost entry); the content of the target info after a call; that a request whose send failed is retried;
//! that retransmissions / the ACK use the transport of the first transmission when nothing was
//! pinned by the caller (RFC 3261 17.1.1.3 says so, the C14 statement does not; only never-in-clear,
//! destination, datagram family and pin reuse are checked per transmission); timing of retransmissions (C05);
//! content of the ACK (C07); whether a `transport=` / `maddr=` uri-parameter is honoured or ignored, how a
//! honoured `transport=` value is matched against transport names, liveness / reuse of a connection that only
//! some interpretation of the value admits (`Eligible::sure_*`); `maddr=` on Route entries (never generated);
//! `transport=` / `maddr=` on a bare addr-spec Contact (they would be header parameters); whether a valid URI
//! text is accepted is C01's subject (a rejected text is reported as `c14.uri/valid-text-rejected`).

use crate::engine::*;
use crate::refmodel::ref_select::{self as rs, Carrier, Life};
use crate::world::stream::*;
use crate::world::*;
use parking_lot::Mutex;
use proptest::prelude::*;
use serde::{Deserialize, Serialize};
use sip_core::transport::streaming::{StreamingFactory, StreamingListener, StreamingListenerBuilder};
use sip_core::transport::{Direction, Factory, TargetTransportInfo, TpHandle};
use sip_core::transaction::{ClientInvTsx, ClientTsx};
use sip_core::{Endpoint, IncomingRequest, Layer, MayTake, Request};
use sip_types::header::typed::Contact;
use sip_types::host::{Host, HostPort};
use sip_types::uri::sip::SipUri;
use sip_types::uri::{Uri, UriInfo};
use sip_types::{Method, Name};
use std::collections::{BTreeMap, BTreeSet};
use std::io;
use std::net::{IpAddr, SocketAddr};
use std::sync::atomic::{AtomicBool, Ordering};
use std::sync::Arc;
use tokio::net::ToSocketAddrs;
use tokio::sync::mpsc;

// ------------------------------------------------------------------------------------------
// fixed vocabulary

/// the four datagram transports: (name, secure, bound); index = bit in the `dgrams` mask
const DGRAMS: [(&str, bool, &str); 4] = [
    ("UDP", false, "10.0.0.1:5060"),
    ("UDP", false, "[fd00::1]:5060"),
    ("DTLS", true, "10.0.0.1:5060"),
    ("DTLS", true, "[fd00::1]:5060"),
];
/// what a configured datagram transport reports as `bound()`, per family (index = "bind variant"; 0 = the address
/// in DGRAMS). Every variant keeps the family of its slot: the IPv6 wildcard `[::]` (a dual-stack socket on
/// many platforms), the IPv6 loopback and an IPv4-mapped IPv6 address are IPv6 addresses, the IPv4 wildcard
/// and loopback IPv4 ones - the statement's "address family" is the family of the socket address.
const BIND_V4: [&str; 3] = ["10.0.0.1:5060", "0.0.0.0:5060", "127.0.0.1:5060"];
const BIND_V6: [&str; 4] = ["[fd00::1]:5060", "[::]:5060", "[::1]:5060", "[::ffff:10.0.0.1]:5060"];

/// is DGRAMS[i] an IPv6 slot
fn dgram_v6(i: usize) -> bool {
    i & 1 == 1
}

fn bind_variants(i: usize) -> usize {
    if dgram_v6(i) { BIND_V6.len() } else { BIND_V4.len() }
}

/// the address DGRAMS[i] is bound to under the scenario's bind variants
fn dgram_bound(i: usize, binds: &[u8; 4]) -> SocketAddr {
    let v = (binds[i] as usize).min(bind_variants(i) - 1);
    if dgram_v6(i) { BIND_V6[v] } else { BIND_V4[v] }.parse().unwrap()
}

/// keep a case canonical: no variant for a transport that is not configured, selectors within the table
fn canonical_binds(dgrams: u8, binds: [u8; 4]) -> [u8; 4] {
    let mut b = [0u8; 4];
    for i in 0..4 {
        if dgrams & (1 << i) != 0 {
            b[i] = binds[i].min(bind_variants(i) as u8 - 1);
        }
    }
    b
}

/// transports that are NOT part of the endpoint, only reachable through a pinned target info
/// (name, secure, bound); EXT_RELIABLE[i]: the transport reports `reliable() == true` (what a connection reports)
const EXT: [(&str, bool, &str); 4] = [
    ("PINI", false, "10.0.0.9:5070"),
    ("PINS", true, "10.0.0.9:5071"),
    ("PINRI", false, "10.0.0.9:5072"),
    ("PINRS", true, "10.0.0.9:5073"),
];
const EXT_RELIABLE: [bool; 4] = [false, false, true, true];
/// the external transports responses can be delivered over (`RespVia::Ext`, `RespVia::Sel`): the unreliable two
const EXT_RESP: usize = 2;
const EXT_DEST: &str = "198.51.100.7:7777";
/// hosts of generated Route entries (different from every target host, so a request that went to the
/// Route entry instead of the Request-URI is told apart by its destination)
const ROUTE_HOSTS: [&str; 2] = ["192.0.2.77", "2001:db8::77"];
const V4_HOSTS: [&str; 2] = ["192.0.2.5", "192.0.2.6"];
// the second IPv6 host is an IPv4-mapped address: still an IPv6 destination for transport selection
const V6_HOSTS: [&str; 2] = ["2001:db8::5", "::ffff:192.0.2.6"];
/// listeners (bound address; index = secure*2 + v6)
const LISTEN: [&str; 4] = ["10.0.0.1:5060", "[fd00::1]:5060", "10.0.0.1:5061", "[fd00::1]:5061"];

/// values of a `;transport=` uri parameter (index 0 = the URI carries none); the reference only sees the class
const TPARAMS: [(&str, Option<rs::TParam>); 9] = [
    ("", None),
    ("tcp", Some(rs::TParam::Tcp)),
    ("udp", Some(rs::TParam::Udp)),
    ("tls", Some(rs::TParam::Tls)),
    ("TCP", Some(rs::TParam::Tcp)),
    ("Tls", Some(rs::TParam::Tls)),
    ("sctp", Some(rs::TParam::Other)),
    ("UDP", Some(rs::TParam::Udp)),
    ("ws", Some(rs::TParam::Other)),
];
/// hosts named by a `;maddr=` uri parameter [IPv4, IPv6]: different from every target / route host, so a request
/// that went to the maddr is told apart by its destination
const MADDR_HOSTS: [&str; 2] = ["192.0.2.99", "2001:db8::99"];

fn tparam_idx(i: u8) -> usize {
    (i as usize).min(TPARAMS.len() - 1)
}

/// the address a `;maddr=` selector names for a URI whose host is `host`: 0 none, 1 same family, 2 the other family
fn maddr_ip(sel: u8, host: &IpAddr) -> Option<IpAddr> {
    match sel % 3 {
        0 => None,
        1 => Some(MADDR_HOSTS[host.is_ipv6() as usize].parse().unwrap()),
        _ => Some(MADDR_HOSTS[!host.is_ipv6() as usize].parse().unwrap()),
    }
}

/// `;transport=..` / `;maddr=..` as uri-parameter text
fn routing_params_text(tparam: u8, maddr: Option<IpAddr>) -> String {
    let mut s = String::new();
    if tparam_idx(tparam) != 0 {
        s.push_str(&format!(";transport={}", TPARAMS[tparam_idx(tparam)].0));
    }
    match maddr {
        Some(IpAddr::V4(a)) => s.push_str(&format!(";maddr={a}")),
        Some(IpAddr::V6(a)) => s.push_str(&format!(";maddr=[{a}]")),
        None => {}
    }
    s
}

fn host_ip(v6: bool, host: u8) -> IpAddr {
    let h = (host & 1) as usize;
    if v6 { V6_HOSTS[h] } else { V4_HOSTS[h] }.parse().unwrap()
}

// ------------------------------------------------------------------------------------------
// scenario (internal form both case types are lowered to)

#[derive(Clone, Debug)]
enum Op {
    /// drop what is held in a slot (selector over the slots held at that moment)
    ReleaseSel(u16),
    /// let virtual time pass
    Advance(u64),
    /// open (and keep a handle to) an outbound connection through the public `Factory::create` API
    OpenOut { secure: bool, remote: SocketAddr },
    /// a peer connects from `remote`, sends a request; the test keeps the request (and with it a TpHandle)
    OpenIn { secure: bool, remote: SocketAddr },
}

#[derive(Clone, Debug)]
enum StepPin {
    None,
    /// pin an external transport (index into EXT) and EXT_DEST
    External(usize),
    /// the SAME target info object an earlier request was sent with and the test kept (selector over the
    /// slots held at that moment), the way a dialog keeps one target info for all its requests
    SlotSel(u16),
    /// pin a connection the test opened itself (`Op::OpenOut`, selector over those opened so far) and its
    /// remote address
    OpConn(u16),
}

#[derive(Clone, Debug)]
struct Step {
    ops: Vec<Op>,
    /// does a connect attempt succeed during this step: [insecure factory, secure factory]
    fac_ok: [bool; 2],
    target: rs::Target,
    pin: StepPin,
    /// keep the returned transaction and target info (slot = step index)
    hold: bool,
    /// how the URI object of the request is obtained
    uri: UriForm,
    /// INVITE (ClientInvTsx) instead of OPTIONS (ClientTsx)
    invite: bool,
    /// what happens to the transaction after the first transmission; non-empty = the transaction is driven
    follow: Vec<Follow>,
    /// header content of the request besides the mandatory ones
    hdrs: Hdrs,
    /// the `Transport::send` call that carries the first transmission fails with a transient io::Error
    /// (armed on every datagram mock and every open connection; a connection opened for this very request
    /// is not affected)
    fault: bool,
}

// ------------------------------------------------------------------------------------------
// header content

/// One entry of a pre-loaded route set
#[derive(Serialize, Deserialize, Clone, Copy, Debug, Hash, PartialEq, Eq, Default)]
pub struct RouteEntry {
    pub sips: bool,
    /// loose router (`;lr`); without it the entry is a strict router
    pub lr: bool,
    /// 0 ROUTE_HOSTS[0] (IPv4), 1 ROUTE_HOSTS[1] (IPv6), 2 the host of the Request-URI
    pub host: u8,
    /// explicit port 5077
    pub port: bool,
    /// 0 `<uri>`, 1 `"Proxy" <uri>;x=1` (display name + header parameter), 2 uri with a user part
    pub form: u8,
    /// `;transport=` uri parameter of the entry: index into TPARAMS (0 = none)
    #[serde(default)]
    pub tparam: u8,
}

#[derive(Serialize, Deserialize, Clone, Debug, Hash, PartialEq, Eq, Default)]
pub struct Hdrs {
    /// pre-loaded route set (0..=2 entries), topmost first
    pub routes: Vec<RouteEntry>,
    /// all entries in one comma separated Route header instead of one header per entry
    pub one_line: bool,
    /// headers with URIs that say nothing about the next hop: bit 0 = `Contact: <sip:alice@198.51.100.21:5080>`
    /// (an insecure own contact), bit 1 = the To URI has the OTHER scheme than the Request-URI and another host
    pub decoys: u8,
}

fn route_target(e: &RouteEntry, ruri: &rs::Target) -> rs::Target {
    rs::Target {
        sips: e.sips,
        ip: match e.host % 3 {
            0 => ROUTE_HOSTS[0].parse().unwrap(),
            1 => ROUTE_HOSTS[1].parse().unwrap(),
            _ => ruri.ip,
        },
        port: if e.port { Some(5077) } else { None },
        tparam: TPARAMS[tparam_idx(e.tparam)].1,
        maddr: None,
    }
}

fn route_text(e: &RouteEntry, ruri: &rs::Target) -> String {
    let t = route_target(e, ruri);
    let host = match t.ip {
        IpAddr::V4(a) => a.to_string(),
        IpAddr::V6(a) => format!("[{a}]"),
    };
    let uri = format!(
        "{}:{}{host}{}{}{}",
        if e.sips { "sips" } else { "sip" },
        if e.form % 3 == 2 { "proxy@" } else { "" },
        t.port.map(|p| format!(":{p}")).unwrap_or_default(),
        routing_params_text(e.tparam, None),
        if e.lr { ";lr" } else { "" },
    );
    if e.form % 3 == 1 {
        format!("\"Proxy\" <{uri}>;x=1")
    } else {
        format!("<{uri}>")
    }
}

// ------------------------------------------------------------------------------------------
// URI forms

/// Which reader of ezk turns the URI text into the request target
#[derive(Serialize, Deserialize, Clone, Copy, Debug, Hash, PartialEq, Eq, Default)]
pub enum UriVia {
    /// no text: `SipUri::new(..).sips(..)`
    #[default]
    Built,
    /// `str::parse::<SipUri>()`
    FromStr,
    /// `Endpoint::parse_uri`
    EndpointParse,
    /// Request-URI of a request the endpoint received
    RequestLine,
    /// `Contact: "x" <uri>` of a request the endpoint received
    ContactAngle,
    /// `Contact: uri` (addr-spec form, the URI cannot carry parameters) of a request the endpoint received
    ContactBare,
}

#[derive(Serialize, Deserialize, Clone, Copy, Debug, Hash, PartialEq, Eq, Default)]
pub struct UriForm {
    pub via: UriVia,
    /// spelling of the scheme: 0 lower, 1 UPPER, 2 Capitalised, 3 mIxed
    pub scheme: u8,
    /// 0 no user part, 1 `bob@`, 2 `bob:secret@`
    pub user: u8,
    /// IPv6 literal written with upper case hex digits
    pub upper_hex: bool,
    /// index into URI_PARAMS (0 = none)
    pub params: u8,
    /// `;transport=` uri parameter: index into TPARAMS (0 = none); never on `UriVia::ContactBare`
    #[serde(default)]
    pub tparam: u8,
    /// `;maddr=` uri parameter: 0 none, 1 a host of the URI host's address family, 2 a host of the other family;
    /// never on `UriVia::ContactBare`
    #[serde(default)]
    pub maddr: u8,
    /// `transport=` / `maddr=` are written behind the other uri-parameters instead of in front of them
    #[serde(default)]
    pub routing_last: bool,
}

impl UriForm {
    /// a bare addr-spec in Contact cannot carry uri-parameters (RFC 3261 20.10: they would be header parameters)
    fn carries_routing_params(&self) -> bool {
        self.via != UriVia::ContactBare
    }
    fn tparam_eff(&self) -> u8 {
        if self.carries_routing_params() { tparam_idx(self.tparam) as u8 } else { 0 }
    }
    fn maddr_eff(&self) -> u8 {
        if self.carries_routing_params() { self.maddr % 3 } else { 0 }
    }
}

/// The generated target: (sips, ip, port) plus what the URI form makes it carry as `transport=` / `maddr=`
fn target_of(sips: bool, ip: IpAddr, port: Option<u16>, f: &UriForm) -> rs::Target {
    rs::Target {
        sips,
        ip,
        port,
        tparam: TPARAMS[f.tparam_eff() as usize].1,
        maddr: maddr_ip(f.maddr_eff(), &ip),
    }
}

/// uri-parameters / headers that say nothing about transport or destination (transport= / maddr= are drawn
/// separately: `UriForm::tparam`, `UriForm::maddr`)
const URI_PARAMS: [&str; 5] = ["", ";lr", ";user=phone;ttl=5", ";method=OPTIONS", "?subject=hi"];
const SCHEMES: [[&str; 4]; 2] = [["sip", "SIP", "Sip", "sIp"], ["sips", "SIPS", "Sips", "sIPs"]];

/// number of URI_PARAMS entries (from the front) the reader accepts: a Request-URI carries no headers,
/// a bare addr-spec in Contact no parameters at all
fn params_allowed(via: UriVia) -> usize {
    match via {
        UriVia::Built => 1,
        UriVia::RequestLine => 4,
        UriVia::ContactBare => 1,
        _ => URI_PARAMS.len(),
    }
}

/// The text of the target URI, rendered from the generated triple (the reference only knows the triple).
fn uri_text(t: &rs::Target, f: &UriForm) -> String {
    let scheme = SCHEMES[t.sips as usize][(f.scheme & 3) as usize];
    let user = match f.user % 3 {
        0 => "",
        1 => "bob@",
        _ => "bob:secret@",
    };
    let host = match t.ip {
        IpAddr::V4(a) => a.to_string(),
        IpAddr::V6(a) => {
            let h = a.to_string();
            format!("[{}]", if f.upper_hex { h.to_ascii_uppercase() } else { h })
        }
    };
    let port = t.port.map(|p| format!(":{p}")).unwrap_or_default();
    let params = URI_PARAMS[(f.params as usize).min(params_allowed(f.via) - 1)];
    let routing = routing_params_text(f.tparam_eff(), maddr_ip(f.maddr_eff(), &t.ip));
    // uri-parameters precede the `?headers` part
    if f.routing_last && !params.starts_with('?') {
        format!("{scheme}:{user}{host}{port}{params}{routing}")
    } else {
        format!("{scheme}:{user}{host}{port}{routing}{params}")
    }
}

// ------------------------------------------------------------------------------------------
// follow-up scripts

/// The transport a scripted response is handed to the endpoint on
#[derive(Serialize, Deserialize, Clone, Copy, Debug, Hash, PartialEq, Eq)]
pub enum RespVia {
    /// the transport that carried the request
    Same,
    /// configured datagram transport DGRAMS[i] (the carrying one when it is not configured)
    Dgram(u8),
    /// datagram transport outside the configuration EXT[i]
    Ext(u8),
    /// the first connection opened by an `Op` of the scenario, if still open (else the carrying one)
    Pre,
    /// selector over [carrying, configured datagram transports.., EXT.., open connections..]
    Sel(u16),
}

#[derive(Serialize, Deserialize, Clone, Copy, Debug, Hash, PartialEq, Eq)]
pub enum Follow {
    /// let virtual time pass (ms) while the transaction is polled
    Wait(u32),
    /// the peer answers the request with `code`, the response reaches the endpoint over `via`;
    /// `shift`: a datagram response carries the source port destination + 1 (peer answers from another socket)
    Respond {
        code: u16,
        via: RespVia,
        #[serde(default)]
        shift: bool,
    },
}

#[derive(Clone, Debug)]
struct Scenario {
    dgrams: u8,
    /// bind variant of DGRAMS[i] (index into BIND_V4 / BIND_V6)
    binds: [u8; 4],
    /// register the datagram transports in reverse order
    dgrams_rev: bool,
    /// registered factories in registration order (value = secure)
    facs: Vec<bool>,
    steps: Vec<Step>,
}

// ------------------------------------------------------------------------------------------
// observations

#[derive(Clone, Debug, PartialEq, Eq)]
enum CId {
    Dgram(usize),
    Ext(usize),
    Conn(u32),
    Unknown,
}

#[derive(Clone, Debug)]
struct ConnRec {
    id: u32,
    secure: bool,
    outbound: bool,
    remote: SocketAddr,
    local: SocketAddr,
    /// registered factory that created it (None: opened by an Op)
    factory: Option<usize>,
    eof: Arc<AtomicBool>,
    /// everything ezk wrote on this connection (peer side)
    received: Arc<Mutex<Vec<u8>>>,
}

#[derive(Clone, Debug, Default)]
struct StepObs {
    released: Option<usize>,
    opened: Vec<ConnRec>,
    /// ids of connections whose peer end had seen EOF when the request was issued
    closed: Vec<u32>,
    pin_slot: Option<usize>,
    ok: bool,
    err: String,
    sent: Vec<(CId, SocketAddr)>,
    connects: Vec<(usize, SocketAddr)>,
    new_conns: Vec<ConnRec>,
    /// `TargetTransportInfo.transport` after the call
    target_after: Option<(CId, SocketAddr)>,
    /// what the transaction reports about the transport it used: (secure(), destination)
    reported: Option<(bool, SocketAddr)>,
    managed: usize,
    /// the URI text ezk's reader refused (the request was not issued)
    uri_rejected: Option<String>,
    /// delivered responses: (code, transport it was handed in on, same as the carrying one)
    responses: Vec<(u16, CId, bool)>,
    /// transmissions carrying this request's Call-ID after the first one: (method, carrier, destination)
    later: Vec<(String, CId, SocketAddr)>,
    /// index into the wire log where the first-transmission window of this request ended
    window_end: usize,
    /// a send call of this request was made to fail (the armed fault was consumed)
    faulted: bool,
    /// `StepPin::OpConn`: id of the connection the caller pinned
    pin_conn: Option<u32>,
    /// number of Route header values the first transmission carried on the wire
    routes_on_wire: usize,
}

/// A transaction the test keeps
enum HeldTsx {
    Plain(ClientTsx),
    Inv(ClientInvTsx),
    /// moved into a task that polls `receive()`; dropping aborts the task (and with it drops the transaction)
    Driven(#[allow(dead_code)] DrivenTask),
}

struct DrivenTask(tokio::task::JoinHandle<()>);

impl Drop for DrivenTask {
    fn drop(&mut self) {
        self.0.abort();
    }
}

/// Poll the transaction like an application does; keep it alive after it finished (the test "holds" it).
fn drive(tsx: HeldTsx) -> HeldTsx {
    match tsx {
        HeldTsx::Plain(mut t) => HeldTsx::Driven(DrivenTask(tokio::spawn(async move {
            loop {
                match t.receive().await {
                    Ok(r) if r.line.code.into_u16() < 200 => {}
                    _ => break,
                }
            }
            std::future::pending::<()>().await;
            drop(t);
        }))),
        HeldTsx::Inv(mut t) => HeldTsx::Driven(DrivenTask(tokio::spawn(async move {
            loop {
                match t.receive().await {
                    Ok(Some(_)) => {}
                    _ => break,
                }
            }
            std::future::pending::<()>().await;
            drop(t);
        }))),
        d => d,
    }
}

// ------------------------------------------------------------------------------------------
// executor plumbing

struct TakeLayer {
    tx: mpsc::UnboundedSender<IncomingRequest>,
}

#[async_trait::async_trait]
impl Layer for TakeLayer {
    fn name(&self) -> &'static str {
        "c14-take"
    }
    async fn receive(&self, _endpoint: &Endpoint, request: MayTake<'_, IncomingRequest>) {
        let _ = self.tx.send(request.take());
    }
}

/// One-shot factory handing out a prepared mock stream; used un-registered, through `Factory::create`,
/// to give the endpoint an outbound connection whatever factories it is configured with.
struct Helper<const S: bool> {
    stream: Mutex<Option<MockStream<S>>>,
}

macro_rules! impl_helper {
    ($s:literal) => {
        #[async_trait::async_trait]
        impl StreamingFactory for Helper<$s> {
            type Transport = MockStream<$s>;
            async fn connect<A: ToSocketAddrs + Send>(&self, _: &UriInfo, _addr: A) -> io::Result<Self::Transport> {
                self.stream
                    .lock()
                    .take()
                    .ok_or_else(|| io::Error::new(io::ErrorKind::Other, "helper used twice"))
            }
        }
    };
}
impl_helper!(false);
impl_helper!(true);

macro_rules! open_out {
    ($s:literal, $clock:expr, $log:expr, $endpoint:expr, $local:expr, $remote:expr) => {{
        let local: String = $local;
        let remote: SocketAddr = $remote;
        let (lb, dialer) = mock_listener::<$s>($clock, $log, &local);
        let (mut listener, _) = lb.bind(local.clone()).await.map_err(|e| e.to_string())?;
        let peer = dialer.dial(&remote.to_string());
        let (stream, _) = listener.accept().await.map_err(|e| e.to_string())?;
        let helper = Helper::<$s> {
            stream: Mutex::new(Some(stream)),
        };
        let uri = make_uri(&rs::Target::plain($s, remote.ip(), Some(remote.port())), &UriForm::default());
        let info = uri.info();
        let tp = Factory::create(&helper, $endpoint.clone(), &info, remote)
            .await
            .map_err(|e| e.to_string())?;
        (tp, peer)
    }};
}

fn make_uri(t: &rs::Target, f: &UriForm) -> SipUri {
    let host = match t.ip {
        IpAddr::V4(a) => Host::IP4(a),
        IpAddr::V6(a) => Host::IP6(a),
    };
    let mut uri = SipUri::new(HostPort { host, port: t.port }).sips(t.sips).user("bob".into());
    if f.tparam_eff() != 0 {
        uri = uri.uri_param_value("transport", TPARAMS[f.tparam_eff() as usize].0);
    }
    match maddr_ip(f.maddr_eff(), &t.ip) {
        Some(IpAddr::V4(a)) => uri = uri.uri_param_value("maddr", a.to_string()),
        Some(IpAddr::V6(a)) => uri = uri.uri_param_value("maddr", format!("[{a}]")),
        None => {}
    }
    uri
}

fn call_id(n: usize) -> String {
    format!("c14-{n}@example.org")
}

fn make_request(uri: Box<dyn Uri>, invite: bool, n: usize, hdrs: &Hdrs, ruri: &rs::Target) -> Request {
    let method = if invite { Method::INVITE } else { Method::OPTIONS };
    let mut request = Request::new(method, uri);
    // pre-loaded route set, topmost first (RFC 3261 8.1.1.9 / 12.2.1.1: Route headers precede the rest)
    let routes: Vec<String> = hdrs.routes.iter().map(|e| route_text(e, ruri)).collect();
    if hdrs.one_line && !routes.is_empty() {
        request.headers.insert(Name::ROUTE, routes.join(", "));
    } else {
        for r in routes {
            request.headers.insert(Name::ROUTE, r);
        }
    }
    request
        .headers
        .insert(Name::FROM, "\"Alice\" <sip:alice@example.org>;tag=c14");
    if hdrs.decoys & 2 != 0 {
        // the logical recipient is named with the other scheme and lives elsewhere
        request.headers.insert(
            Name::TO,
            format!("<{}:bob@198.51.100.20>", if ruri.sips { "sip" } else { "sips" }),
        );
    } else {
        request.headers.insert(Name::TO, "<sip:bob@example.net>");
    }
    if hdrs.decoys & 1 != 0 {
        request.headers.insert(Name::CONTACT, "<sip:alice@198.51.100.21:5080>");
    }
    request.headers.insert(Name::CALL_ID, call_id(n));
    request
        .headers
        .insert(Name::CSEQ, format!("{} {}", n + 1, if invite { "INVITE" } else { "OPTIONS" }));
    request.headers.insert(Name::MAX_FORWARDS, "70");
    request
}

struct Ids {
    dgram: Vec<(usize, u32)>,
    ext: Vec<(usize, u32)>,
}

/// Attribute a wire-log entry. Datagram ids and connection ids come from two process-global counters
/// and can coincide in a long run; `wrote` (ids of the connections whose peer end received bytes during
/// the request) disambiguates.
fn cid_of_wire(ids: &Ids, tp: u32, conns: &[ConnRec], wrote: &[u32]) -> CId {
    let as_conn = conns.iter().any(|c| c.id == tp) && wrote.contains(&tp);
    let as_dgram = ids
        .dgram
        .iter()
        .find(|(_, id)| *id == tp)
        .map(|(i, _)| CId::Dgram(*i))
        .or_else(|| ids.ext.iter().find(|(_, id)| *id == tp).map(|(i, _)| CId::Ext(*i)));
    match (as_conn, as_dgram) {
        (true, _) => CId::Conn(tp),
        (false, Some(d)) => d,
        (false, None) => CId::Unknown,
    }
}

fn cid_of_handle(tp: &TpHandle, conns: &[ConnRec], binds: &[u8; 4]) -> CId {
    let key = tp.key();
    match key.direction {
        Direction::None => {
            for (i, (name, _, _)) in DGRAMS.iter().enumerate() {
                if *name == key.name && dgram_bound(i, binds) == key.bound {
                    return CId::Dgram(i);
                }
            }
            for (i, (name, _, bound)) in EXT.iter().enumerate() {
                if *name == key.name && bound.parse::<SocketAddr>().unwrap() == key.bound {
                    return CId::Ext(i);
                }
            }
            CId::Unknown
        }
        Direction::Outgoing(r) | Direction::Incoming(r) => {
            let outbound = matches!(key.direction, Direction::Outgoing(_));
            conns
                .iter()
                .find(|c| {
                    c.outbound == outbound
                        && c.remote == r
                        && c.local == key.bound
                        && c.secure == (key.name == "TLS")
                })
                .map(|c| CId::Conn(c.id))
                .unwrap_or(CId::Unknown)
        }
    }
}

fn rec_of(p: &PeerConn, outbound: bool, factory: Option<usize>) -> ConnRec {
    ConnRec {
        id: p.id,
        secure: p.secure,
        outbound,
        remote: p.peer_addr,
        local: p.ezk_addr,
        factory,
        eof: p.eof.clone(),
        received: p.received.clone(),
    }
}

fn execute(sc: &Scenario, rng: u64) -> Result<Vec<StepObs>, String> {
    run_world(rng, |clock| async move {
        let log = WireLog::new(clock);
        let mut b = offline_builder();
        let (tx, mut rx) = mpsc::unbounded_channel();
        b.add_layer(TakeLayer { tx });

        let mut ids = Ids { dgram: vec![], ext: vec![] };
        let mut dgram_tp: Vec<(usize, TpHandle)> = vec![];
        let mut order: Vec<usize> = (0..4).filter(|i| sc.dgrams & (1 << i) != 0).collect();
        if sc.dgrams_rev {
            order.reverse();
        }
        for i in order {
            let (name, secure, _) = DGRAMS[i];
            let bound = dgram_bound(i, &sc.binds).to_string();
            let (tp, id) = mock_datagram(&log, name, secure, false, &bound);
            dgram_tp.push((i, tp.clone()));
            b.add_unmanaged_transport(tp);
            ids.dgram.push((i, id));
        }
        let mut ext_tp = vec![];
        for (i, (name, secure, bound)) in EXT.iter().enumerate() {
            let (tp, id) = mock_datagram(&log, name, *secure, EXT_RELIABLE[i], bound);
            ids.ext.push((i, id));
            ext_tp.push(tp);
        }
        let mut probes: Vec<(bool, FactoryProbe)> = vec![];
        for &secure in &sc.facs {
            if secure {
                let (f, p) = mock_factory::<true>(clock, &log);
                b.add_transport_factory(Arc::new(f));
                probes.push((true, p));
            } else {
                let (f, p) = mock_factory::<false>(clock, &log);
                b.add_transport_factory(Arc::new(f));
                probes.push((false, p));
            }
        }
        let (l0, d_tcp4) = mock_listener::<false>(clock, &log, LISTEN[0]);
        let (l1, d_tcp6) = mock_listener::<false>(clock, &log, LISTEN[1]);
        let (l2, d_tls4) = mock_listener::<true>(clock, &log, LISTEN[2]);
        let (l3, d_tls6) = mock_listener::<true>(clock, &log, LISTEN[3]);
        l0.spawn(&mut b, LISTEN[0]).await.map_err(|e| e.to_string())?;
        l1.spawn(&mut b, LISTEN[1]).await.map_err(|e| e.to_string())?;
        l2.spawn(&mut b, LISTEN[2]).await.map_err(|e| e.to_string())?;
        l3.spawn(&mut b, LISTEN[3]).await.map_err(|e| e.to_string())?;
        let endpoint = b.build();
        settle().await;

        // everything the test keeps alive
        let mut conns: Vec<ConnRec> = vec![];
        let mut perm_handles: Vec<(u32, SocketAddr, TpHandle)> = vec![];
        let mut perm_requests: Vec<IncomingRequest> = vec![];
        // peer ends of every connection (opened by an Op or by a registered factory)
        let mut peers: Vec<PeerConn> = vec![];
        let mut first_op_conn: Option<u32> = None;
        let mut slots: BTreeMap<usize, (Option<HeldTsx>, TargetTransportInfo)> = BTreeMap::new();
        let mut seen_connects: Vec<usize> = vec![0; probes.len()];
        let mut helper_n = 0u32;
        let mut inbound_from: BTreeSet<(bool, SocketAddr)> = BTreeSet::new();
        let mut out = vec![];

        for (n, step) in sc.steps.iter().enumerate() {
            let mut obs = StepObs::default();
            for op in &step.ops {
                match op {
                    Op::ReleaseSel(sel) => {
                        let keys: Vec<usize> = slots.keys().copied().collect();
                        if !keys.is_empty() {
                            let k = keys[pick_idx(*sel, keys.len())];
                            slots.remove(&k);
                            obs.released = Some(k);
                            settle().await;
                        }
                    }
                    Op::Advance(ms) => {
                        clock.advance(*ms).await;
                        settle().await;
                    }
                    Op::OpenOut { secure, remote } => {
                        helper_n += 1;
                        let local = if remote.is_ipv4() {
                            format!("10.0.0.1:{}", 45000 + helper_n)
                        } else {
                            format!("[fd00::1]:{}", 45000 + helper_n)
                        };
                        let (tp, peer) = if *secure {
                            open_out!(true, clock, &log, endpoint, local, *remote)
                        } else {
                            open_out!(false, clock, &log, endpoint, local, *remote)
                        };
                        settle().await;
                        let rec = rec_of(&peer, true, None);
                        first_op_conn.get_or_insert(rec.id);
                        conns.push(rec.clone());
                        obs.opened.push(rec);
                        perm_handles.push((peer.id, *remote, tp));
                        peers.push(peer);
                    }
                    Op::OpenIn { secure, remote } => {
                        if !inbound_from.insert((*secure, *remote)) {
                            continue; // one inbound connection per (listener, remote): a second one would be the same 4-tuple
                        }
                        let addr = remote.to_string();
                        let mut peer = match (*secure, remote.is_ipv6()) {
                            (false, false) => d_tcp4.dial(&addr),
                            (false, true) => d_tcp6.dial(&addr),
                            (true, false) => d_tls4.dial(&addr),
                            (true, true) => d_tls6.dial(&addr),
                        };
                        settle().await;
                        let k = perm_requests.len();
                        let text = request_text(
                            "OPTIONS",
                            "sip:ezk@10.0.0.1",
                            &[format!(
                                "SIP/2.0/{} {};branch=z9hG4bKc14in{k}",
                                if *secure { "TLS" } else { "TCP" },
                                remote
                            )],
                            &format!("<sip:peer@example.org>;tag=in{k}"),
                            "<sip:ezk@10.0.0.1>",
                            &format!("c14-inbound-{k}"),
                            1,
                            "OPTIONS",
                            &[],
                            b"",
                        );
                        if !peer.write(&text).await {
                            return Err("inbound write failed".to_string());
                        }
                        settle().await;
                        match rx.try_recv() {
                            Ok(req) => perm_requests.push(req),
                            Err(_) => return Err("inbound request did not reach the layer".to_string()),
                        }
                        let rec = rec_of(&peer, false, None);
                        first_op_conn.get_or_insert(rec.id);
                        conns.push(rec.clone());
                        obs.opened.push(rec);
                        peers.push(peer);
                    }
                }
            }
            for (secure, p) in &probes {
                p.fail.store(!step.fac_ok[*secure as usize], Ordering::SeqCst);
            }
            obs.closed = conns
                .iter()
                .filter(|c| c.eof.load(Ordering::SeqCst))
                .map(|c| c.id)
                .collect();

            let mut target = TargetTransportInfo::default();
            // the slot whose target info object this request is sent with (put back after the call)
            let mut borrowed: Option<(usize, Option<HeldTsx>)> = None;
            match &step.pin {
                StepPin::None => {}
                StepPin::External(i) => {
                    target.transport = Some((ext_tp[*i].clone(), EXT_DEST.parse().unwrap()));
                }
                StepPin::SlotSel(sel) => {
                    let keys: Vec<usize> = slots.keys().copied().collect();
                    if !keys.is_empty() {
                        let k = keys[pick_idx(*sel, keys.len())];
                        let (tsx_k, target_k) = slots.remove(&k).unwrap();
                        target = target_k;
                        borrowed = Some((k, tsx_k));
                        obs.pin_slot = Some(k);
                    }
                }
                StepPin::OpConn(sel) => {
                    if !perm_handles.is_empty() {
                        let (id, remote, tp) = &perm_handles[pick_idx(*sel, perm_handles.len())];
                        target.transport = Some((tp.clone(), *remote));
                        obs.pin_conn = Some(*id);
                    }
                }
            }
            // ---- the URI object: built, or read by ezk from text rendered from the generated triple ----
            let text = uri_text(&step.target, &step.uri);
            let uri: Option<Box<dyn Uri>> = match step.uri.via {
                UriVia::Built => Some(Box::new(make_uri(&step.target, &step.uri))),
                UriVia::FromStr => text.parse::<SipUri>().ok().map(|u| Box::new(u) as Box<dyn Uri>),
                UriVia::EndpointParse => endpoint.parse_uri(&text).ok(),
                UriVia::RequestLine | UriVia::ContactAngle | UriVia::ContactBare => {
                    let (line_uri, contact) = match step.uri.via {
                        UriVia::RequestLine => (text.clone(), "<sip:peer@198.51.100.7>".to_string()),
                        UriVia::ContactAngle => ("sip:ezk@10.0.0.9".to_string(), format!("\"Bob\" <{text}>;expires=60")),
                        _ => ("sip:ezk@10.0.0.9".to_string(), format!("{text};expires=60")),
                    };
                    let msg = request_text(
                        "OPTIONS",
                        &line_uri,
                        &[format!("SIP/2.0/PINI {EXT_DEST};branch=z9hG4bKc14uri{n}")],
                        &format!("<sip:peer@example.org>;tag=uri{n}"),
                        "<sip:ezk@10.0.0.9>",
                        &format!("c14-uri-{n}"),
                        1,
                        "OPTIONS",
                        &[format!("Contact: {contact}")],
                        b"",
                    );
                    inject(&endpoint, &ext_tp[0], EXT_DEST.parse().unwrap(), &msg);
                    settle().await;
                    match rx.try_recv() {
                        Ok(req) => {
                            if step.uri.via == UriVia::RequestLine {
                                Some(req.line.uri.clone())
                            } else {
                                req.headers.get_named::<Contact>().ok().map(|c| c.uri.uri)
                            }
                        }
                        Err(_) => None,
                    }
                }
            };
            let Some(uri) = uri else {
                if let Some((k, tsx_k)) = borrowed.take() {
                    slots.insert(k, (tsx_k, target));
                }
                obs.uri_rejected = Some(text);
                obs.window_end = log.len();
                obs.managed = endpoint.verif_counts().1;
                out.push(obs);
                continue;
            };

            let wire_before = log.len();
            let written_before: Vec<(u32, usize)> = conns.iter().map(|c| (c.id, c.received.lock().len())).collect();
            let caller_pinned = borrowed.is_none() && target.transport.is_some();
            let request = make_request(uri, step.invite, n, &step.hdrs, &step.target);
            // ---- send fault: the next send call on whatever existing transport carries the request fails ----
            let failed_before = log.failed_sends().len();
            if step.fault {
                let next = log.faults.lock().calls;
                log.fail_calls([next]);
                for p in peers.iter().filter(|p| !p.is_eof()) {
                    p.write_faults.store(1, Ordering::SeqCst);
                }
            }
            let result = if step.invite {
                endpoint.send_invite(request, &mut target).await.map(HeldTsx::Inv)
            } else {
                endpoint.send_request(request, &mut target).await.map(HeldTsx::Plain)
            };
            if step.fault {
                obs.faulted = log.failed_sends().len() > failed_before;
                log.faults.lock().fail_calls.clear();
                for p in peers.iter() {
                    if !p.is_eof() && p.write_faults.swap(0, Ordering::SeqCst) == 0 {
                        obs.faulted = true;
                    }
                }
            }
            settle().await;

            for (fi, (_, p)) in probes.iter().enumerate() {
                let connects = p.connects.lock();
                for (_, a) in connects.iter().skip(seen_connects[fi]) {
                    obs.connects.push((fi, *a));
                }
                seen_connects[fi] = connects.len();
                let made: Vec<PeerConn> = p.conns.lock().drain(..).collect();
                for pc in made {
                    let rec = rec_of(&pc, true, Some(fi));
                    conns.push(rec.clone());
                    obs.new_conns.push(rec);
                    peers.push(pc);
                }
            }
            let wrote: Vec<u32> = conns
                .iter()
                .filter(|c| {
                    let before = written_before.iter().find(|(id, _)| *id == c.id).map(|x| x.1).unwrap_or(0);
                    c.received.lock().len() > before
                })
                .map(|c| c.id)
                .collect();
            let mut first_request: Option<WireMsg> = None;
            for s in log.snapshot().into_iter().skip(wire_before) {
                // transmissions of other (driven, still running) transactions belong to their own request
                let m = WireMsg::parse(&s.bytes);
                if let Some(other) = m.as_ref().and_then(|m| m.call_id()) {
                    if other != call_id(n) {
                        continue;
                    }
                }
                if first_request.is_none() {
                    obs.routes_on_wire = m.as_ref().map(|m| m.list_values("route").len()).unwrap_or(0);
                    first_request = m;
                }
                obs.sent.push((cid_of_wire(&ids, s.tp, &conns, &wrote), s.dest));
            }
            obs.window_end = log.len();
            // a connection that received bytes which never became a framed wire-log entry
            for id in &wrote {
                if !obs.sent.iter().any(|(c, _)| *c == CId::Conn(*id)) {
                    obs.sent.push((CId::Conn(*id), conns.iter().find(|c| c.id == *id).unwrap().remote));
                }
            }
            obs.target_after = target
                .transport
                .as_ref()
                .map(|(tp, d)| (cid_of_handle(tp, &conns, &sc.binds), *d));
            match result {
                Ok(tsx) => {
                    obs.ok = true;
                    let parts = match &tsx {
                        HeldTsx::Plain(t) => &t.request().parts,
                        HeldTsx::Inv(t) => &t.request().parts,
                        HeldTsx::Driven(_) => unreachable!(),
                    };
                    obs.reported = Some((parts.transport.secure(), parts.destination));
                    let mut tsx = tsx;
                    // ---- follow-up: the transaction is polled, time passes, the peer answers ----
                    if let (false, Some((carrier, peer_addr)), Some(req)) =
                        (step.follow.is_empty(), obs.sent.first().cloned(), first_request.as_ref())
                    {
                        tsx = drive(tsx);
                        for fo in &step.follow {
                            match fo {
                                Follow::Wait(ms) => {
                                    clock.advance(*ms as u64).await;
                                    settle().await;
                                }
                                Follow::Respond { code, via, shift } => {
                                    let source = if *shift {
                                        SocketAddr::new(peer_addr.ip(), peer_addr.port().wrapping_add(1))
                                    } else {
                                        peer_addr
                                    };
                                    let open_conn = |id: u32| peers.iter().any(|p| p.id == id && !p.is_eof());
                                    let wanted: CId = match via {
                                        RespVia::Same => carrier.clone(),
                                        RespVia::Dgram(i) => CId::Dgram((*i & 3) as usize),
                                        RespVia::Ext(i) => CId::Ext((*i & 1) as usize),
                                        RespVia::Pre => first_op_conn.map(CId::Conn).unwrap_or(carrier.clone()),
                                        RespVia::Sel(sel) => {
                                            let mut all = vec![carrier.clone()];
                                            all.extend(dgram_tp.iter().map(|(i, _)| CId::Dgram(*i)));
                                            all.extend((0..EXT_RESP).map(CId::Ext));
                                            all.extend(peers.iter().filter(|p| !p.is_eof()).map(|p| CId::Conn(p.id)));
                                            all[pick_idx(*sel, all.len())].clone()
                                        }
                                    };
                                    let usable = match &wanted {
                                        CId::Dgram(i) => dgram_tp.iter().any(|(k, _)| k == i),
                                        CId::Ext(_) => true,
                                        CId::Conn(id) => open_conn(*id),
                                        CId::Unknown => false,
                                    };
                                    let on = if usable { wanted } else { carrier.clone() };
                                    let bytes = response_text(req, *code, Some("c14peer"), &[]);
                                    let delivered = match &on {
                                        CId::Dgram(i) => {
                                            let tp = &dgram_tp.iter().find(|(k, _)| k == i).unwrap().1;
                                            inject(&endpoint, tp, source, &bytes) == Injected::Sip
                                        }
                                        CId::Ext(i) => inject(&endpoint, &ext_tp[*i], source, &bytes) == Injected::Sip,
                                        CId::Conn(id) => match peers.iter_mut().find(|p| p.id == *id) {
                                            Some(p) => p.write(&bytes).await,
                                            None => false,
                                        },
                                        CId::Unknown => false,
                                    };
                                    settle().await;
                                    if delivered {
                                        let same = on == carrier;
                                        obs.responses.push((*code, on, same));
                                    }
                                }
                            }
                        }
                    }
                    match (borrowed.take(), step.hold) {
                        (Some((k, tsx_k)), true) => {
                            slots.insert(n, (Some(tsx), target.clone()));
                            slots.insert(k, (tsx_k, target));
                        }
                        (Some((k, tsx_k)), false) => {
                            drop(tsx);
                            slots.insert(k, (tsx_k, target));
                        }
                        (None, true) => {
                            slots.insert(n, (Some(tsx), target));
                        }
                        (None, false) => {
                            drop(tsx);
                            drop(target);
                        }
                    }
                }
                Err(e) => {
                    obs.err = e.to_string();
                    if let Some((k, tsx_k)) = borrowed.take() {
                        // the caller keeps its target info whatever happened to the request
                        slots.insert(k, (tsx_k, target));
                    } else if step.hold && caller_pinned {
                        // a target info the caller pinned itself is kept for later requests although this one failed
                        slots.insert(n, (None, target));
                    } else {
                        drop(target);
                    }
                }
            }
            settle().await;
            obs.managed = endpoint.verif_counts().1;
            out.push(obs);
        }
        // ---- everything that left after the first-transmission window, attributed by Call-ID ----
        let all: Vec<(Sent, Option<WireMsg>)> = log.parsed();
        for (n, o) in out.iter_mut().enumerate() {
            let mine = call_id(n);
            for (s, m) in all.iter().skip(o.window_end) {
                let Some(m) = m else { continue };
                if m.call_id() != Some(mine.as_str()) || !m.is_request() {
                    continue;
                }
                let cid = if conns.iter().any(|c| c.id == s.tp) {
                    CId::Conn(s.tp)
                } else {
                    cid_of_wire(&ids, s.tp, &[], &[])
                };
                o.later.push((m.method().unwrap_or("").to_string(), cid, s.dest));
            }
        }
        drop(slots);
        drop(perm_handles);
        drop(perm_requests);
        drop(peers);
        Ok(out)
    })
}

// ------------------------------------------------------------------------------------------
// oracle walk

#[derive(Clone, Debug, PartialEq, Eq, PartialOrd, Ord)]
enum Holder {
    Perm,
    Slot(usize),
}

struct MConn {
    rec: ConnRec,
    holders: BTreeSet<Holder>,
    from_earlier_request: bool,
}

#[derive(Default)]
struct Summary {
    nontrivial: bool,
}

fn evaluate(sc: &Scenario, obs: &[StepObs], out: &mut CaseOut) -> Summary {
    let mut sum = Summary::default();
    let mut conns: Vec<MConn> = vec![];
    // slot -> what the kept target info pins
    let mut slots: BTreeMap<usize, (CId, SocketAddr)> = BTreeMap::new();
    let dgrams: Vec<rs::Dgram> = (0..4)
        .filter(|i| sc.dgrams & (1 << i) != 0)
        .map(|i| rs::Dgram {
            key: i,
            secure: DGRAMS[i].1,
            // the family of the socket address the transport reports as bound()
            bound_v6: dgram_bound(i, &sc.binds).is_ipv6(),
        })
        .collect();
    // ---- what the configured datagram transports are bound to (once per case) ----
    for d in &dgrams {
        let a = dgram_bound(d.key, &sc.binds);
        out.class(match a.ip() {
            IpAddr::V4(x) if x.is_unspecified() => "bound:ipv4-wildcard-datagram (0.0.0.0)",
            IpAddr::V4(x) if x.is_loopback() => "bound:ipv4-loopback-datagram",
            IpAddr::V4(_) => "bound:ipv4-concrete-datagram",
            IpAddr::V6(x) if x.is_unspecified() => "bound:ipv6-wildcard-datagram ([::], dual-stack on many hosts)",
            IpAddr::V6(x) if x.is_loopback() => "bound:ipv6-loopback-datagram",
            IpAddr::V6(x) if x.to_ipv4_mapped().is_some() => "bound:ipv4-mapped-ipv6-datagram",
            IpAddr::V6(_) => "bound:ipv6-concrete-datagram",
        });
    }
    let special_bound = |key: usize| sc.binds[key] != 0;
    let mut notes = vec![];
    // per request: what the caller pinned (for the verdict on later transmissions)
    let mut pins: Vec<Option<rs::Pin>> = vec![];
    // slots whose target info object has seen a request fail at its first send
    let mut slot_saw_failed_send: BTreeSet<usize> = BTreeSet::new();

    for (n, (step, o)) in sc.steps.iter().zip(obs.iter()).enumerate() {
        out.class(match step.uri.via {
            UriVia::Built => "uri-source:built",
            UriVia::FromStr => "uri-source:text/SipUri::from_str",
            UriVia::EndpointParse => "uri-source:text/Endpoint::parse_uri",
            UriVia::RequestLine => "uri-source:text/received-request-line",
            UriVia::ContactAngle => "uri-source:text/received-contact-name-addr",
            UriVia::ContactBare => "uri-source:text/received-contact-addr-spec",
        });
        if step.uri.via != UriVia::Built {
            out.class(match step.uri.scheme & 3 {
                0 => "uri-text:scheme-lower-case",
                1 => "uri-text:scheme-upper-case",
                _ => "uri-text:scheme-mixed-case",
            });
            if step.target.sips && step.uri.scheme & 3 != 0 {
                out.class("uri-text:sips-scheme-not-lower-case");
            }
            if step.target.ip.is_ipv6() && step.uri.upper_hex {
                out.class("uri-text:ipv6-upper-case-hex");
            }
            if step.uri.user % 3 == 2 {
                out.class("uri-text:user-with-password");
            }
            if step.uri.params != 0 && params_allowed(step.uri.via) > step.uri.params as usize {
                out.class("uri-text:with-uri-or-header-parameters");
            }
        }
        out.class(if step.invite { "method:INVITE" } else { "method:OPTIONS" });
        if let Some(first) = step.hdrs.routes.first() {
            out.class(if step.hdrs.routes.len() >= 2 { "route:two-entries" } else { "route:one-entry" });
            out.class(match (first.sips, first.lr) {
                (false, true) => "route:topmost-sip-loose",
                (true, true) => "route:topmost-sips-loose",
                (false, false) => "route:topmost-sip-strict",
                (true, false) => "route:topmost-sips-strict",
            });
            if step.target.sips && !first.sips {
                out.class("route:sips-request-uri-behind-sip-route-entry");
            }
            if !step.target.sips && first.sips {
                out.class("route:sip-request-uri-behind-sips-route-entry");
            }
            if first.host % 3 == 2 {
                out.class("route:topmost-entry-on-the-request-uri-host");
            } else if (first.host % 3 == 1) != step.target.ip.is_ipv6() {
                out.class("route:topmost-entry-in-the-other-address-family");
            }
        }
        if step.hdrs.decoys != 0 {
            out.class("headers:decoy-uris (Contact / To with other scheme and host)");
        }
        if step.fault {
            out.class(if o.faulted { "fault:first-send-failed" } else { "fault:armed-not-consumed (new connection or no send)" });
        }
        // ---- state changes before the request ----
        if let Some(k) = o.released {
            slots.remove(&k);
            for c in conns.iter_mut() {
                c.holders.remove(&Holder::Slot(k));
            }
        }
        for rec in &o.opened {
            conns.push(MConn {
                rec: rec.clone(),
                holders: [Holder::Perm].into_iter().collect(),
                from_earlier_request: false,
            });
        }
        let life = |c: &MConn| {
            if o.closed.contains(&c.rec.id) {
                Life::Closed
            } else if c.holders.is_empty() {
                Life::Idle
            } else {
                Life::Held
            }
        };
        let cfg = rs::Config {
            dgrams: dgrams.clone(),
            conns: conns
                .iter()
                .enumerate()
                .map(|(k, c)| rs::Conn {
                    key: k,
                    secure: c.rec.secure,
                    outbound: c.rec.outbound,
                    remote: c.rec.remote,
                    life: life(c),
                })
                .collect(),
            factories: sc
                .facs
                .iter()
                .enumerate()
                .map(|(k, secure)| rs::Factory {
                    key: k,
                    secure: *secure,
                    connects: step.fac_ok[*secure as usize],
                })
                .collect(),
        };
        let carrier_of = |cid: &CId| -> (Carrier, bool) {
            match cid {
                CId::Dgram(i) => (Carrier::Dgram(*i), DGRAMS[*i].1),
                CId::Ext(i) => (Carrier::External(*i), EXT[*i].1),
                CId::Conn(id) => {
                    if let Some(r) = o.new_conns.iter().find(|r| r.id == *id) {
                        (
                            Carrier::NewConn {
                                factory: r.factory.unwrap_or(usize::MAX),
                                secure: r.secure,
                                remote: r.remote,
                            },
                            r.secure,
                        )
                    } else if let Some(k) = conns.iter().position(|c| c.rec.id == *id) {
                        (Carrier::Conn(k), conns[k].rec.secure)
                    } else {
                        (Carrier::Unknown, false)
                    }
                }
                CId::Unknown => (Carrier::Unknown, false),
            }
        };
        // what the caller's target info pins, as the CALLER knows it (never read back from ezk for a pinned step)
        let pin_cid: Option<(CId, SocketAddr)> = match &step.pin {
            StepPin::None => None,
            StepPin::External(i) => Some((CId::Ext(*i), EXT_DEST.parse().unwrap())),
            StepPin::SlotSel(_) => match o.pin_slot {
                None => None,
                Some(k) => match slots.get(&k) {
                    Some(x) => Some(x.clone()),
                    None => {
                        out.fail("c14.harness/slot-bookkeeping", format!("step {n}: slot {k} unknown to the oracle"));
                        None
                    }
                },
            },
            StepPin::OpConn(_) => o
                .pin_conn
                .and_then(|id| conns.iter().find(|c| c.rec.id == id))
                .map(|c| (CId::Conn(c.rec.id), c.rec.remote)),
        };
        let pin: Option<rs::Pin> = pin_cid.as_ref().map(|(cid, dest)| {
            let (carrier, secure) = carrier_of(cid);
            rs::Pin {
                carrier,
                secure,
                dest: *dest,
            }
        });
        pins.push(pin.clone());
        if let Some(text) = &o.uri_rejected {
            // (C01's subject, but the request could not be issued: say so instead of skipping silently)
            out.fail(
                "c14.uri/valid-text-rejected",
                format!("request {n}: ezk's reader ({:?}) refused the URI text {text:?}", step.uri.via),
            );
            notes.push(format!("#{n} uri text {text:?} rejected"));
            continue;
        }
        let observation = rs::Observation {
            success: o.ok,
            sent: o
                .sent
                .iter()
                .map(|(cid, d)| {
                    let (c, s) = carrier_of(cid);
                    (c, s, *d)
                })
                .collect(),
            connects: o.connects.clone(),
            send_fault: o.faulted,
        };
        // every reading of "the target" the statement admits (more than one only with a Route header)
        let first_route = step.hdrs.routes.first().map(|e| route_target(e, &step.target));
        let readings = rs::readings(&step.target, first_route.as_ref());

        // ---- verdict ----
        for finding in rs::judge_any(&cfg, &readings, pin.as_ref(), &observation) {
            out.fail(finding.sig, format!("request {n} ({:?}): {}", step.target, finding.msg));
        }
        if step.hdrs.routes.len() != o.routes_on_wire && !o.sent.is_empty() {
            // generator accounting, not a verdict on ezk's selection: the route set did not reach the wire as built
            out.fail(
                "c14.harness/route-set-not-on-wire",
                format!("request {n}: built with {} Route entries, {} on the wire", step.hdrs.routes.len(), o.routes_on_wire),
            );
        }
        // the transport the transaction holds must be the one that carried the request ("reports itself secure")
        if let (Some((rep_secure, _)), Some((_, carried_secure, _))) = (o.reported, observation.sent.first()) {
            if rep_secure != *carried_secure {
                out.fail(
                    "c14.report/secure-flag-differs",
                    format!("request {n}: transaction's transport reports secure={rep_secure}, the carrying mock secure={carried_secure}"),
                );
            }
        }

        // ---- classes / non-triviality ----
        // (the reading that takes the Request-URI as it stands and ignores transport= / maddr=)
        let e = rs::eligible(&cfg, &readings[0]);
        out.class(if step.target.sips { "uri:sips" } else { "uri:sip" });
        out.class(if step.target.ip.is_ipv6() { "host:ipv6-literal" } else { "host:ipv4-literal" });
        out.class(if step.target.port.is_some() { "port:explicit" } else { "port:default" });
        let mut nt = false;
        if let Some(tp) = step.target.tparam {
            out.class(match tp {
                rs::TParam::Tcp => "uri-param:transport=tcp",
                rs::TParam::Udp => "uri-param:transport=udp",
                rs::TParam::Tls => "uri-param:transport=tls",
                rs::TParam::Other => "uri-param:transport=<not configured: sctp, ws>",
            });
            if TPARAMS[step.uri.tparam_eff() as usize].0.chars().any(|c| c.is_ascii_uppercase()) {
                out.class("uri-param:transport-value-not-lower-case");
            }
            if pin.is_none() {
                let honoured = rs::Target {
                    tparam: Some(tp),
                    ..readings[0].clone()
                };
                let eh = rs::eligible(&cfg, &honoured);
                if (&eh.dgrams, &eh.conns_held, &eh.conns_idle, &eh.factories)
                    != (&e.dgrams, &e.conns_held, &e.conns_idle, &e.factories)
                {
                    out.class("nontrivial:transport-param-would-narrow-the-eligible-candidates");
                    nt = true;
                }
                if !eh.may_succeed() && e.may_succeed() {
                    out.class("uri-param:transport-names-nothing-eligible (failure and ignoring it both accepted)");
                }
                if step.target.sips && rs::insecure_candidate_named(&cfg, &honoured) {
                    out.class("nontrivial:sips-with-transport-param-naming-an-insecure-candidate");
                    nt = true;
                }
            }
        }
        if let Some(m) = step.target.maddr {
            out.class(if m.is_ipv6() == step.target.ip.is_ipv6() {
                "uri-param:maddr-in-the-host's-address-family"
            } else {
                "uri-param:maddr-in-the-other-address-family"
            });
            if pin.is_none() && step.target.sips && rs::insecure_candidate_present(&cfg) {
                out.class("nontrivial:sips-with-maddr-and-insecure-candidate-present");
                nt = true;
            }
        }
        if step.hdrs.routes.first().map_or(false, |r| tparam_idx(r.tparam) != 0) {
            out.class("route:topmost-entry-with-transport-param");
        }
        if pin.is_none()
            && !step.hdrs.routes.is_empty()
            && readings.iter().any(|r| r.sips)
            && rs::insecure_candidate_present(&cfg)
        {
            out.class("nontrivial:route-set-and-a-sips-uri-with-insecure-candidate-present");
            nt = true;
        }
        if let Some(p) = &pin {
            out.class(match (&p.carrier, &step.pin) {
                (_, StepPin::SlotSel(_)) => "pinned:target-info-of-earlier-request",
                (Carrier::External(i), _) if EXT_RELIABLE[*i] => "pinned:external-reliable",
                (Carrier::External(_), _) => "pinned:external-datagram",
                _ => "pinned:connection-opened-by-the-caller",
            });
        }
        if let (Some(p), Some(k)) = (&pin, o.pin_slot) {
            if slot_saw_failed_send.contains(&k) {
                let reliable = match &p.carrier {
                    Carrier::External(i) => EXT_RELIABLE[*i],
                    Carrier::Conn(_) | Carrier::NewConn { .. } => true,
                    _ => false,
                };
                out.class(if reliable {
                    "nontrivial:pinned-request-after-a-failed-send-with-the-same-target-info (reliable transport)"
                } else {
                    "nontrivial:pinned-request-after-a-failed-send-with-the-same-target-info (datagram transport)"
                });
                nt = true;
            }
        }
        if pin.is_some() {
            out.class("pinned");
            if step.target.sips && !pin.as_ref().unwrap().secure {
                out.class("pinned:insecure-pin-for-sips (outcome not asserted)");
            }
        } else {
            if step.target.sips && rs::insecure_candidate_present(&cfg) {
                out.class("nontrivial:sips-with-insecure-candidate-present");
                nt = true;
            }
            if e.paths() >= 2 {
                out.class("nontrivial:eligible-candidates-on->=2-paths");
                nt = true;
            }
            // a datagram transport of the OTHER family whose bound address is a wildcard / loopback / IPv4-mapped
            // one fits name and security, and none of the destination's family is eligible: only the family rule
            // keeps the request off it
            if let Some(dest) = e.dest {
                let other_special_fits = cfg.dgrams.iter().any(|d| {
                    d.bound_v6 != dest.is_ipv6() && special_bound(d.key) && (!readings[0].sips || d.secure)
                });
                if other_special_fits && e.dgrams.is_empty() {
                    out.class("nontrivial:only-the-family-rule-excludes-a-wildcard/loopback/mapped-bound-datagram-of-the-other-family");
                    nt = true;
                    let wild = cfg.dgrams.iter().any(|d| {
                        d.bound_v6
                            && !dest.is_ipv6()
                            && dgram_bound(d.key, &sc.binds).ip().is_unspecified()
                            && (!readings[0].sips || d.secure)
                    });
                    if wild {
                        out.class("bound:ipv4-destination, [::]-bound-datagram-fits-security, no-ipv4-datagram-eligible");
                    }
                }
                if e.dgrams.iter().any(|k| special_bound(*k)) {
                    out.class("bound:eligible-datagram-on-a-wildcard/loopback/mapped-address");
                }
            }
            if !e.may_succeed() {
                out.class("reference:no-eligible-candidate");
            }
            if !e.conns_held.is_empty() && e.dgrams.is_empty() {
                out.class("reference:reuse-demanded (held connection, no datagram eligible)");
            }
            if !e.conns_idle.is_empty() {
                out.class("reference:idle-connection-eligible (reuse allowed)");
            }
            if cfg.conns.iter().any(|c| !c.outbound && c.remote == e.dest.unwrap() && c.life != Life::Closed) {
                out.class("config:inbound-connection-from-destination");
            }
            if cfg
                .conns
                .iter()
                .any(|c| c.outbound && c.remote != e.dest.unwrap() && c.remote.ip() == e.dest.unwrap().ip() && c.life != Life::Closed)
            {
                out.class("config:outbound-connection-same-host-other-port");
            }
            if cfg.conns.iter().any(|c| c.life == Life::Closed) {
                out.class("config:expired-connection");
            }
            let earlier: Vec<usize> = conns
                .iter()
                .enumerate()
                .filter(|(_, c)| c.from_earlier_request)
                .map(|(k, _)| k)
                .collect();
            if e.conns_held.iter().chain(e.conns_idle.iter()).any(|k| earlier.contains(k)) {
                out.class("sequence:connection-of-earlier-request-eligible");
            }
        }
        if o.ok {
            match observation.sent.first().map(|s| &s.0) {
                Some(Carrier::Dgram(_)) => out.class("observed:datagram"),
                Some(Carrier::Conn(_)) => out.class("observed:existing-connection"),
                Some(Carrier::NewConn { .. }) => out.class("observed:new-connection"),
                Some(Carrier::External(_)) => out.class("observed:pinned-external"),
                _ => out.class("observed:other"),
            }
        } else {
            out.class("observed:request-failed");
        }
        if o.connects.len() >= 2 {
            out.class("observed:>=2-connect-attempts");
        }
        sum.nontrivial |= nt;
        notes.push(format!(
            "#{n} {}:{}{}{} pin={} -> {} sent={:?} connects={:?}",
            if step.target.sips { "sips" } else { "sip" },
            step.target.ip,
            step.target.port.map(|p| format!(":{p}")).unwrap_or_default(),
            routing_params_text(step.uri.tparam_eff(), step.target.maddr),
            pin.is_some(),
            if o.ok { "ok".to_string() } else { format!("ERR({})", o.err) },
            observation
                .sent
                .iter()
                .map(|(c, s, d)| format!("{}{}->{d}", rs_path(c), if *s { "(secure)" } else { "" }))
                .collect::<Vec<_>>(),
            o.connects,
        ));

        // ---- state changes after the request ----
        for rec in &o.new_conns {
            conns.push(MConn {
                rec: rec.clone(),
                holders: BTreeSet::new(),
                from_earlier_request: true,
            });
        }
        // what the target info kept in slot n pins: the caller's own pin when there was one, else what ezk
        // stored in it for the request that succeeded
        let kept: Option<Option<(CId, SocketAddr)>> = if !step.hold {
            None
        } else if o.ok {
            Some(pin_cid.clone().or(o.target_after.clone()))
        } else if pin_cid.is_some() && o.pin_slot.is_none() {
            // (a failed request: the caller keeps a target info it pinned itself)
            Some(pin_cid.clone())
        } else {
            None
        };
        if o.faulted && !o.ok && pin.is_some() {
            if let Some(k) = o.pin_slot {
                slot_saw_failed_send.insert(k);
            } else if kept.is_some() {
                slot_saw_failed_send.insert(n);
            }
        }
        if let Some(kept) = kept {
            if let Some((cid, dest)) = &kept {
                slots.insert(n, (cid.clone(), *dest));
                if let CId::Conn(id) = cid {
                    if let Some(c) = conns.iter_mut().find(|c| c.rec.id == *id) {
                        c.holders.insert(Holder::Slot(n));
                    }
                }
            } else {
                // a request that succeeded leaves nothing to pin: later SlotSel steps cannot work
                out.fail(
                    "c14.pin/target-info-not-populated",
                    format!("request {n} succeeded but TargetTransportInfo.transport is None"),
                );
            }
        }
    }
    // ---- second pass: what each transaction emitted after its first transmission ----
    // (the connection list is complete now; its indices are stable, so a pinned `Carrier::Conn(k)` compares)
    for (n, (step, o)) in sc.steps.iter().zip(obs.iter()).enumerate() {
        if !step.follow.is_empty() && o.ok {
            out.class("followup:transaction-driven");
        }
        for (code, on, same) in &o.responses {
            out.class(match (*code >= 300, *same) {
                (true, true) => "followup:non-2xx-final-on-carrying-transport",
                (true, false) => "followup:non-2xx-final-on-OTHER-transport",
                (false, true) => "followup:1xx/2xx-on-carrying-transport",
                (false, false) => "followup:1xx/2xx-on-OTHER-transport",
            });
            let on_secure = match on {
                CId::Dgram(i) => DGRAMS[*i].1,
                CId::Ext(i) => EXT[*i].1,
                CId::Conn(id) => conns.iter().any(|c| c.rec.id == *id && c.rec.secure),
                CId::Unknown => false,
            };
            if step.target.sips && !on_secure && step.invite && *code >= 300 {
                out.class("followup:sips-INVITE-answered-non-2xx-over-insecure-transport");
            }
        }
        if o.later.is_empty() {
            continue;
        }
        let method = if step.invite { "INVITE" } else { "OPTIONS" };
        let later: Vec<rs::Later> = o
            .later
            .iter()
            .map(|(m, cid, dest)| {
                let kind = if m == method {
                    rs::LaterKind::Retransmission
                } else if m == "ACK" {
                    rs::LaterKind::Ack
                } else {
                    rs::LaterKind::OtherRequest
                };
                let (carrier, secure, bound_v6) = match cid {
                    CId::Dgram(i) => (Carrier::Dgram(*i), DGRAMS[*i].1, Some(dgram_bound(*i, &sc.binds).is_ipv6())),
                    CId::Ext(i) => (Carrier::External(*i), EXT[*i].1, Some(EXT[*i].2.starts_with('['))),
                    CId::Conn(id) => match conns.iter().position(|c| c.rec.id == *id) {
                        Some(k) => (Carrier::Conn(k), conns[k].rec.secure, None),
                        None => (Carrier::Unknown, false, None),
                    },
                    CId::Unknown => (Carrier::Unknown, false, None),
                };
                rs::Later {
                    kind,
                    carrier,
                    secure,
                    bound_v6,
                    dest: *dest,
                }
            })
            .collect();
        let pin = pins.get(n).cloned().flatten();
        let first_route = step.hdrs.routes.first().map(|e| route_target(e, &step.target));
        let readings = rs::readings(&step.target, first_route.as_ref());
        for finding in rs::judge_later_any(&readings, pin.as_ref(), &later) {
            out.fail(finding.sig, format!("request {n} ({:?}): {}", step.target, finding.msg));
        }
        let acks = later.iter().filter(|l| l.kind == rs::LaterKind::Ack).count();
        if later.iter().any(|l| l.kind == rs::LaterKind::Retransmission) {
            out.class("followup:retransmission-observed");
        }
        if acks >= 1 {
            out.class("followup:ack-observed");
        }
        if acks >= 2 {
            out.class("followup:ack-sent-again-for-retransmitted-final");
        }
        if pin.is_some() {
            out.class("followup:later-transmission-of-pinned-request");
        }
        // non-trivial: a later transmission had a choice the statement constrains
        let had_choice = o.responses.iter().any(|(code, _, same)| *code >= 300 && !*same) && acks >= 1;
        if had_choice || (step.target.sips && pin.is_none()) || pin.is_some() {
            out.class("nontrivial:later-transmission-constrained (sips, pinned, or final on another transport)");
            sum.nontrivial = true;
        }
        notes.push(format!(
            "#{n} later: {:?} responses: {:?}",
            later
                .iter()
                .map(|l| format!("{:?}:{}->{}", l.kind, rs_path(&l.carrier), l.dest))
                .collect::<Vec<_>>(),
            o.responses
        ));
    }
    out.note = Some(notes.join(" ; "));
    sum
}

fn rs_path(c: &Carrier) -> String {
    match c {
        Carrier::Dgram(i) => format!("dgram:{}/{}", DGRAMS[*i].0, if DGRAMS[*i].2.starts_with('[') { "v6" } else { "v4" }),
        Carrier::Conn(k) => format!("conn#{k}"),
        Carrier::NewConn { factory, secure, .. } => format!("new-conn(factory{factory},{})", if *secure { "TLS" } else { "TCP" }),
        Carrier::External(i) => format!("ext:{}", EXT[*i].0),
        Carrier::Unknown => "unknown".into(),
    }
}

fn run_and_judge<K: std::hash::Hash>(sc: &Scenario, rng: u8, key: &K, out: &mut CaseOut) {
    match execute(sc, rng as u64) {
        Ok(obs) => {
            let sum = evaluate(sc, &obs, out);
            if sum.nontrivial {
                out.nontrivial(key);
            }
        }
        Err(e) => out.fail("c14.harness/setup", e),
    }
}

// ------------------------------------------------------------------------------------------
// sub-check 1: the exhaustive configuration space

#[derive(Serialize, Deserialize, Clone, Copy, Debug, Hash, PartialEq, Eq)]
pub enum Fac {
    Absent,
    Connects,
    Refuses,
}

#[derive(Serialize, Deserialize, Clone, Copy, Debug, Hash, PartialEq, Eq)]
pub enum Pre {
    None,
    /// insecure ("TCP") outbound connection to the destination
    OutInsecure,
    /// secure ("TLS") outbound connection to the destination
    OutSecure,
    /// secure outbound connection to the same host, port + 1
    OutOtherPort,
    /// secure outbound connection to another host, same port
    OutOtherHost,
    /// secure inbound connection whose remote address is exactly the destination
    Inbound,
}

#[derive(Serialize, Deserialize, Clone, Copy, Debug, Hash, PartialEq, Eq)]
pub enum PinSel {
    Empty,
    /// pinned to a secure transport outside the configuration + a foreign destination
    Secure,
    /// same, insecure
    Insecure,
}

#[derive(Serialize, Deserialize, Clone, Debug, Hash)]
pub struct Case {
    /// bit i = DGRAMS[i] configured: UDP/v4, UDP/v6, DTLS/v4, DTLS/v6
    pub dgrams: u8,
    /// insecure stream factory (registered first)
    pub tcp: Fac,
    /// secure stream factory
    pub tls: Fac,
    /// register the secure factory before the insecure one (enumerated only when both are present)
    pub tls_first: bool,
    pub pre: Pre,
    pub sips: bool,
    pub v6: bool,
    /// explicit port 5099 in the URI
    pub port: bool,
    pub pin: PinSel,
    pub rng: u8,
    /// bind variant of each datagram transport (index into BIND_V4 / BIND_V6; 0 = the concrete address):
    /// what the transport reports as `bound()`
    #[serde(default)]
    pub binds: [u8; 4],
}

const FACS: [Fac; 3] = [Fac::Absent, Fac::Connects, Fac::Refuses];
const PRES: [Pre; 6] = [
    Pre::None,
    Pre::OutInsecure,
    Pre::OutSecure,
    Pre::OutOtherPort,
    Pre::OutOtherHost,
    Pre::Inbound,
];
const PINS: [PinSel; 3] = [PinSel::Empty, PinSel::Secure, PinSel::Insecure];

pub fn config_cases(_tier: Tier) -> Vec<Case> {
    let mut v = vec![];
    for dgrams in 0u8..16 {
        for tcp in FACS {
            for tls in FACS {
                let orders: &[bool] = if tcp != Fac::Absent && tls != Fac::Absent {
                    &[false, true]
                } else {
                    &[false]
                };
                for &tls_first in orders {
                    for pre in PRES {
                        for sips in [false, true] {
                            for v6 in [false, true] {
                                for port in [false, true] {
                                    for pin in PINS {
                                        let rng = (v.len() % 5) as u8;
                                        v.push(Case {
                                            dgrams,
                                            tcp,
                                            tls,
                                            tls_first,
                                            pre,
                                            sips,
                                            v6,
                                            port,
                                            pin,
                                            rng,
                                            binds: [0; 4],
                                        });
                                    }
                                }
                            }
                        }
                    }
                }
            }
        }
    }
    v
}

/// the bind variants enumerated for a datagram subset, the all-default one (covered by `config`) left out.
/// Quick: one variant per family (shared by the insecure and the secure transport of that family);
/// thorough: one per transport.
fn bind_sets(tier: Tier, dgrams: u8) -> Vec<[u8; 4]> {
    let has = |i: usize| dgrams & (1 << i) != 0;
    let mut v = vec![];
    match tier {
        Tier::Quick => {
            let n4 = if has(0) || has(2) { BIND_V4.len() as u8 } else { 1 };
            let n6 = if has(1) || has(3) { BIND_V6.len() as u8 } else { 1 };
            for b4 in 0..n4 {
                for b6 in 0..n6 {
                    v.push(canonical_binds(dgrams, [b4, b6, b4, b6]));
                }
            }
        }
        Tier::Thorough => {
            let n = |i: usize| if has(i) { bind_variants(i) as u8 } else { 1 };
            for a in 0..n(0) {
                for b in 0..n(1) {
                    for c in 0..n(2) {
                        for d in 0..n(3) {
                            v.push([a, b, c, d]);
                        }
                    }
                }
            }
        }
    }
    v.retain(|b| *b != [0; 4]);
    v
}

/// sub-check `bound-addr`: the configuration space of `config` again, with the datagram transports bound to
/// wildcard / loopback / IPv4-mapped addresses
pub fn bound_cases(tier: Tier) -> Vec<Case> {
    let pres: &[Pre] = &[Pre::None, Pre::OutInsecure, Pre::OutSecure];
    let ports: &[bool] = match tier {
        Tier::Quick => &[false],
        Tier::Thorough => &[false, true],
    };
    let mut v = vec![];
    for dgrams in 1u8..16 {
        for binds in bind_sets(tier, dgrams) {
            for tcp in FACS {
                for tls in FACS {
                    let orders: &[bool] = if tcp != Fac::Absent && tls != Fac::Absent {
                        &[false, true]
                    } else {
                        &[false]
                    };
                    for &tls_first in orders {
                        for &pre in pres {
                            for sips in [false, true] {
                                for v6 in [false, true] {
                                    for &port in ports {
                                        let rng = (v.len() % 5) as u8;
                                        v.push(Case {
                                            dgrams,
                                            tcp,
                                            tls,
                                            tls_first,
                                            pre,
                                            sips,
                                            v6,
                                            port,
                                            pin: PinSel::Empty,
                                            rng,
                                            binds,
                                        });
                                    }
                                }
                            }
                        }
                    }
                }
            }
        }
    }
    v
}

fn lower_config(c: &Case) -> Scenario {
    let target = rs::Target::plain(c.sips, host_ip(c.v6, 0), if c.port { Some(5099) } else { None });
    // where the pre-existing connections point is derived from the statement's port rule
    let dest = rs::destination(&target);
    let ops = match c.pre {
        Pre::None => vec![],
        Pre::OutInsecure => vec![Op::OpenOut { secure: false, remote: dest }],
        Pre::OutSecure => vec![Op::OpenOut { secure: true, remote: dest }],
        Pre::OutOtherPort => vec![Op::OpenOut {
            secure: true,
            remote: SocketAddr::new(dest.ip(), dest.port() + 1),
        }],
        Pre::OutOtherHost => vec![Op::OpenOut {
            secure: true,
            remote: SocketAddr::new(host_ip(c.v6, 1), dest.port()),
        }],
        Pre::Inbound => vec![Op::OpenIn { secure: true, remote: dest }],
    };
    let mut facs = vec![];
    if c.tcp != Fac::Absent {
        facs.push(false);
    }
    if c.tls != Fac::Absent {
        facs.push(true);
    }
    if c.tls_first {
        facs.reverse();
    }
    Scenario {
        dgrams: c.dgrams & 0xf,
        binds: canonical_binds(c.dgrams & 0xf, c.binds),
        dgrams_rev: false,
        facs,
        steps: vec![Step {
            ops,
            fac_ok: [c.tcp == Fac::Connects, c.tls == Fac::Connects],
            target,
            pin: match c.pin {
                PinSel::Empty => StepPin::None,
                PinSel::Insecure => StepPin::External(0),
                PinSel::Secure => StepPin::External(1),
            },
            hold: false,
            uri: UriForm::default(),
            invite: false,
            follow: vec![],
            hdrs: Hdrs::default(),
            fault: false,
        }],
    }
}

pub fn check_config(case: &Case, out: &mut CaseOut) {
    let sc = lower_config(case);
    out.class(match case.pre {
        Pre::None => "pre:none",
        Pre::OutInsecure => "pre:insecure-outbound-to-destination",
        Pre::OutSecure => "pre:secure-outbound-to-destination",
        Pre::OutOtherPort => "pre:outbound-to-other-port",
        Pre::OutOtherHost => "pre:outbound-to-other-host",
        Pre::Inbound => "pre:inbound-from-destination",
    });
    run_and_judge(&sc, case.rng, case, out);
}

// ------------------------------------------------------------------------------------------
// sub-check 2: random request sequences against one endpoint

#[derive(Serialize, Deserialize, Clone, Copy, Debug, Hash, PartialEq, Eq)]
pub enum FacOrder {
    None,
    Tcp,
    Tls,
    TcpTls,
    TlsTcp,
}

#[derive(Serialize, Deserialize, Clone, Copy, Debug, Hash, PartialEq, Eq)]
pub enum PortSel {
    Default,
    P5060,
    P5061,
    P5099,
    /// the ends of the port range: an explicit :0 and :65535 are ports like any other (seeded change C14-11)
    P0,
    P65535,
}

#[derive(Serialize, Deserialize, Clone, Debug, Hash)]
pub struct SeqStep {
    pub sips: bool,
    pub v6: bool,
    pub host: u8,
    pub port: PortSel,
    pub tcp_ok: bool,
    pub tls_ok: bool,
    /// reuse the target info of a held earlier request (selector), if any is held
    pub pin: Option<u16>,
    /// keep the transaction + target info of this request
    pub hold: bool,
    /// before the request: release a held slot (selector)
    pub release: Option<u16>,
    /// before the request: let 40 s pass (unreferenced connections expire after 32 s)
    pub advance: bool,
    /// before the request: an inbound connection (secure?) from this request's destination
    pub inbound: Option<bool>,
    /// how the URI object is obtained (default: builder API)
    #[serde(default)]
    pub uri: UriForm,
    /// INVITE instead of OPTIONS
    #[serde(default)]
    pub invite: bool,
    /// follow-up script (empty: the transaction is kept un-polled, as an application that never calls receive())
    #[serde(default)]
    pub follow: Vec<Follow>,
    /// Route set and decoy headers of the request
    #[serde(default)]
    pub hdrs: Hdrs,
    /// the send call carrying the first transmission fails (transient io error)
    #[serde(default)]
    pub fault: bool,
    /// when `pin` is None: the caller pins something itself - 0..=3 the transport EXT[i] outside the
    /// configuration (2, 3 report reliable) + a foreign destination, 4 a connection it opened itself
    /// (`open_out`), if any
    #[serde(default)]
    pub own_pin: Option<u8>,
    /// before the request: the caller opens (and keeps) an outbound connection (secure?) to this request's destination
    #[serde(default)]
    pub open_out: Option<bool>,
}

#[derive(Serialize, Deserialize, Clone, Debug, Hash)]
pub struct SeqCase {
    pub dgrams: u8,
    pub dgrams_rev: bool,
    pub facs: FacOrder,
    pub steps: Vec<SeqStep>,
    pub rng: u8,
    /// bind variant of each configured datagram transport (0 = the concrete address)
    #[serde(default)]
    pub binds: [u8; 4],
}

/// `;transport=` selector (index into TPARAMS): 12 in 17 none, else tcp / udp / tls / a transport nobody
/// provides, lower case or not
fn tparam_sel() -> impl Strategy<Value = u8> {
    prop_oneof![
        12 => Just(0u8),
        2 => prop_oneof![Just(1u8), Just(4u8)],
        1 => prop_oneof![Just(2u8), Just(7u8)],
        1 => prop_oneof![Just(3u8), Just(5u8)],
        1 => prop_oneof![Just(6u8), Just(8u8)],
    ]
}

fn uri_form() -> impl Strategy<Value = UriForm> {
    (
        uri_form_base(),
        tparam_sel(),
        prop_oneof![14 => Just(0u8), 1 => Just(1u8), 1 => Just(2u8)],
        any::<bool>(),
    )
        .prop_map(|(base, tparam, maddr, routing_last)| {
            // keep the case canonical: a form that cannot carry the parameters gets none
            let carries = base.carries_routing_params();
            let tparam = if carries { tparam } else { 0 };
            let maddr = if carries { maddr } else { 0 };
            UriForm {
                tparam,
                maddr,
                routing_last: routing_last && (tparam != 0 || maddr != 0),
                ..base
            }
        })
}

fn uri_form_base() -> impl Strategy<Value = UriForm> {
    prop_oneof![
        2 => Just(UriForm::default()),
        3 => (
            prop_oneof![
                Just(UriVia::FromStr),
                Just(UriVia::EndpointParse),
                Just(UriVia::RequestLine),
                Just(UriVia::ContactAngle),
                Just(UriVia::ContactBare)
            ],
            0u8..4,
            0u8..3,
            any::<bool>(),
            0u8..(URI_PARAMS.len() as u8),
        )
            .prop_map(|(via, scheme, user, upper_hex, params)| UriForm {
                via,
                scheme,
                user,
                upper_hex,
                // keep the case canonical: a reader that takes fewer parameter shapes gets "none"
                params: if (params as usize) < params_allowed(via) { params } else { 0 },
                ..UriForm::default()
            }),
    ]
}

fn resp_via() -> impl Strategy<Value = RespVia> {
    prop_oneof![
        2 => Just(RespVia::Same),
        3 => any::<u16>().prop_map(RespVia::Sel),
        1 => (0u8..4).prop_map(RespVia::Dgram),
        1 => (0u8..2).prop_map(RespVia::Ext),
    ]
}

fn follow_script() -> impl Strategy<Value = Vec<Follow>> {
    let event = prop_oneof![
        // around the retransmission instants T1, 3*T1 (never on them)
        2 => prop_oneof![Just(300u32), Just(600), Just(1100), Just(2100)].prop_map(Follow::Wait),
        1 => (resp_via(), any::<bool>()).prop_map(|(via, shift)| Follow::Respond { code: 180, via, shift }),
        4 => (prop_oneof![Just(486u16), Just(404), Just(302), Just(603)], resp_via(), any::<bool>())
            .prop_map(|(code, via, shift)| Follow::Respond { code, via, shift }),
        1 => (resp_via(), any::<bool>()).prop_map(|(via, shift)| Follow::Respond { code: 200, via, shift }),
    ];
    prop_oneof![
        3 => Just(vec![]),
        1 => prop::collection::vec(event, 1..=3),
    ]
}

fn route_entry() -> impl Strategy<Value = RouteEntry> {
    (
        prop_oneof![2 => Just(false), 1 => Just(true)],
        prop_oneof![3 => Just(true), 1 => Just(false)],
        prop_oneof![3 => Just(0u8), 1 => Just(1u8), 1 => Just(2u8)],
        prop_oneof![2 => Just(false), 1 => Just(true)],
        0u8..3,
        prop_oneof![6 => Just(0u8), 1 => Just(1u8), 1 => Just(2u8), 1 => Just(3u8)],
    )
        .prop_map(|(sips, lr, host, port, form, tparam)| RouteEntry {
            sips,
            lr,
            host,
            port,
            form,
            tparam,
        })
}

fn hdrs_strategy() -> impl Strategy<Value = Hdrs> {
    prop_oneof![
        5 => Just(Hdrs::default()),
        2 => (prop::collection::vec(route_entry(), 1..=2), any::<bool>(), 0u8..4)
            .prop_map(|(routes, one_line, decoys)| Hdrs { routes, one_line, decoys }),
        1 => (1u8..4).prop_map(|decoys| Hdrs { routes: vec![], one_line: false, decoys }),
    ]
}

fn seq_step() -> impl Strategy<Value = SeqStep> {
    (
        (
            any::<bool>(),
            prop_oneof![3 => Just(false), 1 => Just(true)],
            prop_oneof![5 => Just(0u8), 1 => Just(1u8)],
            prop_oneof![
                4 => Just(PortSel::Default),
                2 => Just(PortSel::P5061),
                2 => Just(PortSel::P5060),
                1 => Just(PortSel::P5099),
                1 => Just(PortSel::P0),
                1 => Just(PortSel::P65535)
            ],
        ),
        (
            prop_oneof![4 => Just(true), 1 => Just(false)],
            prop_oneof![4 => Just(true), 1 => Just(false)],
        ),
        prop_oneof![4 => Just(None), 1 => any::<u16>().prop_map(Some)],
        prop_oneof![2 => Just(true), 1 => Just(false)],
        prop_oneof![3 => Just(None), 1 => any::<u16>().prop_map(Some)],
        prop_oneof![6 => Just(false), 1 => Just(true)],
        prop_oneof![8 => Just(None), 1 => any::<bool>().prop_map(Some)],
        (uri_form(), prop_oneof![3 => Just(false), 2 => Just(true)], follow_script()),
        (
            hdrs_strategy(),
            prop_oneof![5 => Just(false), 1 => Just(true)],
            prop_oneof![10 => Just(None), 1 => (0u8..5).prop_map(Some)],
            prop_oneof![12 => Just(None), 1 => any::<bool>().prop_map(Some)],
        ),
    )
        .prop_map(
            |(
                (sips, v6, host, port),
                (tcp_ok, tls_ok),
                pin,
                hold,
                release,
                advance,
                inbound,
                (uri, invite, follow),
                (hdrs, fault, own_pin, open_out),
            )| SeqStep {
                sips,
                v6,
                host,
                port,
                tcp_ok,
                tls_ok,
                pin,
                hold,
                release,
                advance,
                inbound,
                uri,
                invite,
                follow,
                hdrs,
                fault,
                own_pin,
                open_out,
            },
        )
}

pub fn seq_strategy() -> BoxedStrategy<SeqCase> {
    (
        // half of the endpoints have no datagram transport at all, so the connection paths decide
        prop_oneof![4 => Just(0u8), 1 => Just(0b0101u8), 1 => Just(0b1010u8), 2 => 0u8..16],
        any::<bool>(),
        prop_oneof![
            1 => Just(FacOrder::None),
            2 => Just(FacOrder::Tcp),
            2 => Just(FacOrder::Tls),
            4 => Just(FacOrder::TcpTls),
            4 => Just(FacOrder::TlsTcp)
        ],
        prop::collection::vec(seq_step(), 2..=6),
        any::<u8>(),
        // what the datagram transports are bound to: half of the endpoints use the concrete addresses only, the
        // others draw per transport IPv4 {concrete, wildcard, loopback : 1 each}, IPv6 {concrete 2, wildcard 2,
        // loopback 1, IPv4-mapped 1} (selector 3 is clamped to the last IPv4 variant)
        prop_oneof![
            1 => Just([0u8; 4]),
            1 => prop::array::uniform4(prop_oneof![2 => Just(0u8), 2 => Just(1u8), 1 => Just(2u8), 1 => Just(3u8)]),
        ],
    )
        .prop_map(|(dgrams, dgrams_rev, facs, steps, rng, binds)| SeqCase {
            dgrams,
            dgrams_rev,
            facs,
            steps,
            rng,
            binds: canonical_binds(dgrams & 0xf, binds),
        })
        .boxed()
}

fn lower_seq(c: &SeqCase) -> Scenario {
    let facs = fac_list(c.facs);
    let steps = c
        .steps
        .iter()
        .map(|s| {
            let target = target_of(
                s.sips,
                host_ip(s.v6, s.host),
                match s.port {
                    PortSel::Default => None,
                    PortSel::P5060 => Some(5060),
                    PortSel::P5061 => Some(5061),
                    PortSel::P5099 => Some(5099),
                    PortSel::P0 => Some(0),
                    PortSel::P65535 => Some(65535),
                },
                &s.uri,
            );
            let mut ops = vec![];
            if let Some(sel) = s.release {
                ops.push(Op::ReleaseSel(sel));
            }
            if s.advance {
                ops.push(Op::Advance(40_000));
            }
            if let Some(secure) = s.inbound {
                ops.push(Op::OpenIn {
                    secure,
                    remote: rs::destination(&target),
                });
            }
            if let Some(secure) = s.open_out {
                ops.push(Op::OpenOut {
                    secure,
                    remote: rs::destination(&target),
                });
            }
            Step {
                ops,
                fac_ok: [s.tcp_ok, s.tls_ok],
                target,
                pin: match (s.pin, s.own_pin) {
                    (Some(sel), _) => StepPin::SlotSel(sel),
                    (None, Some(i)) if (i as usize) < EXT.len() => StepPin::External(i as usize),
                    // the connection opened last
                    (None, Some(_)) => StepPin::OpConn(u16::MAX),
                    (None, None) => StepPin::None,
                },
                hold: s.hold,
                uri: s.uri,
                invite: s.invite,
                follow: s.follow.clone(),
                hdrs: s.hdrs.clone(),
                fault: s.fault,
            }
        })
        .collect();
    Scenario {
        dgrams: c.dgrams & 0xf,
        binds: canonical_binds(c.dgrams & 0xf, c.binds),
        dgrams_rev: c.dgrams_rev,
        facs,
        steps,
    }
}

pub fn check_seq(case: &SeqCase, out: &mut CaseOut) {
    let sc = lower_seq(case);
    run_and_judge(&sc, case.rng, case, out);
}

// ------------------------------------------------------------------------------------------
// sub-check 3: the target URI is text read by ezk (exhaustive over spellings x 8 configurations)

#[derive(Serialize, Deserialize, Clone, Debug, Hash)]
pub struct TextCase {
    pub dgrams: u8,
    pub facs: FacOrder,
    pub sips: bool,
    /// 0 IPv4 literal, 1 IPv6 literal (lower case hex), 2 IPv6 literal (upper case hex), 3 IPv4-mapped IPv6 literal
    pub host: u8,
    /// explicit port 5099
    pub port: bool,
    pub uri: UriForm,
    pub rng: u8,
}

const TEXT_VIAS: [UriVia; 5] = [
    UriVia::FromStr,
    UriVia::EndpointParse,
    UriVia::RequestLine,
    UriVia::ContactAngle,
    UriVia::ContactBare,
];

pub fn text_cases(tier: Tier) -> Vec<TextCase> {
    // datagram sets: insecure only / all four / none / secure only; with and without both factories
    let configs: Vec<(u8, FacOrder)> = match tier {
        Tier::Quick => [0b0011u8, 0b1111, 0b0000, 0b1100]
            .into_iter()
            .flat_map(|d| [FacOrder::TcpTls, FacOrder::None].into_iter().map(move |f| (d, f)))
            .collect(),
        Tier::Thorough => [0b0011u8, 0b1111, 0b0000, 0b1100, 0b0001, 0b0110]
            .into_iter()
            .flat_map(|d| {
                [FacOrder::TcpTls, FacOrder::TlsTcp, FacOrder::Tcp, FacOrder::Tls, FacOrder::None]
                    .into_iter()
                    .map(move |f| (d, f))
            })
            .collect(),
    };
    let mut v = vec![];
    for (dgrams, facs) in configs {
        for via in TEXT_VIAS {
            for scheme in 0u8..4 {
                for sips in [false, true] {
                    for user in 0u8..3 {
                        for host in 0u8..tier.pick(3, 4) {
                            for port in [false, true] {
                                for params in 0..params_allowed(via) as u8 {
                                    let rng = (v.len() % 5) as u8;
                                    v.push(TextCase {
                                        dgrams,
                                        facs,
                                        sips,
                                        host,
                                        port,
                                        uri: UriForm {
                                            via,
                                            scheme,
                                            user,
                                            upper_hex: host == 2,
                                            params,
                                            ..UriForm::default()
                                        },
                                        rng,
                                    });
                                }
                            }
                        }
                    }
                }
            }
        }
    }
    v
}

fn fac_list(f: FacOrder) -> Vec<bool> {
    match f {
        FacOrder::None => vec![],
        FacOrder::Tcp => vec![false],
        FacOrder::Tls => vec![true],
        FacOrder::TcpTls => vec![false, true],
        FacOrder::TlsTcp => vec![true, false],
    }
}

pub fn check_text(case: &TextCase, out: &mut CaseOut) {
    let sc = Scenario {
        dgrams: case.dgrams & 0xf,
        binds: [0; 4],
        dgrams_rev: false,
        facs: fac_list(case.facs),
        steps: vec![Step {
            ops: vec![],
            fac_ok: [true, true],
            target: target_of(
                case.sips,
                host_ip(case.host != 0, (case.host == 3) as u8),
                if case.port { Some(5099) } else { None },
                &case.uri,
            ),
            pin: StepPin::None,
            hold: false,
            uri: case.uri,
            invite: false,
            follow: vec![],
            hdrs: Hdrs::default(),
            fault: false,
        }],
    };
    run_and_judge(&sc, case.rng, case, out);
}

// ------------------------------------------------------------------------------------------
// sub-check 3b: the target URI carries `;transport=` / `;maddr=` (exhaustive over configurations x values)

#[derive(Serialize, Deserialize, Clone, Debug, Hash)]
pub struct ParamCase {
    pub dgrams: u8,
    pub tcp: Fac,
    pub tls: Fac,
    pub tls_first: bool,
    pub pre: Pre,
    pub sips: bool,
    pub v6: bool,
    /// explicit port 5099
    pub port: bool,
    /// reader / spelling rotate with the case number; `tparam`, `maddr` are enumerated
    pub uri: UriForm,
    pub rng: u8,
}

const PARAM_VIAS: [UriVia; 5] = [
    UriVia::Built,
    UriVia::FromStr,
    UriVia::EndpointParse,
    UriVia::RequestLine,
    UriVia::ContactAngle,
];

pub fn param_cases(tier: Tier) -> Vec<ParamCase> {
    // datagram sets: none / UDP v4 / UDP both / secure v4 / secure both / all four (thorough: + mixed ones)
    let dsets: &[u8] = match tier {
        Tier::Quick => &[0b0000, 0b0001, 0b0011, 0b0100, 0b1100, 0b1111],
        Tier::Thorough => &[0b0000, 0b0001, 0b0011, 0b0100, 0b1100, 0b1111, 0b0110, 0b1001, 0b0101, 0b1010],
    };
    let pres: &[Pre] = match tier {
        Tier::Quick => &[Pre::None, Pre::OutInsecure, Pre::OutSecure],
        Tier::Thorough => &[Pre::None, Pre::OutInsecure, Pre::OutSecure, Pre::OutOtherPort, Pre::Inbound],
    };
    // (transport= selector, maddr= selector)
    let shapes: Vec<(u8, u8)> = match tier {
        Tier::Quick => vec![(1, 0), (2, 0), (3, 0), (4, 0), (6, 0), (0, 1), (0, 2), (1, 1), (2, 2)],
        Tier::Thorough => (1u8..TPARAMS.len() as u8)
            .map(|t| (t, 0u8))
            .chain([0u8, 1, 2, 3].into_iter().flat_map(|t| [(t, 1u8), (t, 2u8)]))
            .collect(),
    };
    let mut v = vec![];
    for &dgrams in dsets {
        for tcp in FACS {
            for tls in FACS {
                let orders: &[bool] = if tcp != Fac::Absent && tls != Fac::Absent {
                    &[false, true]
                } else {
                    &[false]
                };
                for &tls_first in orders {
                    for &pre in pres {
                        for sips in [false, true] {
                            for v6 in [false, true] {
                                for port in [false, true] {
                                    for &(tparam, maddr) in &shapes {
                                        // reader and spelling rotate (multiplicative hash of the case number, so
                                        // they do not run in step with any of the loops above)
                                        let h = (v.len() as u32).wrapping_mul(2_654_435_761);
                                        let via = PARAM_VIAS[((h >> 9) % 5) as usize];
                                        v.push(ParamCase {
                                            dgrams,
                                            tcp,
                                            tls,
                                            tls_first,
                                            pre,
                                            sips,
                                            v6,
                                            port,
                                            uri: UriForm {
                                                via,
                                                scheme: if via == UriVia::Built { 0 } else { ((h >> 13) % 4) as u8 },
                                                user: if via == UriVia::Built { 0 } else { ((h >> 17) % 3) as u8 },
                                                upper_hex: false,
                                                params: ((h >> 21) % params_allowed(via) as u32) as u8,
                                                tparam,
                                                maddr,
                                                routing_last: (h >> 25) & 1 == 1,
                                            },
                                            rng: (v.len() % 5) as u8,
                                        });
                                    }
                                }
                            }
                        }
                    }
                }
            }
        }
    }
    v
}

pub fn check_param(case: &ParamCase, out: &mut CaseOut) {
    let config = Case {
        dgrams: case.dgrams,
        tcp: case.tcp,
        tls: case.tls,
        tls_first: case.tls_first,
        pre: case.pre,
        sips: case.sips,
        v6: case.v6,
        port: case.port,
        pin: PinSel::Empty,
        rng: case.rng,
        binds: [0; 4],
    };
    // same lowering as `config` (the pre-existing connection points at the URI's host and port); only the URI differs
    let mut sc = lower_config(&config);
    let step = &mut sc.steps[0];
    step.uri = case.uri;
    step.target = target_of(step.target.sips, step.target.ip, step.target.port, &case.uri);
    out.class(match case.pre {
        Pre::None => "pre:none",
        Pre::OutInsecure => "pre:insecure-outbound-to-destination",
        Pre::OutSecure => "pre:secure-outbound-to-destination",
        Pre::OutOtherPort => "pre:outbound-to-other-port",
        Pre::OutOtherHost => "pre:outbound-to-other-host",
        Pre::Inbound => "pre:inbound-from-destination",
    });
    run_and_judge(&sc, case.rng, case, out);
}

// ------------------------------------------------------------------------------------------
// sub-check 4: retransmissions and the ACK for a non-2xx final (exhaustive over configurations x scripts)

#[derive(Serialize, Deserialize, Clone, Copy, Debug, Hash, PartialEq, Eq)]
pub enum FuPre {
    None,
    /// insecure outbound connection to the destination, held
    OutInsecure,
    /// secure outbound connection to the destination, held
    OutSecure,
    /// insecure inbound connection from the destination
    InInsecure,
}

#[derive(Serialize, Deserialize, Clone, Copy, Debug, Hash, PartialEq, Eq)]
pub enum Script {
    /// OPTIONS, polled for 1.6 s (two retransmissions over a datagram transport)
    OptionsRetransmit,
    /// INVITE, polled for 1.6 s
    InviteRetransmit,
    /// INVITE, 486 delivered over the given transport
    Final(RespVia),
    /// INVITE, 180 on the carrying transport, then 404 over the given transport (from source port + 1)
    ProvisionalThenFinal(RespVia),
    /// INVITE, 486 on the carrying transport; 700 ms later the peer sends the 486 again over the given transport
    /// (from source port + 1)
    FinalAgain(RespVia),
}

#[derive(Serialize, Deserialize, Clone, Debug, Hash)]
pub struct FollowCase {
    pub dgrams: u8,
    pub facs: FacOrder,
    pub pre: FuPre,
    pub sips: bool,
    pub v6: bool,
    pub pin: PinSel,
    pub script: Script,
    pub rng: u8,
}

pub fn follow_cases(tier: Tier) -> Vec<FollowCase> {
    let fac_sets: &[FacOrder] = match tier {
        Tier::Quick => &[FacOrder::None, FacOrder::TcpTls],
        Tier::Thorough => &[FacOrder::None, FacOrder::TcpTls, FacOrder::Tls, FacOrder::Tcp],
    };
    let mut v = vec![];
    for dgrams in 0u8..16 {
        for &facs in fac_sets {
            for pre in [FuPre::None, FuPre::OutInsecure, FuPre::OutSecure, FuPre::InInsecure] {
                for sips in [false, true] {
                    for v6 in [false, true] {
                        for pin in PINS {
                            let mut vias = vec![RespVia::Same, RespVia::Ext(0), RespVia::Ext(1)];
                            for i in 0..4u8 {
                                if dgrams & (1 << i) != 0 {
                                    vias.push(RespVia::Dgram(i));
                                }
                            }
                            if pre != FuPre::None {
                                vias.push(RespVia::Pre);
                            }
                            let mut scripts = vec![Script::OptionsRetransmit, Script::InviteRetransmit];
                            for via in vias {
                                scripts.push(Script::Final(via));
                                scripts.push(Script::FinalAgain(via));
                                if tier == Tier::Thorough {
                                    scripts.push(Script::ProvisionalThenFinal(via));
                                }
                            }
                            for script in scripts {
                                let rng = (v.len() % 5) as u8;
                                v.push(FollowCase {
                                    dgrams,
                                    facs,
                                    pre,
                                    sips,
                                    v6,
                                    pin,
                                    script,
                                    rng,
                                });
                            }
                        }
                    }
                }
            }
        }
    }
    v
}

pub fn check_follow(case: &FollowCase, out: &mut CaseOut) {
    let target = rs::Target::plain(case.sips, host_ip(case.v6, 0), None);
    let dest = rs::destination(&target);
    let ops = match case.pre {
        FuPre::None => vec![],
        FuPre::OutInsecure => vec![Op::OpenOut { secure: false, remote: dest }],
        FuPre::OutSecure => vec![Op::OpenOut { secure: true, remote: dest }],
        FuPre::InInsecure => vec![Op::OpenIn { secure: false, remote: dest }],
    };
    let (invite, follow) = match case.script {
        Script::OptionsRetransmit => (false, vec![Follow::Wait(1600)]),
        Script::InviteRetransmit => (true, vec![Follow::Wait(1600)]),
        Script::Final(via) => (
            true,
            vec![Follow::Wait(100), Follow::Respond { code: 486, via, shift: false }, Follow::Wait(100)],
        ),
        Script::ProvisionalThenFinal(via) => (
            true,
            vec![
                Follow::Respond { code: 180, via: RespVia::Same, shift: false },
                Follow::Wait(700),
                Follow::Respond { code: 404, via, shift: true },
                Follow::Wait(100),
            ],
        ),
        Script::FinalAgain(via) => (
            true,
            vec![
                Follow::Respond { code: 486, via: RespVia::Same, shift: false },
                Follow::Wait(700),
                Follow::Respond { code: 486, via, shift: true },
                Follow::Wait(100),
            ],
        ),
    };
    let sc = Scenario {
        dgrams: case.dgrams & 0xf,
        binds: [0; 4],
        dgrams_rev: false,
        facs: fac_list(case.facs),
        steps: vec![Step {
            ops,
            fac_ok: [true, true],
            target,
            pin: match case.pin {
                PinSel::Empty => StepPin::None,
                PinSel::Insecure => StepPin::External(0),
                PinSel::Secure => StepPin::External(1),
            },
            hold: false,
            uri: UriForm::default(),
            invite,
            follow,
            hdrs: Hdrs::default(),
            fault: false,
        }],
    };
    out.class(match case.script {
        Script::OptionsRetransmit => "script:OPTIONS-polled-1.6s",
        Script::InviteRetransmit => "script:INVITE-polled-1.6s",
        Script::Final(_) => "script:INVITE-486",
        Script::ProvisionalThenFinal(_) => "script:INVITE-180-404",
        Script::FinalAgain(_) => "script:INVITE-486-486again",
    });
    run_and_judge(&sc, case.rng, case, out);
}

// ------------------------------------------------------------------------------------------
// sub-check 5: header content of the request - pre-loaded route sets and decoy URIs (exhaustive)

#[derive(Serialize, Deserialize, Clone, Debug, Hash)]
pub struct HdrCase {
    pub dgrams: u8,
    pub facs: FacOrder,
    pub sips: bool,
    pub v6: bool,
    pub hdrs: Hdrs,
    pub pin: PinSel,
    pub invite: bool,
    pub rng: u8,
}

/// the header shapes of the `route` sub-check
fn hdr_shapes() -> Vec<Hdrs> {
    let mut v = vec![];
    for decoys in 1u8..4 {
        v.push(Hdrs {
            routes: vec![],
            one_line: false,
            decoys,
        });
    }
    let mut firsts = vec![];
    for sips in [false, true] {
        for lr in [true, false] {
            for host in 0u8..3 {
                for port in [false, true] {
                    firsts.push(RouteEntry {
                        sips,
                        lr,
                        host,
                        port,
                        form: (firsts.len() % 3) as u8,
                        tparam: 0,
                    });
                }
            }
        }
    }
    // the topmost entry names a transport (`;transport=tcp` / `;transport=udp`)
    for first in firsts.iter().filter(|f| f.host != 1 && !f.port) {
        for tparam in [1u8, 2] {
            v.push(Hdrs {
                routes: vec![RouteEntry { tparam, ..*first }],
                one_line: false,
                decoys: 0,
            });
        }
    }
    for first in &firsts {
        for decoys in [0u8, 3] {
            v.push(Hdrs {
                routes: vec![*first],
                one_line: false,
                decoys,
            });
        }
        for second_sips in [false, true] {
            for one_line in [false, true] {
                let second = RouteEntry {
                    sips: second_sips,
                    lr: true,
                    host: 0,
                    port: false,
                    form: 0,
                    tparam: 0,
                };
                v.push(Hdrs {
                    routes: vec![*first, second],
                    one_line,
                    decoys: 0,
                });
            }
        }
    }
    v
}

pub fn hdr_cases(tier: Tier) -> Vec<HdrCase> {
    let configs: Vec<(u8, FacOrder)> = match tier {
        Tier::Quick => [0b0000u8, 0b0011, 0b1100, 0b1111]
            .into_iter()
            .flat_map(|d| {
                [FacOrder::None, FacOrder::TcpTls, FacOrder::Tcp, FacOrder::Tls]
                    .into_iter()
                    .map(move |f| (d, f))
            })
            .collect(),
        Tier::Thorough => [0b0000u8, 0b0011, 0b1100, 0b1111, 0b0001, 0b0100, 0b0110, 0b1001]
            .into_iter()
            .flat_map(|d| {
                [FacOrder::None, FacOrder::TcpTls, FacOrder::TlsTcp, FacOrder::Tcp, FacOrder::Tls]
                    .into_iter()
                    .map(move |f| (d, f))
            })
            .collect(),
    };
    let pins: &[PinSel] = match tier {
        Tier::Quick => &[PinSel::Empty, PinSel::Secure],
        Tier::Thorough => &PINS,
    };
    let shapes = hdr_shapes();
    let mut v = vec![];
    for (dgrams, facs) in configs {
        for sips in [false, true] {
            for v6 in [false, true] {
                for hdrs in &shapes {
                    for &pin in pins {
                        let rng = (v.len() % 5) as u8;
                        let invite = v.len() % 3 == 1;
                        v.push(HdrCase {
                            dgrams,
                            facs,
                            sips,
                            v6,
                            hdrs: hdrs.clone(),
                            pin,
                            invite,
                            rng,
                        });
                    }
                }
            }
        }
    }
    v
}

pub fn check_hdr(case: &HdrCase, out: &mut CaseOut) {
    let sc = Scenario {
        dgrams: case.dgrams & 0xf,
        binds: [0; 4],
        dgrams_rev: false,
        facs: fac_list(case.facs),
        steps: vec![Step {
            ops: vec![],
            fac_ok: [true, true],
            target: rs::Target::plain(case.sips, host_ip(case.v6, 0), None),
            pin: match case.pin {
                PinSel::Empty => StepPin::None,
                PinSel::Insecure => StepPin::External(0),
                PinSel::Secure => StepPin::External(1),
            },
            hold: false,
            uri: UriForm::default(),
            invite: case.invite,
            follow: vec![],
            hdrs: case.hdrs.clone(),
            fault: false,
        }],
    };
    run_and_judge(&sc, case.rng, case, out);
}

// ------------------------------------------------------------------------------------------
// sub-check 6: several requests with ONE target info, some of which fail at their first send (exhaustive)

#[derive(Serialize, Deserialize, Clone, Copy, Debug, Hash, PartialEq, Eq)]
pub enum PinKind {
    /// the caller pins EXT[i] (0, 1 datagram-like; 2, 3 report reliable) and a foreign destination
    Ext(u8),
    /// the caller opens a connection (secure?) to the destination and pins it
    OwnConn(bool),
    /// the target info starts empty; ezk fills it in for a first request that succeeds
    Populated,
}

#[derive(Serialize, Deserialize, Clone, Debug, Hash)]
pub struct HistCase {
    pub dgrams: u8,
    pub facs: FacOrder,
    pub kind: PinKind,
    /// requests sent with the target info before the last one: (INVITE?, first send fails?)
    pub history: Vec<(bool, bool)>,
    /// the last request is an INVITE
    pub last_invite: bool,
    pub sips: bool,
    pub v6: bool,
    pub rng: u8,
}

pub fn hist_cases(tier: Tier) -> Vec<HistCase> {
    let dsets: &[u8] = match tier {
        Tier::Quick => &[0b0000, 0b0101, 0b1111],
        Tier::Thorough => &[0b0000, 0b0101, 0b1111, 0b0011, 0b1100, 0b1010],
    };
    let fsets: &[FacOrder] = match tier {
        Tier::Quick => &[FacOrder::None, FacOrder::TcpTls],
        Tier::Thorough => &[FacOrder::None, FacOrder::TcpTls, FacOrder::TlsTcp, FacOrder::Tcp, FacOrder::Tls],
    };
    let kinds = [
        PinKind::Ext(0),
        PinKind::Ext(1),
        PinKind::Ext(2),
        PinKind::Ext(3),
        PinKind::OwnConn(false),
        PinKind::OwnConn(true),
        PinKind::Populated,
    ];
    let histories: [&[(bool, bool)]; 7] = [
        &[],
        &[(false, true)],
        &[(true, true)],
        &[(false, false), (false, true)],
        &[(false, true), (true, true)],
        &[(true, false)],
        &[(false, true), (false, false)],
    ];
    let mut v = vec![];
    for &dgrams in dsets {
        for &facs in fsets {
            for kind in kinds {
                for history in histories {
                    for last_invite in [false, true] {
                        for sips in [false, true] {
                            for v6 in [false, true] {
                                let rng = (v.len() % 5) as u8;
                                v.push(HistCase {
                                    dgrams,
                                    facs,
                                    kind,
                                    history: history.to_vec(),
                                    last_invite,
                                    sips,
                                    v6,
                                    rng,
                                });
                            }
                        }
                    }
                }
            }
        }
    }
    v
}

pub fn check_hist(case: &HistCase, out: &mut CaseOut) {
    let target = rs::Target::plain(case.sips, host_ip(case.v6, 0), None);
    let dest = rs::destination(&target);
    let mut requests: Vec<(bool, bool)> = vec![];
    if case.kind == PinKind::Populated {
        requests.push((false, false));
    }
    requests.extend(case.history.iter().copied());
    requests.push((case.last_invite, false));
    let steps = requests
        .iter()
        .enumerate()
        .map(|(i, (invite, fault))| Step {
            ops: match (i, case.kind) {
                (0, PinKind::OwnConn(secure)) => vec![Op::OpenOut { secure, remote: dest }],
                _ => vec![],
            },
            fac_ok: [true, true],
            target: target.clone(),
            // the first request creates the target info (and the test keeps it), all others are sent with it
            pin: match (i, case.kind) {
                (0, PinKind::Ext(k)) => StepPin::External((k as usize).min(EXT.len() - 1)),
                (0, PinKind::OwnConn(_)) => StepPin::OpConn(0),
                (0, PinKind::Populated) => StepPin::None,
                _ => StepPin::SlotSel(0),
            },
            hold: i == 0,
            uri: UriForm::default(),
            invite: *invite,
            follow: vec![],
            hdrs: Hdrs::default(),
            fault: *fault,
        })
        .collect();
    let sc = Scenario {
        dgrams: case.dgrams & 0xf,
        binds: [0; 4],
        dgrams_rev: false,
        facs: fac_list(case.facs),
        steps,
    };
    out.class(match case.kind {
        PinKind::Ext(k) if EXT_RELIABLE[(k as usize).min(EXT.len() - 1)] => "target-info:caller-pins-external-reliable-transport",
        PinKind::Ext(_) => "target-info:caller-pins-external-datagram-transport",
        PinKind::OwnConn(_) => "target-info:caller-pins-own-connection",
        PinKind::Populated => "target-info:filled-in-by-a-first-request",
    });
    out.class(match case.history.iter().filter(|h| h.1).count() {
        0 => "history:no-failed-send",
        1 => "history:one-failed-send",
        _ => "history:two-failed-sends",
    });
    run_and_judge(&sc, case.rng, case, out);
}

pub fn property() -> Property {
    Property {
        fuzz: vec![],
        id: "C14",
        rule: "config: every combination of {UDP/v4, UDP/v6, secure datagram/v4, secure datagram/v6} subsets x insecure factory {absent, connects, refuses} x secure factory {absent, connects, refuses} (both registration orders when both are present) x pre-existing connection {none, insecure outbound to the destination, secure outbound to the destination, secure outbound to the same host other port, secure outbound to another host, secure inbound from the destination} (all held by a TpHandle) x {sip, sips} x {IPv4, IPv6 literal} x {no port, :5099} x target info {empty, pinned to a secure / an insecure transport outside the configuration with a foreign destination}; one OPTIONS request per configuration, each in its own paused-clock world. bound-addr: the same space with other bound() addresses of the datagram transports - every non-empty datagram subset x bind variant {IPv4: 10.0.0.1, 0.0.0.0, 127.0.0.1; IPv6: fd00::1, [::], [::1], [::ffff:10.0.0.1]} per family, shared by the insecure and the secure transport of the family (thorough: per transport), the all-concrete combination left to config x insecure factory {absent, connects, refuses} x secure factory {absent, connects, refuses} (both registration orders) x pre-existing connection {none, insecure outbound to the destination, secure outbound to the destination} x {sip, sips} x {IPv4, IPv6 literal} (thorough: x {no port, :5099}), empty target info; non-trivial additionally: no datagram transport of the destination's family is eligible while one of the other family bound to a wildcard / loopback / IPv4-mapped address fits the security requirement (only the family rule keeps the request off it). uri-text: the target URI is text read by ezk before it becomes the request target - reader {SipUri::from_str, Endpoint::parse_uri, request line / Contact name-addr / Contact addr-spec of a received request} x scheme spelling {lower, UPPER, Capitalised, mIxed} x {sip, sips} x user part {none, user, user:password} x host {IPv4, IPv6 lower case hex, IPv6 upper case hex (thorough: + IPv4-mapped)} x {no port, :5099} x parameters {none, ;lr, ;user=phone;ttl=5, ;method=OPTIONS, ?subject=hi as far as the reader's grammar allows them} x 8 endpoint configurations (datagram sets {UDP both families, all four, none, secure both families} x factories {both, none}; thorough 30); the reference sees only the generated (sips, ip, port) triple the text was rendered from. uri-param: the target URI carries ;transport= and / or ;maddr= - datagram sets {none, UDP/v4, UDP both, secure/v4, secure both, all four (thorough: + 4 mixed)} x insecure factory {absent, connects, refuses} x secure factory {absent, connects, refuses} (both registration orders) x pre-existing connection {none, insecure outbound to the destination, secure outbound to the destination (thorough: + secure outbound to the other port, secure inbound from the destination)} x {sip, sips} x {IPv4, IPv6} x {no port, :5099} x parameter shape {transport=tcp, udp, tls, TCP, sctp; maddr=host of the same family, of the other family; transport=tcp + maddr same family; transport=udp + maddr other family (thorough: all 8 transport values; maddr x {none, tcp, udp, tls})}; the reader {builder API, SipUri::from_str, Endpoint::parse_uri, received request line, received Contact name-addr}, scheme spelling, user part, other uri-parameters and the position of the routing parameters among them rotate with a multiplicative hash of the case number. Non-trivial additionally: honouring the transport= value would change the set of eligible candidates; a sips URI whose transport= value names an insecure candidate that is configured and would connect / is bound to the right family; a sips URI with maddr= and an insecure candidate present. followup: one driven request per case - datagram subsets x factories {none, both} x pre-existing connection {none, insecure outbound to the destination, secure outbound to the destination, insecure inbound from the destination} x {sip, sips} x {IPv4, IPv6} x target info {empty, secure pin, insecure pin} x script {OPTIONS polled 1.6 s, INVITE polled 1.6 s, INVITE answered 486 over V, INVITE answered 486 on the carrying transport and again over V 700 ms later from the peer's port + 1 (thorough: + 180, then 404 over V from port + 1)} with V over {the carrying transport, each configured datagram transport, the two transports outside the configuration, the pre-existing connection}; observed: every later request with the transaction's Call-ID (retransmissions, ACK, repeated ACK), its carrier and destination. sequence: 2..6 requests with varying URIs (2 hosts per family, ports default/5060/5061/5099/0/65535) against one endpoint; transaction + target info of each request held or dropped at random, held ones released later, 40 s pauses expire unreferenced connections, kept target infos are re-used as pins, factories refuse per step, inbound connections from the destination appear. Observed: which mock's send() carried the request to which destination, which factory was asked to connect. Non-trivial = (sips target and at least one insecure candidate configured) or eligible candidates on at least two of the paths datagram / existing connection / factory; each step also draws the URI form (40 % built, 60 % one of the five text readers with random spelling; 5 in 17 with ;transport= {tcp/TCP 2, udp/UDP 1, tls/Tls 1, sctp/ws 1}, 1 in 8 with ;maddr= of the same / the other family, in front of or behind the other uri-parameters; never on a bare addr-spec Contact), the method (40 % INVITE) and, for 25 % of the steps, a follow-up script of 1..3 events (wait 300/600/1100/2100 ms; 180 / 200 / 302 / 404 / 486 / 603 delivered over the carrying transport, a configured or foreign datagram transport or any open connection, datagram responses from the destination's port or port + 1). Non-trivial additionally: a request with later transmissions whose target is sips, whose transport was pinned, or whose non-2xx final arrived over another transport than the request left on. route: one request per case - datagram sets {none, UDP both families, secure both families, all four} x factories {none, both, insecure only, secure only} (thorough: 8 x 5) x Request-URI {sip, sips} x {IPv4, IPv6} x header shape {decoy Contact / To only (3); one Route entry: {sip, sips} x {;lr, strict} x host {IPv4 proxy, IPv6 proxy, Request-URI host} x {no port, :5077}, with and without decoys (48); two entries, second {sip, sips};lr, as two headers / one comma list (96); one entry with ;transport={tcp, udp}: {sip, sips} x {;lr, strict} x host {IPv4 proxy, Request-URI host} (16)} x target info {empty, secure pin (thorough: + insecure pin)}; every third case an INVITE. pin-history: datagram sets {none, UDP+secure datagram IPv4, all four} x factories {none, both} (thorough 6 x 5) x target info {caller pins one of four transports outside the configuration (two of them report reliable()), caller pins an insecure / secure connection it opened to the destination, empty and filled in by a first successful request} x history of requests sent with the same target info object before the last one {none; OPTIONS whose send fails; INVITE whose send fails; OPTIONS ok, OPTIONS fails; OPTIONS fails, INVITE fails; INVITE ok; OPTIONS fails, OPTIONS ok} x last request {OPTIONS, INVITE} x {sip, sips} x {IPv4, IPv6}. sequence steps additionally draw: header shape (62 % no extra header, 25 % a route set of 1..2 random entries (1 in 3 with ;transport= tcp / udp / tls) + random decoys, 13 % decoys only), send fault for the first transmission (1 in 6), target info {empty; 1 in 5 the object kept from an earlier held request, used in place; 1 in 11 of the rest an own pin: external transport 0..3 or the connection the caller opened}, 1 in 13 an outbound connection the caller opens to the destination first. Non-trivial additionally: a route set + a sips URI (Request-URI or topmost entry) with an insecure candidate configured; a pinned request sent with a target info that has seen a failed send. sequence endpoints additionally draw the bound() address per configured datagram transport (half of the endpoints all concrete; else IPv4 {10.0.0.1, 0.0.0.0, 127.0.0.1} 1:1:1, IPv6 {fd00::1, [::], [::1], [::ffff:10.0.0.1]} 2:2:1:1). Distinct by hash of the case.",
        assumptions: vec![
            "the address family of a datagram transport is the family of the socket address it reports as bound(): 0.0.0.0 / 127.0.0.1 are IPv4, [::] / [::1] / [::ffff:10.0.0.1] are IPv6 (that a [::] socket may be dual-stack in the kernel is not part of the statement: the destination is handed to the transport unmapped); a wildcard / loopback bound address does not make a transport of the destination's family ineligible (liveness is asserted with it like with a concrete one); the bound port plays no role",
            "IP-literal targets only (no DNS: the resolver has no name servers); mock streams stand in for TCP/TLS (no handshake); maddr= values are IP literals",
            "a ;transport= / ;maddr= uri-parameter on the target URI (or ;transport= on the topmost Route entry): the statement mentions neither, so ignoring it (the pinned tree) and honouring it (RFC 3261 19.1.1, RFC 3263 4.1: transport= narrows the candidates to the named transport, maddr= replaces the host as the address to contact) are both accepted, per parameter; an observation clean under any reading is accepted. How a honouring stack matches names is open too (exact name; TLS also answers to tcp = ezk's documented matches_transport_param; tcp on a sips URI means TLS): membership is judged with the candidates that match under some interpretation (udp: any datagram transport; tcp: any stream factory / connection; tls: secure streams; sctp / ws: nothing), liveness and the reuse preference with those that match under every interpretation (udp: insecure datagram; tcp: TCP, and TLS for a sips URI; tls: TLS). Under no reading does a sips URI leave over a transport that does not report itself secure",
            "the URI scheme is case-insensitive (RFC 3261 19.1.1, RFC 3986 3.1): SIPS: / Sips: name a sips target; user part, password, IPv6 hex case and uri/header parameters other than transport/maddr do not influence destination or transport; the transport= value is case-insensitive (RFC 3261 19.1.4)",
            "retransmissions of a request and the ACK an INVITE client transaction builds for a 3xx-6xx are requests to the same URI: never-in-clear, destination/port, datagram family and reuse of a caller-pinned transport + destination are asserted for each of them; that they use the carrier of the first transmission when nothing was pinned is NOT asserted (the statement is silent, RFC 3261 17.1.1.3 is C07's neighbourhood)",
            "a response is matched to its transaction by branch and method only, so it may reach the endpoint over any transport (other datagram socket of a multi-homed host, another connection, an attacker's clear-text packet); which transport delivered it must not influence where the ACK goes",
            "Transports.transports is a HashMap: with several eligible candidates membership in the admissible set is asserted, plus the stated preference 'live outgoing connection before a new one'; datagram-vs-connection and datagram-vs-factory preference is not asserted",
            "a connection is 'live' (reuse demanded) while the application holds a handle to it; an open but unreferenced connection may be reused or replaced; whether a connection is still open is read from the peer end (EOF), its 32 s lifetime is C15's subject",
            "sips target + target info pinned to an insecure transport: the statement's 'pinned is reused' and 'never in clear' collide; verbatim use and refusal are both accepted",
            "connect attempts towards a factory that is not eligible are not asserted as long as nothing is sent over the result",
            "a request with a pre-loaded Route header: 'the target' may be read as the Request-URI (what the pinned tree does: Route headers do not influence selection) or as the topmost Route entry (RFC 3261 8.1.2 next hop; sips if the entry or the Request-URI is sips; port = the entry's port, else the default of the effective scheme, for a sip: entry behind a sips Request-URI also 5060); an observation clean under any reading is accepted, so a sips Request-URI is never allowed over an insecure transport and a sip Request-URI behind a sips entry may go in clear to the Request-URI only; Route entries are IP literals without maddr=, a ;transport= on the topmost entry is read like one on the target URI (ignored or honoured) under the readings that take the entry as next hop; Contact / To URIs never influence the next hop",
            "send faults are transient: the failing Transport::send call puts nothing on the wire and the transport (datagram mock, external mock reporting reliable(), mock connection) stays open and usable; a request whose send failed may fail; a target info belongs to the caller: what it pinned there (or what ezk stored for its first successful request) is what later requests sent with that object must use, whatever happened to requests in between",
        ],
        explanation: "config (29952 configurations, both tiers), bound-addr (17784 quick / 119808 thorough), uri-text (23040 quick / 115200 thorough), uri-param (16848 quick / 83200 thorough; reader and spelling rotate, everything else is a full product), followup (20736 quick / 59136 thorough), route (20864 quick / 78240 thorough) and pin-history (2352 quick / 11760 thorough) are exhaustive over their stated products; sequence is sampled (thorough-weighted)",
        subs: vec![
            enum_sub("config", config_cases, check_config),
            enum_sub("bound-addr", bound_cases, check_config),
            enum_sub("uri-text", text_cases, check_text),
            enum_sub("uri-param", param_cases, check_param),
            enum_sub("followup", follow_cases, check_follow),
            enum_sub("route", hdr_cases, check_hdr),
            enum_sub("pin-history", hist_cases, check_hist),
            prop_sub("sequence", seq_strategy, 5000, 60_000, check_seq),
        ],
    }
}
