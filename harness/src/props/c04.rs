//! C04 — Messages reach exactly the transaction RFC 3261 sec. 17 matching prescribes
//!
//! Generated: timed histories of peer requests (2 RFC 3261 branches, a cookie-less branch, no branch, the branch
//! of ezk's own client transactions; 6 methods; Call-ID / From-tag / CSeq / sent-by each equal or different;
//! Request-Line method equal to or different from the CSeq method), application answers (provisional / 2xx /
//! failure), application sends and peer responses (branch and CSeq method each equal or different), over a
//! reliable or unreliable transport whose writes return at once or take SLOW_MS of virtual time. Everything
//! the application does that writes to the transport (final and provisional answers, send_request /
//! send_invite) runs in a task of its own, so the following messages of the history arrive WHILE that write
//! is in progress (a response can reach the endpoint before send_request has returned).
//! Who owns the server transaction is varied too: a request is either taken by the application's layer (held
//! until an answer event) or left alone by every layer, in which case the endpoint answers it by itself (481)
//! and copies / the ACK must be absorbed by THAT transaction. Client transactions advertise the transport's
//! own address or a different sent-by in their Via (`TargetTransportInfo::via_host_port`: unrelated IPv4
//! host:port, other port, host name with / without port, IPv6 reference); the peer echoes the Via as is or
//! with `received` / `rport` added. Every peer message arrives by one of four paths: the usual one, another
//! source port, another source IP, another local transport of the endpoint.
//! Transient transport faults: the write of a response can FAIL (`send` returns ECONNREFUSED, nothing goes on the
//! wire) in the two places where that is not the answer the application is waiting for: the final response a
//! non-INVITE server transaction (the application's or the endpoint's own) retransmits for a copy of the request
//! over an unreliable transport, and a provisional response (the application ignores the error and keeps the
//! transaction). The fault is aimed at that one response by its identifiers, so nothing else is hit. Afterwards
//! the history goes on: further copies arrive inside the transaction's life, and after its end.
//! Oracle: symbolic reference model of RFC 3261 17.1.3 / 17.2.3 (identifier equality only) that predicts which
//! requests the layers are shown, in which order, and which responses each client transaction's receive()
//! yields. Matching is by the identifiers in the message only: neither the advertised sent-by of a client
//! transaction, nor extra Via parameters, nor the source address / local transport a message arrives by, nor
//! who created the server transaction, nor whether a response write of the transaction failed, enter the
//! prediction: a server transaction that has sent its final response keeps absorbing copies until 64*T1 after
//! that response (unreliable) whether or not a retransmission of the response could be written.
//! Not asserted: arrivals on a transaction's end-of-life edge (see `assumptions`); whether a request whose
//! Request-Line method differs from its CSeq method is ITSELF shown to the layers or absorbed (RFC 3261 matches
//! on the request method, ezk keys on the CSeq method, the statement is silent) — asserted is only that such a
//! message (never with an ACK line) neither starts nor ends a transaction, i.e. every well-formed message
//! after it is treated as if it had not arrived; what goes on the wire (retransmitted responses, the status the
//! endpoint answers an untaken request with, which transport a response leaves on); what becomes of a transaction
//! when the write of the application's FINAL answer itself, of an INVITE failure response retransmission, or of a
//! client transaction's request fails (ezk reports those errors to the application and ends the transaction;
//! never generated).

use super::c05::Res;
use crate::engine::*;
use crate::refmodel::ref_tsx::{T2, T4, TIMEOUT};
use crate::world::*;
use parking_lot::Mutex;
use proptest::prelude::*;
use serde::{Deserialize, Serialize};
use sip_core::transport::TargetTransportInfo;
use sip_core::{IncomingRequest, Request};
use sip_types::host::{Host, HostPort};
use sip_types::uri::sip::SipUri;
use sip_types::{Code, Method, Name};
use std::collections::HashMap;
use std::net::SocketAddr;
use std::sync::Arc;
use tokio::sync::mpsc;

const SERVER_METHODS: &[&str] = &["INVITE", "OPTIONS", "BYE", "CANCEL", "ACK", "PRACK"];
const CLIENT_METHODS: &[&str] = &["OPTIONS", "INVITE", "BYE"];

#[derive(Serialize, Deserialize, Clone, Copy, Debug, Hash, PartialEq, Eq)]
pub enum BranchSym {
    /// 0,1: RFC 3261 branches; 2: cookie-less branch value; 3: no branch parameter at all
    Peer(u8),
    /// the branch ezk generated for its own client transaction in that slot
    Client(u8),
}

#[derive(Serialize, Deserialize, Clone, Debug, Hash)]
pub struct ReqEv {
    pub branch: BranchSym,
    pub method: u8,
    pub call_id: u8,
    pub from_tag: u8,
    pub cseq: u8,
    pub sent_by: u8,
    /// 0: the Request-Line method is the CSeq method (`method`); k > 0: the Request-Line carries another,
    /// non-ACK method (`line_method`) while CSeq still says `method` — a "mismatched" request
    #[serde(default)]
    pub line: u8,
    /// 0: the application's layer takes the request (and holds it until it answers); k > 0: NO layer takes it,
    /// the endpoint answers it by itself (481 through a server transaction of its own). Ignored for
    /// mismatched requests (always taken and dropped).
    #[serde(default)]
    pub take: u8,
    /// path the datagram arrives by (see `PATHS`): 0 the usual one; 1 from another source port of the peer;
    /// 2 from another source IP; 3 on another local transport of the endpoint
    #[serde(default)]
    pub path: u8,
    /// k > 0: the write of the response this arrival makes a transaction retransmit FAILS (the transport's
    /// `send` returns an io::Error, nothing goes on the wire: what a UDP socket reports after an ICMP port
    /// unreachable). Only in effect when the arrival is a copy absorbed by a non-INVITE server transaction that
    /// has sent its final response over an unreliable transport (the one place where a request makes a
    /// transaction write although the application has long been told that its answer went out); ignored otherwise.
    #[serde(default)]
    pub fault: u8,
}

/// number of arrival paths (ReqEv::path, Ev::Resp::path)
const PATHS: u8 = 4;

/// what a client transaction advertises as sent-by of its Via (`TargetTransportInfo::via_host_port`):
/// 0: nothing (the transport's own sent_by()); then an IPv4 host:port unrelated to the transport (NAT-mapped
/// public address), the transport's IP with another port, a host name without / with port, the transport's
/// own address spelled out, an IPv6 reference
const ADVERTISED: &[Option<(&str, Option<u16>)>] = &[
    None,
    Some(("203.0.113.7", Some(40000))),
    Some(("10.0.0.1", Some(5099))),
    Some(("gw.example.org", None)),
    Some(("gw.example.org", Some(5060))),
    Some(("10.0.0.1", Some(5060))),
    Some(("2001:db8::7", Some(5060))),
];

/// address of the transport the client transactions send on
const LOCAL: (&str, u16) = ("10.0.0.1", 5060);
/// a second transport of the endpoint
const LOCAL2: &str = "10.0.0.2:5070";

/// the advertised sent-by is not what the transport itself would have inserted
fn foreign_via(via: u8) -> bool {
    matches!(ADVERTISED[via as usize % ADVERTISED.len()], Some(hp) if hp != (LOCAL.0, Some(LOCAL.1)))
}

/// source address of a datagram of the peer arriving by `path`
fn source_of(path: u8) -> SocketAddr {
    match path % PATHS {
        1 => "192.0.2.9:6060",
        2 => "192.0.2.77:5060",
        _ => "192.0.2.9:5060",
    }
    .parse()
    .unwrap()
}

fn advertised(via: u8) -> Option<HostPort> {
    let (host, port) = ADVERTISED[via as usize % ADVERTISED.len()]?;
    let host = match host.parse::<std::net::IpAddr>() {
        Ok(ip) => Host::from(ip),
        Err(_) => Host::Name(host.into()),
    };
    Some(HostPort { host, port })
}

/// Request-Line methods of mismatched requests (never ACK: an ACK line can legitimately end an INVITE transaction)
const LINE_METHODS: &[&str] = &["OPTIONS", "BYE", "CANCEL", "PRACK", "INVITE", "INFO"];

/// Request-Line method of a mismatched request: the k-th of LINE_METHODS, stepping over the CSeq method
fn line_method(r: &ReqEv) -> Option<&'static str> {
    if r.line == 0 {
        return None;
    }
    let cseq_method = SERVER_METHODS[r.method as usize % SERVER_METHODS.len()];
    let mut idx = (r.line as usize - 1) % LINE_METHODS.len();
    if LINE_METHODS[idx] == cseq_method {
        idx = (idx + 1) % LINE_METHODS.len();
    }
    Some(LINE_METHODS[idx])
}

#[derive(Serialize, Deserialize, Clone, Debug, Hash)]
pub enum Ev {
    /// peer sends a request
    Req(ReqEv),
    /// application answers one of the requests it holds: kind 0 provisional, 1 2xx, 2 failure;
    /// `fault` k > 0 on a provisional answer: the write of that provisional response fails (the application
    /// ignores the error and keeps holding the transaction); ignored for final answers
    Answer {
        sel: u16,
        kind: u8,
        #[serde(default)]
        fault: u8,
    },
    /// application sends a request (client transaction) in a slot; `via` selects what it advertises as
    /// sent-by of its Via (`ADVERTISED`)
    Send {
        slot: u8,
        method: u8,
        #[serde(default)]
        via: u8,
    },
    /// peer sends a response derived from the slot's request (all Via values echoed): branch 0 same / 1 other
    /// slot's / 2 mangled; cseq_method 0 same / 1 different; `path` the way it arrives (like ReqEv::path);
    /// `decor` 0: Via echoed as is, 1: `;received=` appended, 2: `;rport=..;received=..` appended (what a
    /// UAS does when the source of the request is not the sent-by)
    Resp {
        slot: u8,
        branch: u8,
        cseq_method: u8,
        code: u16,
        #[serde(default)]
        path: u8,
        #[serde(default)]
        decor: u8,
    },
}

#[derive(Serialize, Deserialize, Clone, Debug, Hash)]
pub struct Case {
    pub reliable: bool,
    /// (gap to previous event in ms, event)
    pub events: Vec<(u64, Ev)>,
    /// every write on the transport takes 2 ms of virtual time (messages can arrive while a response is being sent)
    #[serde(default)]
    pub slow_send: bool,
    pub rng: u8,
}

/// duration of every write on a slow transport
const SLOW_MS: u64 = 2;

const GAPS: &[u64] = &[1, 1, 7, 100, 501, T4 - 4, T4 + 4, 31_996, 32_004, 31_996, 32_004, TIMEOUT + T2 + 20];

/// arrival path of a datagram: mostly the usual one
fn path_strategy() -> impl Strategy<Value = u8> {
    prop_oneof![5 => Just(0u8), 1 => Just(1u8), 1 => Just(2u8), 1 => Just(3u8)]
}

/// what a client transaction advertises in its Via: a third of the time the transport's own address
fn via_strategy() -> impl Strategy<Value = u8> {
    prop_oneof![3 => Just(0u8), 6 => 1u8..(ADVERTISED.len() as u8)]
}

pub fn strategy() -> BoxedStrategy<Case> {
    let req = (
        prop_oneof![
            3 => (0u8..2).prop_map(BranchSym::Peer),
            2 => (2u8..4).prop_map(BranchSym::Peer),
            1 => (0u8..2).prop_map(BranchSym::Client),
        ],
        prop_oneof![3 => Just(0u8), 3 => Just(1u8), 1 => Just(2u8), 2 => Just(3u8), 3 => Just(4u8), 1 => Just(5u8)],
        prop_oneof![4 => Just(0u8), 1 => Just(1u8)],
        prop_oneof![4 => Just(0u8), 1 => Just(1u8)],
        prop_oneof![4 => Just(0u8), 1 => Just(1u8)],
        prop_oneof![4 => Just(0u8), 1 => Just(1u8)],
        // Request-Line method differs from the CSeq method
        prop_oneof![7 => Just(0u8), 1 => 1u8..7],
        // no layer takes the request (the endpoint answers it by itself)
        prop_oneof![4 => Just(0u8), 1 => Just(1u8)],
        path_strategy(),
        // the response write this arrival triggers fails
        prop_oneof![2 => Just(0u8), 1 => Just(1u8)],
    )
        .prop_map(|(branch, method, call_id, from_tag, cseq, sent_by, line, take, path, fault)| {
            Ev::Req(ReqEv { branch, method, call_id, from_tag, cseq, sent_by, line, take, path, fault })
        });
    let ev = prop_oneof![
        6 => req,
        3 => (any::<u16>(), 0u8..3, prop_oneof![2 => Just(0u8), 1 => Just(1u8)]).prop_map(|(sel, kind, fault)| Ev::Answer { sel, kind, fault }),
        2 => (0u8..2, 0u8..3, via_strategy()).prop_map(|(slot, method, via)| Ev::Send { slot, method, via }),
        4 => (0u8..2, prop_oneof![3 => Just(0u8), 1 => Just(1u8), 1 => Just(2u8)], prop_oneof![3 => Just(0u8), 1 => Just(1u8)],
              prop_oneof![Just(100u16), Just(180u16), Just(200u16), Just(404u16), Just(603u16)],
              path_strategy(), prop_oneof![3 => Just(0u8), 1 => Just(1u8), 1 => Just(2u8)])
            .prop_map(|(slot, branch, cseq_method, code, path, decor)| Ev::Resp { slot, branch, cseq_method, code, path, decor }),
    ];
    (
        prop_oneof![3 => Just(false), 1 => Just(true)],
        prop::collection::vec((any::<u16>(), ev), 3..13),
        any::<u8>(),
    )
        .prop_map(|(reliable, evs, rng)| Case {
            reliable,
            events: evs.into_iter().map(|(g, e)| (GAPS[pick_idx(g, GAPS.len())], e)).collect(),
            slow_send: rng % 3 == 0,
            rng,
        })
        .boxed()
}

/// histories built around the end of a transaction's life: a request, its final answer, and a copy of
/// the request (or a near-miss of it) a few ms before / after the transaction ends; likewise for a client
/// transaction and duplicates of its final response
pub fn lifecycle_strategy() -> BoxedStrategy<Case> {
    (
        prop_oneof![3 => Just(false), 1 => Just(true)],
        (0u8..4, prop_oneof![Just(0u8), Just(1u8), Just(2u8), Just(3u8), Just(5u8)], 1u8..3, prop_oneof![Just(1u64), Just(100u64), Just(700u64)]),
        prop_oneof![Just(TIMEOUT - 4), Just(TIMEOUT + 4), Just(TIMEOUT - 300), Just(TIMEOUT + T2 + 20), Just(500u64)],
        (0u8..6, any::<bool>()),
        (0u8..3, prop_oneof![Just(200u16), Just(404u16), Just(180u16)], prop_oneof![Just(1u64), Just(600u64)]),
        prop_oneof![Just(T4 - 4), Just(T4 + 4), Just(31_996u64), Just(32_004u64), Just(TIMEOUT - 4), Just(TIMEOUT + 4), Just(10u64)],
        (0u8..3, 0u8..2, prop_oneof![Just(200u16), Just(404u16)]),
        any::<u8>(),
        // an identical copy absorbed somewhere inside the transaction's life (it must not prolong that life)
        prop_oneof![3 => Just(None), 1 => Just(Some(501u64)), 1 => Just(Some(10_000u64)), 1 => Just(Some(20_000u64)), 1 => Just(Some(31_000u64))],
        // a burst of identical copies while the application still holds the request unanswered
        prop_oneof![6 => Just(0u8), 1 => Just(3u8), 1 => Just(34u8), 1 => Just(70u8)],
        // a mismatched request (Request-Line method != CSeq method, all identifiers of the base request) that
        // arrives while the application still holds the base request (false) or after it answered (true);
        // for an INVITE the CSeq method is INVITE or ACK (both are keyed onto the INVITE transaction)
        prop_oneof![
            3 => Just(None),
            2 => (1u8..7, any::<bool>(), any::<bool>(), prop_oneof![Just(1u64), Just(40u64)]).prop_map(Some),
        ],
        // the base request is left alone by the layers (answered by the endpoint itself, the application's
        // answer event then finds nothing to answer); arrival path of the copies; advertised Via of the client
        // transaction; arrival path and Via decoration of the responses
        // `faults`: bit 0: the response write the mid-life copy triggers fails; bit 1: the one the copy near the
        // end of life triggers; bit 2: a provisional answer precedes the final one and its write fails
        (prop_oneof![3 => Just(0u8), 1 => Just(1u8)], path_strategy(), via_strategy(), path_strategy(), 0u8..3,
         prop_oneof![3 => Just(0u8), 2 => Just(1u8), 1 => Just(2u8), 1 => Just(3u8), 1 => Just(4u8), 1 => Just(5u8)]),
    )
        .prop_map(|(reliable, (b, m, kind, g1), g2, (vary, ack), (cm, code, g3), g4, (rb, rc, code2), rng, mid, flood, probe, (take, qpath, via, rpath, decor, faults))| {
            let base = ReqEv { branch: BranchSym::Peer(b), method: m, call_id: 0, from_tag: 0, cseq: 0, sent_by: 0, line: 0, take, path: 0, fault: 0 };
            let probe_ev = |line: u8, as_ack: bool| {
                Ev::Req(ReqEv { line, method: if m == 0 && as_ack { 4 } else { m }, ..base.clone() })
            };
            let mut copy = base.clone();
            match vary {
                1 => copy.call_id = 1,
                2 => copy.from_tag = 1,
                3 => copy.cseq = 1,
                4 => copy.sent_by = 1,
                5 => copy.branch = BranchSym::Peer((b + 1) % 4),
                _ => {}
            }
            let mut events = vec![(1, Ev::Req(base.clone()))];
            for _ in 0..flood {
                events.push((1, Ev::Req(base.clone())));
            }
            let mut g1 = g1;
            if let Some((line, as_ack, false, pg)) = probe {
                if pg < g1 {
                    events.push((pg, probe_ev(line, as_ack)));
                    g1 -= pg;
                }
            }
            if faults & 4 != 0 && g1 > 1 {
                events.push((1, Ev::Answer { sel: 0, kind: 0, fault: 1 }));
                g1 -= 1;
            }
            events.push((g1, Ev::Answer { sel: 0, kind, fault: 0 }));
            let mut g2 = g2;
            if let Some((line, as_ack, true, pg)) = probe {
                events.push((pg, probe_ev(line, as_ack)));
                g2 -= pg;
            }
            if let Some(mg) = mid.filter(|mg| *mg + 10 < g2 && !(ack && m == 0)) {
                events.push((mg, Ev::Req(ReqEv { path: qpath, fault: faults & 1, ..base.clone() })));
                g2 -= mg;
            }
            if ack && m == 0 {
                // (1 ms: while the answer is still being written on a slow transport)
                events.push((if rng % 4 < 2 { 1 } else { 50 }, Ev::Req(ReqEv { method: 4, ..base.clone() })));
            }
            copy.path = qpath;
            copy.fault = faults & 2;
            events.push((g2, Ev::Req(copy.clone())));
            events.push((1, Ev::Req(base)));
            events.push((3, Ev::Send { slot: 0, method: cm, via }));
            events.push((g3, Ev::Resp { slot: 0, branch: 0, cseq_method: 0, code, path: rpath, decor }));
            events.push((g4, Ev::Resp { slot: 0, branch: rb, cseq_method: rc, code: code2, path: 0, decor: 0 }));
            events.push((1, Ev::Resp { slot: 0, branch: 0, cseq_method: 0, code: code2, path: rpath, decor }));
            Case { reliable, events, slow_send: rng % 2 == 0, rng }
        })
        .boxed()
}

// ---------------------------------------------------------------------------------------------
// reference model (symbolic: works on equality of identifiers only)

#[derive(Clone, Debug, PartialEq)]
enum RefKey {
    New(BranchSym, Option<&'static str>),
    Old {
        method: Option<&'static str>,
        cseq: u8,
        from_tag: u8,
        call_id: u8,
        sent_by: u8,
    },
}

fn fold(method: &'static str) -> Option<&'static str> {
    if method == "INVITE" || method == "ACK" {
        None
    } else {
        Some(method)
    }
}

#[derive(Clone, Debug, PartialEq)]
enum SState {
    /// shown to the layers, held by the application, not answered yet
    Pending { queued_ack: bool },
    /// final response sent; absorbs retransmissions until `until`
    Answered { until: u64 },
    /// INVITE answered 3xx-6xx at `at`, waiting for ACK
    InvFailed { at: u64 },
    /// INVITE answered 2xx; the application keeps the Accepted state
    Accepted,
}

#[derive(Clone, Debug)]
struct STsx {
    key: RefKey,
    invite: bool,
    marker: String,
    state: SState,
    /// created by the endpoint itself for a request no layer took
    auto: bool,
    /// arrival path of the request that created it
    path: u8,
    /// a response write of this transaction has been made to fail
    faulted: bool,
}

#[derive(Clone, Debug, PartialEq)]
enum CState {
    Unsent,
    Init,
    Proceeding,
    Accepted { first: u64 },
    Completed { until: u64 },
    Dead,
}

#[derive(Clone, Debug)]
struct CSlot {
    method: &'static str,
    sent_at: u64,
    state: CState,
    /// index into ADVERTISED
    via: u8,
}

/// concrete action for the world to execute
#[derive(Clone, Debug)]
pub enum Act {
    /// `fault`: the next write of a response to this request, in this instant, fails
    Req { marker: String, ev: ReqEv, fault: bool },
    Answer { marker: String, kind: u8, invite: bool, fault: bool },
    Send { slot: u8, method: &'static str, via: u8 },
    Resp { marker: String, slot: u8, branch: u8, cseq_method: u8, code: u16, path: u8, decor: u8 },
    Nop,
}

pub struct Prediction {
    pub script: Vec<(u64, Act)>,
    /// request markers in the order the layers must see them
    pub surfaced: Vec<String>,
    /// per slot: (marker, optional)
    pub slot_results: [Vec<(String, bool)>; 2],
    /// assertions only cover what happens strictly before this instant (ambiguity reached)
    pub cutoff: Option<u64>,
    pub near_miss: bool,
    pub near_edge: bool,
    /// a mismatched request (Request-Line method != CSeq method) met a live server transaction that has its
    /// branch (or RFC 2543 identifiers) and the folded CSeq or Request-Line method
    pub probe_hit: bool,
    /// a response arrived while the write of the request it answers was still in progress
    pub resp_during_send: bool,
    /// a request no layer takes was shown to the layers (the endpoint answers it by itself)
    pub untaken: bool,
    /// a request / ACK met the live server transaction the endpoint had created by itself for an untaken request
    pub auto_hit: bool,
    /// a request met a live server transaction whose first request had arrived by another path
    pub req_other_path: bool,
    /// a response was delivered to a client transaction that advertises a sent-by other than the transport's own
    pub advertised_via: bool,
    /// a response was delivered that arrived by another path than the request left on
    pub resp_other_path: bool,
    /// the write of a final response retransmitted for a copy of the request was made to fail
    pub fault_retrans: bool,
    /// the write of a provisional response was made to fail
    pub fault_prov: bool,
    /// markers of the requests that met a live server transaction one of whose response writes had failed before
    pub after_fault: Vec<String>,
}

fn near(t: u64, edge: u64) -> bool {
    t.abs_diff(edge) <= 3
}

pub fn predict(case: &Case) -> Prediction {
    let mut script = vec![];
    let mut surfaced = vec![];
    let mut slot_results: [Vec<(String, bool)>; 2] = [vec![], vec![]];
    let mut cutoff = None;
    let mut stsx: Vec<STsx> = vec![];
    let mut slots = [
        CSlot { method: "OPTIONS", sent_at: 0, state: CState::Unsent, via: 0 },
        CSlot { method: "OPTIONS", sent_at: 0, state: CState::Unsent, via: 0 },
    ];
    let mut near_miss = false;
    let mut near_edge = false;
    let mut probe_hit = false;
    let mut resp_during_send = false;
    let (mut untaken, mut auto_hit, mut req_other_path, mut advertised_via, mut resp_other_path) = (false, false, false, false, false);
    let (mut fault_retrans, mut fault_prov) = (false, false);
    let mut after_fault: Vec<String> = vec![];
    let mut seen_keys: Vec<RefKey> = vec![];
    let mut t = 0u64;

    for (i, (gap, ev)) in case.events.iter().enumerate() {
        t += gap;
        if cutoff.is_some() {
            break;
        }
        match ev {
            Ev::Req(r) => {
                let method = SERVER_METHODS[r.method as usize % SERVER_METHODS.len()];
                // ("u..": the layer leaves it alone; the copy of a request is absorbed whatever its marker says)
                let marker = if r.take != 0 && r.line == 0 { format!("u{i}") } else { format!("q{i}") };
                // a client-slot branch that does not exist yet is just another unknown branch
                let branch = match r.branch {
                    BranchSym::Client(s) if slots[s as usize % 2].state == CState::Unsent => BranchSym::Peer(0),
                    BranchSym::Client(s) => BranchSym::Client(s % 2),
                    b => b,
                };
                let r = ReqEv { branch, path: r.path % PATHS, ..r.clone() };
                if let Some(line) = line_method(&r) {
                    // Mismatched request. RFC 3261 17.2.3 matches on the request method, ezk keys on the CSeq
                    // method; the statement does not say which, so whether this message itself is shown to the
                    // layers is not asserted. Under either reading it is neither a retransmission that changes
                    // a transaction's state nor an ACK (the line method is never ACK), and the application
                    // drops it at once when it is shown: no transaction starts or ends because of it.
                    let keys: Vec<RefKey> = [fold(method), fold(line)]
                        .into_iter()
                        .map(|m| match branch {
                            BranchSym::Peer(p) if p >= 2 => {
                                RefKey::Old { method: m, cseq: r.cseq, from_tag: r.from_tag, call_id: r.call_id, sent_by: r.sent_by }
                            }
                            b => RefKey::New(b, m),
                        })
                        .collect();
                    if stsx.iter().any(|s| {
                        keys.contains(&s.key)
                            && match &s.state {
                                SState::Pending { .. } | SState::Accepted => true,
                                SState::Answered { until } => t + 3 < *until,
                                SState::InvFailed { at } => t + 3 < at + TIMEOUT,
                            }
                    }) {
                        probe_hit = true;
                    }
                    script.push((t, Act::Req { marker: format!("p{i}"), ev: r, fault: false }));
                    continue;
                }
                let key = match branch {
                    BranchSym::Peer(p) if p >= 2 => RefKey::Old {
                        method: fold(method),
                        cseq: r.cseq,
                        from_tag: r.from_tag,
                        call_id: r.call_id,
                        sent_by: r.sent_by,
                    },
                    b => RefKey::New(b, fold(method)),
                };
                if seen_keys.iter().any(|k| k != &key && one_component_differs(k, &key)) {
                    near_miss = true;
                }
                seen_keys.push(key.clone());
                // liveness of a transaction with this key
                let mut hit: Option<usize> = None;
                let mut ambiguous = false;
                for (idx, s) in stsx.iter().enumerate() {
                    if s.key != key {
                        continue;
                    }
                    match &s.state {
                        SState::Pending { .. } | SState::Accepted => hit = Some(idx),
                        SState::Answered { until } => {
                            if near(t, *until) {
                                ambiguous = true;
                            } else if t < *until {
                                hit = Some(idx);
                            }
                        }
                        SState::InvFailed { at } => {
                            if case.reliable {
                                // reliable: waits for the ACK up to 64*T1 (+ slack), no fuzz below that
                                if t + 3 < at + TIMEOUT {
                                    hit = Some(idx);
                                } else if t <= at + TIMEOUT + T2 + 3 {
                                    ambiguous = true;
                                }
                            } else if t + 3 < at + TIMEOUT {
                                hit = Some(idx);
                            } else if t <= at + TIMEOUT + T2 + 3 {
                                ambiguous = true;
                            }
                        }
                    }
                }
                if stsx.iter().any(|s| s.key == key && matches!(s.state, SState::Answered { until } if t.abs_diff(until) <= 5)) {
                    near_edge = true;
                }
                if ambiguous {
                    cutoff = Some(t);
                    break;
                }
                let mut fault = false;
                match hit {
                    Some(idx) => {
                        let s = &mut stsx[idx];
                        // A failed write of a response (provisional, or a final one retransmitted for a copy) is
                        // not the end of the transaction: the application keeps holding it / was told long ago
                        // that its answer went out, the transaction lives until its timer ends it, and copies
                        // of the request stay absorbed until then.
                        if s.faulted {
                            after_fault.push(marker.clone());
                        }
                        if r.fault != 0 && !case.reliable && !s.invite && matches!(s.state, SState::Answered { .. }) {
                            fault = true;
                            fault_retrans = true;
                            s.faulted = true;
                        }
                        // (17.2.3 matches on identifiers of the message only: neither the source address nor
                        // the local transport it arrives on, nor who created the transaction, matter)
                        auto_hit |= s.auto;
                        req_other_path |= s.path != r.path;
                        if method == "ACK" && s.state == SState::Accepted {
                            // ACK for a 2xx: rejected by the transaction's filter, shown to the layers
                            surfaced.push(marker.clone());
                        } else {
                            if method == "ACK" {
                                match &mut s.state {
                                    SState::InvFailed { .. } => {
                                        // transaction completes; RFC timer I not asserted: cut off further
                                        // predictions for this key by removing the transaction and marking
                                        // the next T4 as ambiguous via an Answered window of 0
                                        s.state = SState::Answered { until: t };
                                    }
                                    SState::Pending { queued_ack } => *queued_ack = true,
                                    _ => {}
                                }
                            }
                        }
                    }
                    None => {
                        surfaced.push(marker.clone());
                        let auto = r.take != 0;
                        untaken |= auto;
                        if method != "ACK" {
                            // No layer takes it: the endpoint answers 481 at once through a server transaction
                            // of its own, which from then on behaves like one the application answered with a
                            // failure at this instant. (An untaken ACK is just dropped.)
                            let state = if !auto {
                                SState::Pending { queued_ack: false }
                            } else if method == "INVITE" {
                                SState::InvFailed { at: t }
                            } else if case.reliable {
                                SState::Answered { until: t }
                            } else {
                                SState::Answered { until: t + TIMEOUT }
                            };
                            stsx.push(STsx { key, invite: method == "INVITE", marker: marker.clone(), state, auto, path: r.path, faulted: false });
                        }
                    }
                }
                // after an ACK ended an INVITE transaction, copies arriving within T4 are not asserted
                script.push((t, Act::Req { marker, ev: r, fault }));
            }
            Ev::Answer { sel, kind, fault } => {
                let pending: Vec<usize> = stsx
                    .iter()
                    .enumerate()
                    .filter(|(_, s)| matches!(s.state, SState::Pending { .. }))
                    .map(|(i, _)| i)
                    .collect();
                if pending.is_empty() {
                    script.push((t, Act::Nop));
                    continue;
                }
                let idx = pending[pick_idx(*sel, pending.len())];
                let s = &mut stsx[idx];
                let queued_ack = matches!(s.state, SState::Pending { queued_ack: true });
                let fault = *fault != 0 && kind % 3 == 0;
                match kind % 3 {
                    0 => {
                        if fault {
                            fault_prov = true;
                            s.faulted = true;
                        }
                    }
                    1 => {
                        s.state = if s.invite {
                            SState::Accepted
                        } else if case.reliable {
                            SState::Answered { until: t }
                        } else {
                            SState::Answered { until: t + TIMEOUT }
                        }
                    }
                    _ => {
                        s.state = if s.invite {
                            if queued_ack {
                                SState::Answered { until: t }
                            } else {
                                SState::InvFailed { at: t }
                            }
                        } else if case.reliable {
                            SState::Answered { until: t }
                        } else {
                            SState::Answered { until: t + TIMEOUT }
                        }
                    }
                }
                script.push((t, Act::Answer { marker: s.marker.clone(), kind: kind % 3, invite: s.invite, fault }));
            }
            Ev::Send { slot, method, via } => {
                let sl = (*slot % 2) as usize;
                if slots[sl].state != CState::Unsent {
                    script.push((t, Act::Nop));
                    continue;
                }
                let m = CLIENT_METHODS[*method as usize % CLIENT_METHODS.len()];
                let via = *via % ADVERTISED.len() as u8;
                slots[sl] = CSlot { method: m, sent_at: t, state: CState::Init, via };
                script.push((t, Act::Send { slot: sl as u8, method: m, via }));
            }
            Ev::Resp { slot, branch, cseq_method, code, path, decor } => {
                let sl = (*slot % 2) as usize;
                if slots[sl].state == CState::Unsent {
                    script.push((t, Act::Nop));
                    continue;
                }
                let marker = format!("r{i}");
                let other = 1 - sl;
                // which client transaction (if any) has the response's (branch, CSeq method)?
                let branch_slot: Option<usize> = match branch % 3 {
                    0 => Some(sl),
                    1 if slots[other].state != CState::Unsent => Some(other),
                    _ => None,
                };
                let resp_method: &'static str = if *cseq_method % 2 == 0 {
                    slots[sl].method
                } else if slots[sl].method == "OPTIONS" {
                    "INVITE"
                } else {
                    "OPTIONS"
                };
                if *branch % 3 != 0 || *cseq_method % 2 != 0 {
                    near_miss = true;
                }
                let recipient = branch_slot.filter(|b| fold(slots[*b].method) == fold(resp_method));
                if let Some(b) = recipient {
                    let s = &mut slots[b];
                    let invite = s.method == "INVITE";
                    // end-of-life edges
                    let mut ambiguous = false;
                    match s.state.clone() {
                        CState::Init => {
                            if near(t, s.sent_at + TIMEOUT) {
                                ambiguous = true;
                            } else if t > s.sent_at + TIMEOUT {
                                s.state = CState::Dead;
                            }
                        }
                        CState::Proceeding => {
                            if !invite && t + 3 >= s.sent_at + TIMEOUT {
                                ambiguous = true; // Proceeding timeout of non-INVITE: not asserted
                            }
                        }
                        CState::Accepted { first } => {
                            if near(t, first + TIMEOUT) {
                                ambiguous = true;
                            } else if t > first + TIMEOUT {
                                s.state = CState::Dead;
                            }
                        }
                        CState::Completed { until } => {
                            if near(t, until) {
                                ambiguous = true;
                            } else if t > until {
                                s.state = CState::Dead;
                            }
                        }
                        _ => {}
                    }
                    if matches!(s.state, CState::Completed { until } if t.abs_diff(until) <= 5) {
                        near_edge = true;
                    }
                    if ambiguous {
                        cutoff = Some(t);
                        break;
                    }
                    if case.slow_send && s.state == CState::Init && t < s.sent_at + SLOW_MS {
                        resp_during_send = true;
                    }
                    // (17.1.3 matches on branch and CSeq method only: what the Via advertises as sent-by, extra
                    // Via parameters the peer added, the source address and the local transport it arrives on
                    // do not matter)
                    if matches!(s.state, CState::Init | CState::Proceeding | CState::Accepted { .. }) {
                        advertised_via |= foreign_via(s.via);
                        resp_other_path |= *path % PATHS != 0;
                    }
                    match s.state.clone() {
                        CState::Init | CState::Proceeding => {
                            slot_results[b].push((marker.clone(), false));
                            if *code < 200 {
                                s.state = CState::Proceeding;
                            } else if invite && *code < 300 {
                                s.state = CState::Accepted { first: t };
                            } else if invite {
                                s.state = CState::Completed { until: if case.reliable { t } else { t + 32_000 } };
                            } else {
                                s.state = CState::Completed { until: if case.reliable { t } else { t + T4 } };
                            }
                        }
                        CState::Accepted { .. } => {
                            slot_results[b].push((marker.clone(), !(200..300).contains(code)));
                        }
                        _ => {}
                    }
                }
                script.push((t, Act::Resp { marker, slot: sl as u8, branch: *branch % 3, cseq_method: *cseq_method % 2, code: *code, path: *path % PATHS, decor: *decor % 3 }));
            }
        }
    }
    Prediction {
        script,
        surfaced,
        slot_results,
        cutoff,
        near_miss,
        near_edge,
        probe_hit,
        resp_during_send,
        untaken,
        auto_hit,
        req_other_path,
        advertised_via,
        resp_other_path,
        fault_retrans,
        fault_prov,
        after_fault,
    }
}

fn one_component_differs(a: &RefKey, b: &RefKey) -> bool {
    match (a, b) {
        (RefKey::New(b1, m1), RefKey::New(b2, m2)) => (b1 != b2) as u8 + (m1 != m2) as u8 == 1,
        (
            RefKey::Old { method: m1, cseq: c1, from_tag: f1, call_id: i1, sent_by: s1 },
            RefKey::Old { method: m2, cseq: c2, from_tag: f2, call_id: i2, sent_by: s2 },
        ) => (m1 != m2) as u8 + (c1 != c2) as u8 + (f1 != f2) as u8 + (i1 != i2) as u8 + (s1 != s2) as u8 == 1,
        _ => false,
    }
}

// ---------------------------------------------------------------------------------------------
// world

/// The application's layer: every request it is shown is recorded; requests marked "u.." are left alone (no
/// layer takes them), all others are taken and handed to the test task
pub struct AppLayer {
    pub rec: Recorder,
    pub tx: mpsc::UnboundedSender<IncomingRequest>,
}

#[async_trait::async_trait]
impl sip_core::Layer for AppLayer {
    fn name(&self) -> &'static str {
        "c04-app"
    }
    async fn receive(&self, _endpoint: &sip_core::Endpoint, request: sip_core::MayTake<'_, IncomingRequest>) {
        self.rec.note(0, &request);
        let untaken = request
            .headers
            .iter()
            .any(|(n, v)| n.as_print_str().eq_ignore_ascii_case("x-seq") && v.to_string().starts_with('u'));
        if !untaken {
            let _ = self.tx.send(request.take());
        }
    }
}

enum Held {
    Fresh(IncomingRequest),
    Inv(sip_core::transaction::ServerInvTsx, IncomingRequest),
    NonInv(sip_core::transaction::ServerTsx, IncomingRequest),
}

pub struct Observed {
    pub seen: Vec<Seen>,
    pub slot_results: [Vec<(u64, Res)>; 2],
    pub problems: Vec<String>,
    /// number of response writes that were made to fail
    pub faults_hit: usize,
}

/// what ties a response to the request it answers (RFC 3261 8.2.6.2: copied from the request)
#[derive(Clone, Debug, PartialEq)]
struct Ids {
    call_id: Option<String>,
    cseq: Option<(u32, String)>,
    branch: Option<String>,
    from_tag: Option<String>,
}

impl Ids {
    fn of(m: &WireMsg) -> Ids {
        Ids { call_id: m.call_id().map(|c| c.to_string()), cseq: m.cseq(), branch: m.via_branch(), from_tag: m.from_tag() }
    }
}

/// the response a fault is aimed at: identifiers, and provisional (true) or final (false) status
type Aim = (Ids, bool);

#[derive(Default)]
struct FaultPlan {
    /// the next write of a response with these identifiers fails
    armed: Option<Aim>,
    hits: usize,
}

/// A transport of the endpoint: the world's mock datagram transport, except that the write of the one response
/// the plan is armed for returns an io::Error (ECONNREFUSED, what a UDP socket reports after an ICMP port
/// unreachable) and puts nothing on the wire. The fault is aimed by the identifiers of the message, so no other
/// write that happens in the same instant (a timer of another transaction) can be hit by it.
struct FaultyTransport {
    inner: sip_core::transport::TpHandle,
    plan: Arc<Mutex<FaultPlan>>,
}

impl std::fmt::Debug for FaultyTransport {
    fn fmt(&self, f: &mut std::fmt::Formatter<'_>) -> std::fmt::Result {
        write!(f, "{:?}", self.inner)
    }
}
impl std::fmt::Display for FaultyTransport {
    fn fmt(&self, f: &mut std::fmt::Formatter<'_>) -> std::fmt::Result {
        write!(f, "{}", self.inner)
    }
}

#[async_trait::async_trait]
impl sip_core::transport::Transport for FaultyTransport {
    fn name(&self) -> &'static str {
        self.inner.name()
    }
    fn secure(&self) -> bool {
        self.inner.secure()
    }
    fn reliable(&self) -> bool {
        self.inner.reliable()
    }
    fn bound(&self) -> SocketAddr {
        self.inner.bound()
    }
    fn sent_by(&self) -> SocketAddr {
        self.inner.sent_by()
    }
    fn direction(&self) -> sip_core::transport::Direction {
        self.inner.direction()
    }
    async fn send(&self, message: &[u8], target: SocketAddr) -> std::io::Result<()> {
        {
            let mut plan = self.plan.lock();
            if let Some((ids, provisional)) = &plan.armed {
                if WireMsg::parse(message)
                    .map_or(false, |m| m.status().map_or(false, |c| (c < 200) == *provisional) && Ids::of(&m) == *ids)
                {
                    plan.armed = None;
                    plan.hits += 1;
                    return Err(std::io::Error::new(std::io::ErrorKind::ConnectionRefused, "mock transient send failure"));
                }
            }
        }
        self.inner.send(message, target).await
    }
}

fn req_bytes(marker: &str, r: &ReqEv, client_branches: &[Option<String>; 2]) -> Vec<u8> {
    let method = SERVER_METHODS[r.method as usize % SERVER_METHODS.len()];
    let sent_by = if r.sent_by == 0 { "192.0.2.9:5060" } else { "192.0.2.10:5060" };
    let via = match r.branch {
        BranchSym::Peer(0) => format!("SIP/2.0/UDP {sent_by};branch=z9hG4bKpeerA"),
        BranchSym::Peer(1) => format!("SIP/2.0/UDP {sent_by};branch=z9hG4bKpeerB"),
        BranchSym::Peer(2) => format!("SIP/2.0/UDP {sent_by};branch=a73kszlfl"),
        BranchSym::Peer(_) => format!("SIP/2.0/UDP {sent_by}"),
        BranchSym::Client(s) => format!(
            "SIP/2.0/UDP {sent_by};branch={}",
            client_branches[s as usize % 2].clone().unwrap_or_else(|| "z9hG4bKpeerA".into())
        ),
    };
    request_text(
        line_method(r).unwrap_or(method),
        "sip:uas@10.0.0.1",
        &[via],
        &format!("<sip:peer@192.0.2.9>;tag=ft{}", r.from_tag),
        "<sip:uas@10.0.0.1>",
        &format!("c04-call-{}", r.call_id),
        1 + r.cseq as u32,
        method,
        &[format!("X-Seq: {marker}"), "Contact: <sip:peer@192.0.2.9>".into()],
        b"",
    )
}

pub fn run(case: &Case, pred: &Prediction) -> Observed {
    let reliable = case.reliable;
    let slow = case.slow_send;
    let rng = case.rng as u64;
    let script = pred.script.clone();
    run_world(rng, |clock| async move {
        let log = WireLog::new(clock);
        let (tp, _) = mock_datagram_slow(&log, "UDP", false, reliable, &format!("{}:{}", LOCAL.0, LOCAL.1), if slow { SLOW_MS } else { 0 });
        // a second transport of the same kind: messages arriving by path 3 come in here
        let (tp2, _) = mock_datagram_slow(&log, "UDP", false, reliable, LOCAL2, if slow { SLOW_MS } else { 0 });
        // both with the send-fault plan of this case in front
        let plan: Arc<Mutex<FaultPlan>> = Default::default();
        let tp = sip_core::transport::TpHandle::new(FaultyTransport { inner: tp, plan: plan.clone() });
        let tp2 = sip_core::transport::TpHandle::new(FaultyTransport { inner: tp2, plan: plan.clone() });
        // identifiers of every request the peer sent, by marker
        let mut ids_of: HashMap<String, Ids> = HashMap::new();
        let rec = Recorder::new(clock);
        let (tx, mut rx) = mpsc::unbounded_channel();
        let mut b = offline_builder();
        b.add_layer(AppLayer { rec: rec.clone(), tx });
        let endpoint = b.build();
        let peer: SocketAddr = "192.0.2.9:5060".parse().unwrap();
        let mut pending: HashMap<String, IncomingRequest> = HashMap::new();
        // requests answered provisionally: the task that writes the provisional response hands the transaction back
        let mut provisional: HashMap<String, tokio::task::JoinHandle<Held>> = HashMap::new();
        let mut problems = vec![];
        let slot_results: [Arc<Mutex<Vec<(u64, Res)>>>; 2] = [Default::default(), Default::default()];
        let mut slot_req: [Option<WireMsg>; 2] = [None, None];
        let mut client_branches: [Option<String>; 2] = [None, None];

        macro_rules! drain {
            () => {
                while let Ok(r) = rx.try_recv() {
                    let marker = r
                        .headers
                        .iter()
                        .find(|(n, _)| n.as_print_str().eq_ignore_ascii_case("x-seq"))
                        .map(|(_, v)| v.to_string())
                        .unwrap_or_default();
                    if r.line.method == Method::ACK || marker.starts_with('p') {
                        // ACKs and mismatched requests are dropped at once (with the registration they carry)
                        drop(r);
                    } else {
                        pending.insert(marker, r);
                    }
                }
            };
        }

        for (t, act) in script {
            clock.until(t).await;
            match act {
                Act::Nop => {}
                Act::Req { marker, ev, fault } => {
                    let bytes = req_bytes(&marker, &ev, &client_branches);
                    let ids = WireMsg::parse(&bytes).map(|m| Ids::of(&m));
                    if fault {
                        // the response the transaction writes because of this arrival
                        plan.lock().armed = ids.clone().map(|ids| (ids, false));
                    }
                    if let Some(ids) = ids {
                        ids_of.insert(marker.clone(), ids);
                    }
                    inject(&endpoint, if ev.path % PATHS == 3 { &tp2 } else { &tp }, source_of(ev.path), &bytes);
                }
                Act::Answer { marker, kind, invite, fault } => {
                    drain!();
                    if fault {
                        // the provisional response written now
                        plan.lock().armed = ids_of.get(&marker).cloned().map(|ids| (ids, true));
                    }
                    let held = match pending.remove(&marker) {
                        Some(req) => Some(Held::Fresh(req)),
                        None => match provisional.remove(&marker) {
                            // (waits when the provisional response is still being written on a slow transport)
                            Some(h) => h.await.ok(),
                            None => None,
                        },
                    };
                    match held {
                        None => problems.push(format!("application wanted to answer {marker} at {t} ms but never received it")),
                        Some(held) => {
                            let endpoint = endpoint.clone();
                            // create the transaction on first use
                            let held = match held {
                                Held::Fresh(mut req) => {
                                    if invite {
                                        let tsx = endpoint.create_server_inv_tsx(&mut req);
                                        Held::Inv(tsx, req)
                                    } else {
                                        let tsx = endpoint.create_server_tsx(&mut req);
                                        Held::NonInv(tsx, req)
                                    }
                                }
                                h => h,
                            };
                            if kind == 0 {
                                // written by a task of its own: on a slow transport the next events of the
                                // history arrive while the provisional response is still being written
                                let h = tokio::spawn(async move {
                                    match held {
                                        Held::Inv(mut tsx, req) => {
                                            let mut r = endpoint.create_response(&req, Code::from(180), None);
                                            let _ = tsx.respond_provisional(&mut r).await;
                                            Held::Inv(tsx, req)
                                        }
                                        Held::NonInv(mut tsx, req) => {
                                            let mut r = endpoint.create_response(&req, Code::from(180), None);
                                            let _ = tsx.respond_provisional(&mut r).await;
                                            Held::NonInv(tsx, req)
                                        }
                                        Held::Fresh(_) => unreachable!(),
                                    }
                                });
                                provisional.insert(marker, h);
                            } else {
                                let code = if kind == 1 { 200 } else { 486 };
                                tokio::spawn(async move {
                                    match held {
                                        Held::Inv(tsx, req) => {
                                            let response = endpoint.create_response(&req, Code::from(code), None);
                                            if kind == 1 {
                                                if let Ok(accepted) = tsx.respond_success(response).await {
                                                    let _keep = accepted;
                                                    std::future::pending::<()>().await;
                                                }
                                            } else {
                                                let _ = tsx.respond_failure(response).await;
                                            }
                                        }
                                        Held::NonInv(tsx, req) => {
                                            let response = endpoint.create_response(&req, Code::from(code), None);
                                            let _ = tsx.respond(response).await;
                                        }
                                        Held::Fresh(_) => unreachable!(),
                                    }
                                });
                            }
                        }
                    }
                }
                Act::Send { slot, method, via } => {
                    let s = slot as usize;
                    let uri: SipUri = "sip:bob@192.0.2.9:5060".parse().unwrap();
                    let mut request = Request::new(Method::from(method), uri);
                    request.headers.insert(Name::FROM, "<sip:alice@example.org>;tag=loc");
                    request.headers.insert(Name::TO, "<sip:bob@example.net>");
                    request.headers.insert(Name::CALL_ID, format!("c04-client-{s}"));
                    request.headers.insert(Name::CSEQ, format!("{} {method}", 100 * (s + 1)));
                    request.headers.insert(Name::MAX_FORWARDS, "70");
                    let mut target = TargetTransportInfo { via_host_port: advertised(via), transport: Some((tp.clone(), peer)) };
                    let results = slot_results[s].clone();
                    let before = log.len();
                    let marker_of = |r: &sip_core::transaction::TsxResponse| -> String {
                        r.headers
                            .iter()
                            .find(|(n, _)| n.as_print_str().eq_ignore_ascii_case("x-seq"))
                            .map(|(_, v)| v.to_string())
                            .unwrap_or_default()
                    };
                    // the application sends from a task of its own: on a slow transport `send_request` /
                    // `send_invite` return only when the write is over, the peer's response (next events of
                    // the history) can arrive before that
                    let endpoint = endpoint.clone();
                    tokio::spawn(async move {
                        if method == "INVITE" {
                            if let Ok(mut tsx) = endpoint.send_invite(request, &mut target).await {
                                loop {
                                    match tsx.receive().await {
                                        Ok(Some(r)) => results.lock().push((clock.now_ms(), Res::Resp(r.line.code.into_u16(), marker_of(&r)))),
                                        Ok(None) => break,
                                        Err(_) => break,
                                    }
                                }
                            }
                        } else if let Ok(mut tsx) = endpoint.send_request(request, &mut target).await {
                            loop {
                                match tsx.receive().await {
                                    Ok(r) => {
                                        let code = r.line.code.into_u16();
                                        results.lock().push((clock.now_ms(), Res::Resp(code, marker_of(&r))));
                                        if code >= 200 {
                                            break;
                                        }
                                    }
                                    Err(_) => break,
                                }
                            }
                        }
                    });
                    settle().await;
                    // the request is on the wire (the write may still be in progress); other tasks may have
                    // written in the same instant, so it is picked by its Call-ID
                    let own_call_id = format!("c04-client-{s}");
                    if let Some(m) = log
                        .snapshot()
                        .iter()
                        .skip(before)
                        .filter_map(|sent| WireMsg::parse(&sent.bytes))
                        .find(|m| m.is_request() && m.call_id() == Some(own_call_id.as_str()))
                    {
                        client_branches[s] = m.via_branch();
                        slot_req[s] = Some(m);
                    }
                }
                Act::Resp { marker, slot, branch, cseq_method, code, path, decor } => {
                    let s = slot as usize;
                    if let Some(req) = &slot_req[s] {
                        let mut req = req.clone();
                        let own = client_branches[s].clone().unwrap_or_default();
                        let new_branch = match branch {
                            0 => own.clone(),
                            1 => client_branches[1 - s].clone().unwrap_or_else(|| format!("{own}x")),
                            _ => format!("{own}x"),
                        };
                        for (n, v) in req.headers.iter_mut() {
                            if n.eq_ignore_ascii_case("via") {
                                *v = v.replace(&own, &new_branch);
                                match decor {
                                    1 => v.push_str(";received=198.51.100.4"),
                                    2 => v.push_str(";rport=31337;received=198.51.100.4"),
                                    _ => {}
                                }
                            }
                            if n.eq_ignore_ascii_case("cseq") && cseq_method == 1 {
                                let num = v.split_whitespace().next().unwrap_or("1").to_string();
                                let m = v.split_whitespace().nth(1).unwrap_or("");
                                let other = if m == "OPTIONS" { "INVITE" } else { "OPTIONS" };
                                *v = format!("{num} {other}");
                            }
                        }
                        let bytes = response_text(&req, code, Some("pt"), &[format!("X-Seq: {marker}"), "Contact: <sip:bob@192.0.2.9>".into()]);
                        inject(&endpoint, if path % PATHS == 3 { &tp2 } else { &tp }, source_of(path), &bytes);
                    }
                }
            }
            settle().await;
            // a fault is aimed at a write of this instant only
            plan.lock().armed = None;
            drain!();
        }
        settle().await;
        if slow {
            // let writes that are still in progress finish
            clock.advance(10).await;
            settle().await;
        }
        let seen = rec.snapshot();
        let r0 = slot_results[0].lock().clone();
        let r1 = slot_results[1].lock().clone();
        drop(pending);
        drop(provisional);
        let faults_hit = plan.lock().hits;
        Observed { seen, slot_results: [r0, r1], problems, faults_hit }
    })
}

pub fn check(case: &Case, out: &mut CaseOut) {
    let pred = predict(case);
    let obs = run(case, &pred);
    let cutoff = pred.cutoff.unwrap_or(u64::MAX);

    out.class(if case.reliable { "reliable" } else { "unreliable" });
    if pred.near_miss {
        out.class("near-miss-key");
    }
    if pred.near_edge {
        out.class("arrival-near-end-of-life");
    }
    if pred.cutoff.is_some() {
        out.class("ambiguous-tail-cut");
    }
    let has_old = case.events.iter().any(|(_, e)| matches!(e, Ev::Req(r) if matches!(r.branch, BranchSym::Peer(p) if p >= 2)));
    if has_old {
        out.class("cookie-less-branch");
    }
    if case.events.iter().any(|(_, e)| matches!(e, Ev::Req(r) if matches!(r.branch, BranchSym::Client(_)))) {
        out.class("request-with-client-branch(role)");
    }
    if case.events.iter().any(|(_, e)| matches!(e, Ev::Req(r) if SERVER_METHODS[r.method as usize % 6] == "ACK")) {
        out.class("ack");
    }
    if case.events.iter().any(|(_, e)| matches!(e, Ev::Req(r) if SERVER_METHODS[r.method as usize % 6] == "CANCEL")) {
        out.class("cancel");
    }
    if case.events.iter().any(|(_, e)| matches!(e, Ev::Req(r) if r.line != 0)) {
        out.class("request-line-method-differs-from-cseq-method");
    }
    if pred.probe_hit {
        out.class("mismatched-request-meets-live-transaction");
    }
    if pred.resp_during_send {
        out.class("response-while-request-write-in-progress");
    }
    if pred.untaken {
        out.class("request-no-layer-takes");
    }
    if pred.auto_hit {
        out.class("copy-or-ack-meets-transaction-of-untaken-request");
    }
    if pred.req_other_path {
        out.class("copy-or-ack-arrives-by-another-path(source/transport)");
    }
    if pred.advertised_via {
        out.class("response-to-client-tsx-advertising-foreign-via");
    }
    if pred.resp_other_path {
        out.class("response-arrives-by-another-path(source/transport)");
    }
    if case.events.iter().any(|(_, e)| matches!(e, Ev::Resp { decor, .. } if decor % 3 != 0)) {
        out.class("response-via-with-received/rport");
    }
    if pred.fault_retrans {
        out.class("write-of-retransmitted-final-response-fails");
    }
    if pred.fault_prov {
        out.class("write-of-provisional-response-fails");
    }
    if obs.faults_hit > 0 {
        out.class("failed-response-write-observed");
    }
    let copy_after_fault = obs.faults_hit > 0 && !pred.after_fault.is_empty();
    if copy_after_fault {
        out.class("copy-or-ack-meets-transaction-after-failed-response-write");
    }
    if pred.near_miss
        || copy_after_fault
        || pred.near_edge
        || pred.probe_hit
        || pred.resp_during_send
        || pred.auto_hit
        || pred.req_other_path
        || pred.advertised_via
        || pred.resp_other_path
    {
        // distinct by the normalised event sequence
        out.nontrivial(&(case.reliable, case.slow_send && pred.resp_during_send, &case.events));
    }

    // judged by the instant the message ARRIVED (slow writes can delay when it surfaces)
    let mut arrival = vec![];
    let mut tt = 0u64;
    for (g, _) in &case.events {
        tt += g;
        arrival.push(tt);
    }
    let arrived_before_cutoff = |marker: &str| -> bool {
        marker.get(1..).and_then(|i| i.parse::<usize>().ok()).and_then(|i| arrival.get(i)).map_or(true, |t| *t < cutoff)
    };
    let seen: Vec<String> = obs
        .seen
        .iter()
        .map(|s| s.marker.clone().unwrap_or_default())
        // whether a mismatched request ("p..") itself is shown is not asserted
        .filter(|m| !m.starts_with('p'))
        .filter(|m| arrived_before_cutoff(m))
        .collect();
    out.note = Some(format!(
        "layers saw {:?}; slot results {:?} / {:?}; cutoff {:?}; failed response writes {}",
        seen, obs.slot_results[0], obs.slot_results[1], pred.cutoff, obs.faults_hit
    ));
    for p in &obs.problems {
        out.fail("c04.server/answer-target-missing", p.clone());
    }
    if seen != pred.surfaced {
        // classify: first divergence
        let n = seen.iter().zip(&pred.surfaced).take_while(|(a, b)| a == b).count();
        let extra = seen.get(n);
        let missing = pred.surfaced.get(n);
        let method_of = |marker: &String| -> &'static str {
            let i: usize = marker[1..].parse().unwrap_or(0);
            match case.events.get(i) {
                Some((_, Ev::Req(r))) => SERVER_METHODS[r.method as usize % 6],
                _ => "?",
            }
        };
        let locus = match (extra, missing) {
            // (a request the reference model has absorbed by a transaction one of whose response writes failed)
            (Some(e), _) if !pred.surfaced.contains(e) && obs.faults_hit > 0 && pred.after_fault.contains(e) => {
                format!("shown-again-after-failed-response-write:{}", method_of(e))
            }
            (Some(e), _) if !pred.surfaced.contains(e) => format!("shown-again-or-not-absorbed:{}", method_of(e)),
            (_, Some(m)) => format!("not-shown:{}", method_of(m)),
            _ => "order".to_string(),
        };
        out.fail(
            format!("c04.server/{locus}"),
            format!("layers saw {seen:?}, reference predicts {:?}", pred.surfaced),
        );
    }
    for s in 0..2 {
        let got: Vec<String> = obs.slot_results[s]
            .iter()
            .filter_map(|(_, r)| match r {
                Res::Resp(_, m) => Some(m.clone()),
                _ => None,
            })
            .filter(|m| arrived_before_cutoff(m))
            .collect();
        let want = &pred.slot_results[s];
        let mut wi = 0;
        let mut bad = false;
        for g in &got {
            loop {
                match want.get(wi) {
                    Some((m, _)) if m == g => {
                        wi += 1;
                        break;
                    }
                    Some((_, true)) => wi += 1,
                    _ => {
                        bad = true;
                        break;
                    }
                }
            }
            if bad {
                break;
            }
        }
        if !bad && want[wi.min(want.len())..].iter().any(|(_, opt)| !*opt) {
            bad = true;
        }
        if bad {
            // named after the earliest message that went wrong: a predicted response that never came out of
            // receive(), or one that came out although the reference model does not address it to this
            // transaction (or addresses it to a transaction that is already over)
            let idx = |m: &String| m.get(1..).and_then(|i| i.parse::<usize>().ok()).unwrap_or(usize::MAX);
            let first_missing = want.iter().filter(|(m, opt)| !*opt && !got.contains(m)).map(|(m, _)| idx(m)).min();
            let first_unexpected = got.iter().filter(|g| !want.iter().any(|(m, _)| m == *g)).map(idx).min();
            let sig = match (first_missing, first_unexpected) {
                (Some(m), Some(u)) if u < m => "c04.client/delivered-to-wrong-transaction",
                (None, Some(_)) => "c04.client/delivered-to-wrong-transaction",
                (Some(_), _) => "c04.client/response-not-delivered",
                (None, None) => "c04.client/response-order",
            };
            let via = case
                .events
                .iter()
                .find_map(|(_, e)| match e {
                    Ev::Send { slot, via, .. } if (*slot % 2) as usize == s => Some(ADVERTISED[*via as usize % ADVERTISED.len()]),
                    _ => None,
                })
                .flatten();
            out.fail(
                sig,
                format!("client slot {s} (advertised sent-by {via:?}): receive() yielded {got:?}, reference predicts {want:?}"),
            );
        }
    }
}

pub fn property() -> Property {
    Property {
        fuzz: vec![],
        id: "C04",
        rule: "a case = history of 3..12 timed events over a deliberately small alphabet (2 RFC 3261 branches, a cookie-less branch, no branch, the branches of ezk's own client transactions; methods INVITE/OPTIONS/BYE/CANCEL/ACK/PRACK; 2 Call-IDs, From-tags, CSeq numbers, sent-by values; about 1 request in 8 carries a non-ACK Request-Line method that differs from its CSeq method): peer requests, application answers (provisional / 2xx / failure) to held requests, application sends, peer responses whose branch and CSeq method are each equal or different; gaps from a grid bracketing T4, 64*T1 and the INVITE timeout window; about 1 request in 5 is left alone by the layer (the endpoint answers it by itself, copies and the ACK must be absorbed by that transaction); two thirds of the client transactions advertise a sent-by other than the transport's own in their Via (6 shapes), 2 responses in 5 carry received/rport in the echoed Via; 3 peer messages in 8 arrive from another source port / source IP / on a second local transport; 1 request in 3 carries a send fault that takes effect when the request is a copy absorbed by a non-INVITE server transaction which has sent its final response over an unreliable transport (the write of the retransmitted response then fails with ECONNREFUSED, aimed at that response by its identifiers), 1 provisional answer in 3 fails to be written (the application keeps the transaction); in a third to a half of the cases every transport write takes 2 ms and all application writes (answers, send_request/send_invite) run in their own task, so 1 ms gaps put the next message inside a write that has not returned yet (response before send_request returns, copy while a provisional/final answer is written). The lifecycle sub builds request / answer / copy-around-end-of-life histories, optionally with a flood of copies, a mid-life copy, and a mismatched request (line method != CSeq method, CSeq method of the base request or ACK for an INVITE) before or after the answer; in a quarter of them the base request is one no layer takes; advertised Via, Via decoration and arrival paths are drawn as in the history sub; in half of them the response write triggered by the mid-life copy and / or by the copy near the end of life fails, or a provisional answer whose write fails precedes the final one (the copies that follow must still be absorbed up to the transaction's end and start a new transaction after it). A symbolic RFC 3261 17.1.3/17.2.3 reference model predicts for every message: absorbed / shown to layers / delivered to client transaction X / dropped. Non-trivial = two keys differing in exactly one component, a response with foreign branch or CSeq method, an arrival within 5 ms of a transaction's end, a mismatched request meeting a live server transaction with its branch/identifiers, a response arriving while the write of its request is in progress, a copy / ACK meeting the transaction the endpoint created for an untaken request, a copy / ACK arriving by another path than the first request, a response delivered to a client transaction that advertises a foreign sent-by, a response delivered that arrived by another path, or a copy / ACK meeting a server transaction one of whose response writes had failed; distinct by the event sequence.",
        assumptions: vec![
            "arrivals within 3 ms of a transaction's end, inside the INVITE-failure timeout window [64*T1, 64*T1+T2], and the non-INVITE Proceeding timeout are don't-cares: the comparison stops there",
            "the application holds every request it takes until it answers it, and drops ACKs at once; a request it does not take is taken by no layer and answered by the endpoint in the same instant (final non-2xx status; INVITE: ACK awaited like after an application failure answer)",
            "RFC 3261 17.1.3 / 17.2.3 name identifiers of the message only: a message with the identifiers of a live transaction reaches it whatever source address or local transport it arrives by, whatever sent-by the client transaction advertised (the peer echoes the Via, possibly adding received / rport), and whoever (application or endpoint) created the server transaction",
            "sent-by is not varied for RFC 3261 branches (statement silent)",
            "a transport error on the write of a provisional response or of a RETRANSMITTED final response of a non-INVITE server transaction is transient and ends nothing: the application still holds the transaction / has been told that its answer went out and has no way to learn of the error, so the transaction keeps absorbing copies of the request until its timer (64*T1 after the final response) ends it; faults on the first write of a final answer, on INVITE failure-response retransmissions and on client requests (all reported to the application as errors, RFC 3261 17.2.4 / 17.1.4 let the transaction end there) are not generated",
            "a request whose Request-Line method differs from its CSeq method never carries an ACK line, is dropped by the application at once when shown, and whether it is shown at all is not asserted; it must leave every transaction as it was",
            "a message injected in the same millisecond in which a slow write ends is a tie whose order is fixed by the run-time; nothing is asserted that depends on that order",
        ],
        explanation: "sampled histories; reference model is symbolic (identifier equality only)",
        subs: vec![
            prop_sub("history", strategy, 4000, 120000, check),
            prop_sub("lifecycle", lifecycle_strategy, 1500, 30000, check),
        ],
    }
}
