//! C18 — Digest credentials verify under RFC 7616 on first use and every reuse
//!
//! The code under test is driven the way `examples/send_invite.rs` does it:
//!   `UacAuthSession::handle_authenticate(&response.headers, &credential_store, RequestParts{..})`
//!   followed by `UacAuthSession::authorize_request(&mut request.headers)` for every (re)sent request.
//! Challenges are written into the response `Headers` as text by an own printer (RFC 3261 §25
//! `challenge` grammar, one challenge per header row as RFC 3261 §7.3.1 demands), the produced
//! `Authorization` / `Proxy-Authorization` rows are read back as text, split by
//! `ref_digest::split_header` and verified the way the *server that issued the challenge* would:
//! echo of realm / nonce / opaque / algorithm, qop out of the offered set, digest-uri equal to the
//! Request-URI of the request line AS IT GOES ON THE WIRE, username (plain, RFC 5987 `username*`, or
//! userhash) equal to the stored one, and `response` recomputed by `ref_digest` from the credentials the
//! `CredentialStore` holds for the realm AT THE TIME the challenge is handled.
//!
//! The request on the wire: method and Request-URI are taken from the request line printed with the context
//! `Endpoint::send_outgoing_request` prints it with (`UriContext::ReqUri`; `wire_by_print`). The sub
//! `on_the_wire` sends the request through a real `Endpoint` over a mock datagram transport, reads method,
//! Request-URI and body back from the wire log with the harness's own reader, runs the same verification
//! against THAT, and fails with `c18.harness/printed-request-differs-from-sent-request` when the two ways
//! of looking at the request disagree. The request TARGET the application hands over is a `SipUri` VALUE
//! and may be any such value: with `user:password@`, with uri-parameters, and with embedded headers
//! (`?Replaces=..&Subject=..`, a Refer-To / Contact URI used as is). ezk does not write the embedded headers
//! into the Request-URI; the server verifies against what it receives (RFC 7616 §3.4.6, RFC 3261 §22.4).
//!
//! Generator restrictions (soundness; each is a restriction of the generator, not of the oracle):
//!  * realm / nonce / opaque / unknown quoted parameters are `qdtext` (SP, 0x21, 0x23-0x5B, 0x5D-0x7E,
//!    non-ASCII) — no quoted-pairs: neither printer of ezk escapes, and the statement promises nothing
//!    about escaping in auth headers.
//!  * parameter names are lower case, `algorithm`, `stale`, `userhash` are tokens (never quoted — RFC 7616
//!    §3.3 forbids it), qop-options is the RFC 3261 form `qop="a,b"` without inner white space.
//!  * one challenge per header row (RFC 3261 §7.3.1 forbids combining them).
//!  * user names contain no ':' (RFC 7616 §3.4 forbids it); extension methods do not start with the
//!    name of a well-known method (that is C01's finding, not this property's).
//!  * user, password, host, parameter and embedded-header shapes of the request target are built through the
//!    public `SipUri` API; the URI password is drawn from the RFC 3261 `password` characters without escapes
//!    (ezk prints it verbatim), embedded header names are non-empty and every embedded header has a value
//!    (possibly empty). What ezk does with the embedded headers otherwise (RFC 3261 §19.1.5) is not asserted.
//!  * in every history sub all challenges of one realm in one response share the
//!    nonce and carry distinct algorithms (RFC 8760 §2.4 usage), so the answered challenge is identified by
//!    `algorithm` and "same nonce again" is unambiguous.
//!
//! Histories ("a repeated challenge with an unchanged nonce is reported as failed authentication instead of
//! being answered again"): the model keeps TWO things per realm — what the client currently sends (`state`)
//! and what the SERVER remembers, the nonce of the latest answer it verified (`srv_nonce`). A group with
//! `repeat` issues that nonce again, either with the identical challenge rows (`same_rows`) or with other
//! rows (other algorithm / qop / opaque / header kind), for the 1st, 2nd, 3rd .. consecutive time, with or
//! without the client having reused the answer in between, with or without a request being sent after the
//! reported failure (`give_up_on_failure`: a caller that got `Err` for every realm does not call
//! `authorize_request`). Every such response must make `handle_authenticate` return
//! `FailedToAuthenticate` and must not produce new credentials — also when the client stopped sending the
//! entry after the previous failure (the nonce is still the one of its last answer). A fresh nonce after
//! any number of repetitions must be answered and verify. `failure_histories` draws 3..8 responses over
//! 1..2 realms that all have credentials from {fresh supported, identical repetition, repetition with other
//! rows, fresh nonce without supported challenge}; `challenge_sequences` keeps the broad mix (up to 4
//! realms, realms without credentials, unknown algorithms, Basic rows).
//!
//! Histories of the APPLICATION (`credential_updates`, and with low density in the two other history subs):
//! between two responses the application may change its `CredentialStore` (`RoundS::store_ops`:
//! `add_for_realm` replacing the realm's entry — same user with another password, another user with the same
//! password, another account, the account another realm uses —, `remove_for_realm`, `set_default`) and may go
//! on with another request (`RoundS::new_req`: other method / Request-URI / body; e.g. the REGISTER was
//! challenged, later the INVITE is). The model keeps the store's content; a challenge is expected to be answered
//! with what `get_for_realm` documents at that moment (the realm's entry, else the default, else nothing) and
//! for the request `RequestParts` names at that moment. A server that re-challenges usually sends a NEW nonce
//! with the SAME parameters (`GroupS::keep_rows`). Headers answered earlier keep being verified with the
//! account and for the request they were created with (`authorize_request` sees neither store nor request).
//! A mismatch that verifies with an account the realm was answered with earlier is named
//! `c18.creds/replaced-credentials-still-used`, one that verifies for an earlier request
//! `c18.request/answer-computed-for-an-earlier-request` (first use) / `c18.request/reuse-computed-for-an-earlier-request`
//! (diagnosis only; the failure is the mismatch). A digest-uri that is the wire's Request-URI plus `?...` is named
//! `c18.uri/embedded-headers-not-on-the-request-line`, one that is an earlier request's `c18.uri/of-an-earlier-request`.
//! Scenarios may use ONE account for all realms (`share_account`): H(user:realm:password) still differs.
//!
//! Not asserted: whether a header answered BEFORE the store changed switches to the new credentials on reuse
//! (it cannot: no store access; it is verified with the account it was created with);
//! what a challenge with the OLD nonce means after the client dropped (or, no request having
//! been sent, may have dropped) the entry because a challenge with a NEW nonce could not be answered (the
//! server forgets the old nonce there; while the entry is visibly still sent the old nonce counts as
//! unchanged); which realms the error text names; case of the `nc` digits (text is hashed verbatim, value compared numerically);
//! reuse for a different request (the API gives `on_authorize_request` no request); whether `cnonce`
//! changes between reuses of a non-session algorithm; which of auth / auth-int is picked when both
//! are offered; whether a client without userhash support sends the plain name; whether an entry whose
//! re-challenge could not be answered keeps being sent; the `Err` kind for realms without credentials
//! or without a supported challenge; quoting style of `qop`/`algorithm`/`nc` in the credentials.

use crate::engine::*;
use crate::refmodel::ref_digest::{self as rd, Alg, Credentials};
use proptest::prelude::*;
use serde::{Deserialize, Serialize};
use sip_auth::digest::{DigestAuthenticator, DigestCredentials};
use sip_auth::{CredentialStore, RequestParts, UacAuthSession};
use sip_types::host::{Host, HostPort};
use sip_types::msg::RequestLine;
use crate::world::{mock_datagram, offline_builder, run_world, settle, WireLog, WireMsg};
use sip_core::transport::TargetTransportInfo;
use sip_types::print::{AppendCtx, PrintCtx, UriContext};
use sip_types::uri::params::Param;
use sip_types::uri::sip::{SipUri, UserPart, UserPw};
use sip_types::{Headers, Method, Name};
use std::net::{Ipv4Addr, Ipv6Addr, SocketAddr};

// ------------------------------------------------------------------------------------------
// case types
// ------------------------------------------------------------------------------------------

#[derive(Serialize, Deserialize, Debug, Clone, PartialEq, Eq)]
pub struct ChSpec {
    /// 0 MD5, 1 MD5-sess, 2 SHA-256, 3 SHA-256-sess, 4 SHA-512-256, 5 SHA-512-256-sess,
    /// 6 "SHA-512" (unknown), 7 "SHA3-256-sess" (unknown)
    alg: u8,
    /// 0 canonical, 1 lower case, 2 upper case, 3 parameter omitted when alg == 0 (else canonical)
    alg_style: u8,
    /// 0 none, 1 auth, 2 auth-int, 3 auth,auth-int, 4 auth-int,auth, 5 auth,auth-conf,
    /// 6 auth-conf,auth-int, 7 auth-conf only (nothing known)
    qop: u8,
    /// 0 absent, 1 userhash=true, 2 userhash=false
    userhash: u8,
    opaque: Option<String>,
    /// 0 absent, 1 stale=true, 2 stale=false, 3 stale=TRUE
    stale: u8,
    /// 0 none, 1 domain="sip:a.example", 2 x-ext=tok, 3 x-ext="a, b=c"
    extra: u8,
    /// rotation of the parameter list
    rot: u8,
    /// "," instead of ", " between parameters
    tight: bool,
    /// RFC 3261 SWS around "=" and ",": `realm = "x" , nonce = "y"`
    #[serde(default)]
    sws: bool,
}

const ALG_TOKENS: [&str; 8] = [
    "MD5",
    "MD5-sess",
    "SHA-256",
    "SHA-256-sess",
    "SHA-512-256",
    "SHA-512-256-sess",
    "SHA-512",
    "SHA3-256-sess",
];

impl ChSpec {
    fn alg_model(&self) -> Option<Alg> {
        if self.alg < 6 {
            Alg::from_token(Some(ALG_TOKENS[self.alg as usize]))
        } else {
            None
        }
    }
    fn offers_auth(&self) -> bool {
        matches!(self.qop, 1 | 3 | 4 | 5)
    }
    fn offers_auth_int(&self) -> bool {
        matches!(self.qop, 2 | 3 | 4 | 6)
    }
    fn supported(&self, reject_md5: bool) -> bool {
        self.alg < 6 && !(reject_md5 && self.alg < 2) && self.qop != 7
    }
    /// the challenge as header value text (own printer, RFC 3261 §25 grammar)
    fn print(&self, realm: &str, nonce: &str) -> String {
        let mut p: Vec<String> = vec![format!("realm=\"{realm}\""), format!("nonce=\"{nonce}\"")];
        if let Some(o) = &self.opaque {
            p.push(format!("opaque=\"{o}\""));
        }
        match self.stale {
            1 => p.push("stale=true".into()),
            2 => p.push("stale=false".into()),
            3 => p.push("stale=TRUE".into()),
            _ => {}
        }
        let tok = ALG_TOKENS[(self.alg & 7) as usize];
        match (self.alg, self.alg_style) {
            (0, 3) => {}
            (_, 1) => p.push(format!("algorithm={}", tok.to_ascii_lowercase())),
            (_, 2) => p.push(format!("algorithm={}", tok.to_ascii_uppercase())),
            _ => p.push(format!("algorithm={tok}")),
        }
        match self.qop {
            1 => p.push("qop=\"auth\"".into()),
            2 => p.push("qop=\"auth-int\"".into()),
            3 => p.push("qop=\"auth,auth-int\"".into()),
            4 => p.push("qop=\"auth-int,auth\"".into()),
            5 => p.push("qop=\"auth,auth-conf\"".into()),
            6 => p.push("qop=\"auth-conf,auth-int\"".into()),
            7 => p.push("qop=\"auth-conf\"".into()),
            _ => {}
        }
        match self.userhash {
            1 => p.push("userhash=true".into()),
            2 => p.push("userhash=false".into()),
            _ => {}
        }
        match self.extra {
            1 => p.push("domain=\"sip:a.example\"".into()),
            2 => p.push("x-ext=tok".into()),
            3 => p.push("x-ext=\"a, b=c\"".into()),
            _ => {}
        }
        let r = (self.rot as usize) % p.len();
        p.rotate_left(r);
        if self.sws {
            // EQUAL = SWS "=" SWS, COMMA = SWS "," SWS (the first '=' of a parameter is its EQUAL)
            for x in p.iter_mut() {
                *x = x.replacen('=', " = ", 1);
            }
            return format!("Digest {}", p.join(" , "));
        }
        format!("Digest {}", p.join(if self.tight { "," } else { ", " }))
    }
}

#[derive(Serialize, Deserialize, Debug, Clone, PartialEq, Eq)]
pub enum HostSpec {
    Name(String),
    V4([u8; 4]),
    V6([u16; 8]),
}

#[derive(Serialize, Deserialize, Debug, Clone, PartialEq, Eq)]
pub struct UriSpec {
    sips: bool,
    user: Option<String>,
    host: HostSpec,
    port: Option<u16>,
    params: Vec<(String, Option<String>)>,
    /// `user:password@` (RFC 3261 §19.1.1 password grammar; only used together with `user`)
    #[serde(default)]
    password: Option<String>,
    /// embedded headers `?hname=hvalue&..` of the SIP URI VALUE the application hands over as target
    /// (a Refer-To / Contact URI used as is). They are not part of the Request-URI ezk writes.
    #[serde(default)]
    headers: Vec<(String, String)>,
}

#[derive(Serialize, Deserialize, Debug, Clone, PartialEq, Eq)]
pub struct ReqSpec {
    method: String,
    uri: UriSpec,
    body: Vec<u8>,
}

#[derive(Serialize, Deserialize, Debug, Clone, PartialEq, Eq)]
pub struct Cred {
    user: String,
    password: String,
}

/// what the application does to its `CredentialStore` between two responses
#[derive(Serialize, Deserialize, Debug, Clone, PartialEq, Eq)]
pub enum StoreOp {
    /// `add_for_realm(realms[realm], cred)` — adds or REPLACES the entry of the realm
    Set { realm: usize, cred: Cred },
    /// `remove_for_realm(realms[realm])`
    Remove { realm: usize },
    /// `set_default(cred)`
    SetDefault { cred: Cred },
}

/// flat case of `first_use_and_reuse`
#[derive(Serialize, Deserialize, Debug, Clone)]
pub struct FirstUse {
    ch: ChSpec,
    realm: String,
    nonce: String,
    proxy: bool,
    cred: Cred,
    /// credentials are stored as the default entry (true) or under the realm (false)
    by_default: bool,
    /// a second, different credential: the default entry when the real one is stored under the realm,
    /// an entry of an unrelated realm when the real one is the default
    decoy: Option<Cred>,
    req: ReqSpec,
    /// number of reuses after the first use
    reuses: u8,
    enforce_qop: bool,
    reject_md5: bool,
    /// `on_the_wire` only: select!-order seed of the world the request is sent in
    #[serde(default)]
    rng: u8,
}

#[derive(Serialize, Deserialize, Debug, Clone)]
pub struct RowS {
    proxy: bool,
    ch: ChSpec,
}

#[derive(Serialize, Deserialize, Debug, Clone)]
pub struct GroupS {
    /// index into `Scenario::realms`
    realm: usize,
    /// challenge again with the nonce of the answer the client already gave for this realm (if any)
    repeat: bool,
    /// nonce used when not repeating
    nonce: String,
    rows: Vec<RowS>,
    /// when repeating: issue exactly the rows this realm was challenged with last time (the server sends
    /// the identical challenge again) instead of `rows` (same nonce, other algorithm / qop / opaque / kind)
    #[serde(default)]
    same_rows: bool,
    /// when NOT repeating: a fresh nonce with exactly the rows this realm was challenged with last time
    /// (what a server does whose nonce expired or that rejected the password: same parameters, new nonce)
    #[serde(default)]
    keep_rows: bool,
}

#[derive(Serialize, Deserialize, Debug, Clone)]
pub struct RoundS {
    groups: Vec<GroupS>,
    /// a `Basic realm=".."` row as noise in the response
    basic_noise: bool,
    /// number of `authorize_request` calls after this response (>= 1)
    uses: u8,
    /// the caller gives up when `handle_authenticate` could answer nothing: no `authorize_request` call
    /// after a response none of whose realms is expected to be answered
    #[serde(default)]
    give_up_on_failure: bool,
    /// applied to the `CredentialStore` (in order) before this response is handled
    #[serde(default)]
    store_ops: Vec<StoreOp>,
    /// from this response on the application (re)sends THIS request (it is what `RequestParts` names);
    /// headers answered earlier stay verified against the request they were created for
    #[serde(default)]
    new_req: Option<ReqSpec>,
}

/// case of `challenge_sequences` (and the internal form of `first_use_and_reuse`)
#[derive(Serialize, Deserialize, Debug, Clone)]
pub struct Scenario {
    realms: Vec<String>,
    entries: Vec<Option<Cred>>,
    default: Option<Cred>,
    /// entries for realms that are never challenged
    unrelated: Vec<(String, Cred)>,
    enforce_qop: bool,
    reject_md5: bool,
    req: ReqSpec,
    rounds: Vec<RoundS>,
}

// ------------------------------------------------------------------------------------------
// strategies
// ------------------------------------------------------------------------------------------

/// qdtext: SP / 0x21 / 0x23-0x5B / 0x5D-0x7E / UTF8-NONASCII
fn qdtext(allow_empty: bool) -> BoxedStrategy<String> {
    let non_empty = prop_oneof![
        4 => "[a-zA-Z0-9.@_-]{1,12}",
        3 => "[ !#-\\[\\]-~]{1,12}",
        3 => "[ !#-\\[\\]-~äöüßéñ日本語ключ😀]{1,10}",
    ];
    if allow_empty {
        prop_oneof![10 => non_empty, 1 => Just(String::new())].boxed()
    } else {
        non_empty.boxed()
    }
}

fn nonce_strategy(allow_empty: bool) -> BoxedStrategy<String> {
    prop_oneof![
        5 => "[a-zA-Z0-9+/=]{1,32}",
        2 => qdtext(allow_empty),
    ]
    .boxed()
}

fn chspec(supported_only: bool) -> BoxedStrategy<ChSpec> {
    let alg_max = if supported_only { 6u8 } else { 8u8 };
    let qop_max = if supported_only { 7u8 } else { 8u8 };
    (
        0..alg_max,
        0..4u8,
        0..qop_max,
        0..3u8,
        prop_oneof![3 => Just(None), 2 => Just(Some(String::new())), 4 => qdtext(false).prop_map(Some)],
        prop_oneof![4 => Just(0u8), 2 => Just(1u8), 1 => Just(2u8), 1 => Just(3u8)],
        prop_oneof![5 => Just(0u8), 1 => Just(1u8), 1 => Just(2u8), 1 => Just(3u8)],
        any::<u8>(),
        (any::<bool>(), prop::bool::weighted(0.15)),
    )
        .prop_map(|(alg, alg_style, qop, userhash, opaque, stale, extra, rot, (tight, sws))| ChSpec {
            alg,
            alg_style,
            qop,
            userhash,
            opaque,
            stale,
            extra,
            rot,
            tight,
            sws,
        })
        .boxed()
}

fn user_strategy() -> BoxedStrategy<String> {
    prop_oneof![
        // attr-chars only: goes out as username="..."
        4 => "[a-zA-Z0-9!#$&+.^_`|~-]{1,10}",
        // printable ASCII without ':' (space, quote, backslash, percent, ...)
        2 => "[ -9;-~]{0,10}",
        3 => "[a-zäöüß日本😀 \"%\\\\]{1,8}",
        // any Unicode scalar value except ':' (controls included)
        1 => "[^:]{0,8}",
    ]
    .boxed()
}

fn password_strategy() -> BoxedStrategy<String> {
    prop_oneof![
        4 => "[ -~]{0,16}",
        3 => "\\PC{0,10}",
        1 => "(?s).{0,12}",
    ]
    .boxed()
}

fn cred_strategy() -> BoxedStrategy<Cred> {
    (user_strategy(), password_strategy())
        .prop_map(|(user, password)| Cred { user, password })
        .boxed()
}

const KNOWN_METHODS: [&str; 14] = [
    "INVITE", "ACK", "CANCEL", "BYE", "REGISTER", "MESSAGE", "UPDATE", "PRACK", "OPTIONS", "SUBSCRIBE", "NOTIFY",
    "PUBLISH", "INFO", "REFER",
];

fn method_strategy() -> BoxedStrategy<String> {
    prop_oneof![
        6 => any::<u16>().prop_map(|s| KNOWN_METHODS[pick_idx(s, KNOWN_METHODS.len())].to_string()),
        // extension methods: first letter is not the first letter of any well-known method
        2 => "[DEFGHJKLQTVWXYZ][A-Z]{1,7}",
        1 => "[DEFGHJKLQTVWXYZdefghjklqtvwxyz][A-Za-z0-9.!%*_+`'~-]{0,8}",
    ]
    .boxed()
}

fn uri_strategy() -> BoxedStrategy<UriSpec> {
    let user = prop_oneof![
        3 => Just(None),
        3 => "[a-z0-9]{1,8}".prop_map(Some),
        2 => "[a-zA-Z0-9+._~*'()&=$,;?/!-]{1,10}".prop_map(Some),
        2 => "[a-z @\"<>äö日%]{1,8}".prop_map(Some),
    ];
    let host = prop_oneof![
        4 => "[a-z][a-z0-9]{0,7}(\\.[a-z][a-z0-9]{1,5}){0,2}".prop_map(HostSpec::Name),
        2 => any::<[u8; 4]>().prop_map(HostSpec::V4),
        1 => any::<[u16; 8]>().prop_map(HostSpec::V6),
    ];
    let pname = prop_oneof![
        Just("transport".to_string()),
        Just("lr".to_string()),
        Just("user".to_string()),
        Just("maddr".to_string()),
        Just("ttl".to_string()),
        Just("method".to_string()),
        "x-[a-z]{1,5}",
    ];
    let param = (pname, prop::option::of("[a-zA-Z0-9.-]{1,8}"));
    // password = *( unreserved / "&" / "=" / "+" / "$" / "," ) — ezk prints it verbatim, so only the grammar's own characters
    let password = prop::option::weighted(0.2, "[a-zA-Z0-9&=+$,._~*'()!-]{0,8}");
    // embedded headers: hname is 1*( hnv-unreserved / unreserved / escaped ) — given here as the DECODED text the
    // `Param` API takes; hvalue is any text (may be empty), typically a whole header value
    let hname = prop_oneof![
        3 => Just("Replaces".to_string()),
        2 => Just("Subject".to_string()),
        1 => Just("Require".to_string()),
        1 => Just("Call-ID".to_string()),
        1 => Just("body".to_string()),
        2 => "[A-Za-z][A-Za-z0-9-]{0,8}",
    ];
    let hvalue = prop_oneof![
        3 => "[a-z0-9]{1,8}@[a-z]{1,6}\\.example;to-tag=[a-z0-9]{1,4};from-tag=[a-z0-9]{1,4}",
        3 => "[a-zA-Z0-9.-]{0,10}",
        2 => "[ -~]{0,16}",
        1 => "[a-z äö日%&=?]{1,8}",
    ];
    let headers = prop_oneof![
        3 => Just(vec![]),
        2 => prop::collection::vec((hname, hvalue), 1..=3),
    ];
    (
        prop::bool::weighted(0.25),
        user,
        host,
        prop::option::of(1u16..),
        prop::collection::vec(param, 0..3),
        password,
        headers,
    )
        .prop_map(|(sips, user, host, port, params, password, headers)| {
            let password = if user.is_some() { password } else { None };
            UriSpec { sips, user, host, port, params, password, headers }
        })
        .boxed()
}

fn body_strategy() -> BoxedStrategy<Vec<u8>> {
    prop_oneof![
        3 => Just(vec![]),
        3 => prop::collection::vec(any::<u8>(), 1..64),
        2 => "v=0\r\no=- [0-9]{1,9} 1 IN IP4 [a-z]{1,8}\\.example\r\ns=-\r\n[ -~äö\r\n]{0,200}".prop_map(|s| s.into_bytes()),
        1 => prop::collection::vec(any::<u8>(), 64..1024),
    ]
    .boxed()
}

fn req_strategy() -> BoxedStrategy<ReqSpec> {
    (method_strategy(), uri_strategy(), body_strategy())
        .prop_map(|(method, uri, body)| ReqSpec { method, uri, body })
        .boxed()
}

fn first_use_strategy() -> BoxedStrategy<FirstUse> {
    (
        chspec(true),
        qdtext(true),
        nonce_strategy(true),
        any::<bool>(),
        cred_strategy(),
        any::<bool>(),
        prop::option::weighted(0.6, cred_strategy()),
        req_strategy(),
        1..=5u8,
        (prop::bool::weighted(0.25), prop::bool::weighted(0.25), any::<u8>()),
    )
        .prop_map(
            |(ch, realm, nonce, proxy, cred, by_default, decoy, req, reuses, (enforce_qop, reject, rng))| {
                // reject_md5 only where the challenge stays supported (this sub is about answered challenges)
                let reject_md5 = reject && ch.alg >= 2;
                // a decoy equal to the real credentials would be no decoy
                let decoy = decoy.filter(|d| *d != cred);
                FirstUse {
                    ch,
                    realm,
                    nonce,
                    proxy,
                    cred,
                    by_default,
                    decoy,
                    req,
                    reuses,
                    enforce_qop,
                    reject_md5,
                    rng,
                }
            },
        )
        .boxed()
}

#[derive(Debug, Clone)]
struct GroupGen {
    realm_sel: u16,
    repeat: bool,
    nonce: String,
    proxy: bool,
    mixed: bool,
    rows: Vec<(bool, ChSpec)>,
    same_rows: bool,
    keep_rows: bool,
}

fn group_gen() -> BoxedStrategy<GroupGen> {
    (
        any::<u16>(),
        prop::bool::weighted(0.4),
        nonce_strategy(false),
        any::<bool>(),
        prop::bool::weighted(0.12),
        prop::collection::vec((any::<bool>(), chspec(false)), 1..=3),
        (any::<bool>(), prop::bool::weighted(0.3)),
    )
        .prop_map(|(realm_sel, repeat, nonce, proxy, mixed, rows, (same_rows, keep_rows))| GroupGen {
            realm_sel,
            repeat,
            nonce,
            proxy,
            mixed,
            rows,
            same_rows,
            keep_rows,
        })
        .boxed()
}

/// one event of a `failure_histories` round: what the server does to one realm
///  0 fresh nonce, supported challenges      1 the identical challenge again (unchanged nonce)
///  2 unchanged nonce, other challenge rows   3 fresh nonce, no supported challenge
fn history_group_gen() -> BoxedStrategy<GroupGen> {
    (
        any::<u16>(),
        prop_oneof![3 => Just(0u8), 3 => Just(1u8), 2 => Just(2u8), 1 => Just(3u8)],
        nonce_strategy(false),
        any::<bool>(),
        prop::bool::weighted(0.12),
        prop::collection::vec((any::<bool>(), chspec(true)), 1..=2),
    )
        .prop_map(|(realm_sel, ev, nonce, proxy, mixed, mut rows)| {
            if ev == 3 {
                // unknown algorithm, or only an unknown qop token
                for (i, (flip, ch)) in rows.iter_mut().enumerate() {
                    if *flip || i > 0 {
                        ch.alg = 6 + (ch.alg & 1);
                    } else {
                        ch.qop = 7;
                    }
                }
            }
            GroupGen { realm_sel, repeat: ev == 1 || ev == 2, nonce, proxy, mixed, rows, same_rows: ev == 1, keep_rows: false }
        })
        .boxed()
}

/// one event of a `credential_updates` round: what the server does to one realm
///  0 fresh nonce, the SAME challenge rows as last time   1 fresh nonce, new rows
///  2 the identical challenge again (unchanged nonce)     3 fresh nonce, no supported challenge
fn update_group_gen() -> BoxedStrategy<GroupGen> {
    (
        any::<u16>(),
        prop_oneof![5 => Just(0u8), 3 => Just(1u8), 1 => Just(2u8), 1 => Just(3u8)],
        nonce_strategy(false),
        any::<bool>(),
        prop::bool::weighted(0.1),
        prop::collection::vec((any::<bool>(), chspec(true)), 1..=2),
    )
        .prop_map(|(realm_sel, ev, nonce, proxy, mixed, mut rows)| {
            if ev == 3 {
                for (_, ch) in rows.iter_mut() {
                    ch.alg = 6 + (ch.alg & 1);
                }
            }
            GroupGen { realm_sel, repeat: ev == 2, nonce, proxy, mixed, rows, same_rows: true, keep_rows: ev == 0 }
        })
        .boxed()
}

/// a change of the credential store between two responses
///  kind 0 same user, other password (a corrected / rotated password)   1 other user, same password
///       2 another account   3 the realm's entry is removed (the default, if any, takes over)
///       4 the account another realm uses right now (one account for registrar and proxy)
/// `default`: the default entry is the target instead of a realm's entry (a default cannot be removed: kind 3 = 2)
#[derive(Debug, Clone)]
struct OpGen {
    target_sel: u16,
    other_sel: u16,
    default: bool,
    kind: u8,
    cred: Cred,
}

fn op_gen(focus: bool) -> BoxedStrategy<OpGen> {
    let kind = if focus {
        prop_oneof![5 => Just(0u8), 2 => Just(1u8), 2 => Just(2u8), 1 => Just(3u8), 1 => Just(4u8)].boxed()
    } else {
        prop_oneof![3 => Just(0u8), 2 => Just(1u8), 2 => Just(2u8), 2 => Just(3u8), 1 => Just(4u8)].boxed()
    };
    (any::<u16>(), any::<u16>(), prop::bool::weighted(0.25), kind, cred_strategy())
        .prop_map(|(target_sel, other_sel, default, kind, cred)| OpGen { target_sel, other_sel, default, kind, cred })
        .boxed()
}

/// the application sends another request from now on: 0 everything new, 1 other method, 2 other URI, 3 other body
#[derive(Debug, Clone)]
struct ReqGen {
    kind: u8,
    req: ReqSpec,
}

fn req_gen() -> BoxedStrategy<ReqGen> {
    (0..4u8, req_strategy()).prop_map(|(kind, req)| ReqGen { kind, req }).boxed()
}

#[derive(Debug, Clone)]
struct RoundGen {
    groups: Vec<GroupGen>,
    basic_noise: bool,
    uses: u8,
    give_up_on_failure: bool,
    ops: Vec<OpGen>,
    new_req: Option<ReqGen>,
}

/// `density`: how often a round changes the store (ops) / the request
fn round_gen(
    groups: BoxedStrategy<Vec<GroupGen>>,
    noise: f64,
    max_uses: u8,
    give_up: f64,
    ops: BoxedStrategy<Vec<OpGen>>,
    new_req: f64,
) -> BoxedStrategy<RoundGen> {
    (
        groups,
        prop::bool::weighted(noise),
        1..=max_uses,
        prop::bool::weighted(give_up),
        ops,
        prop::option::weighted(new_req, req_gen()),
    )
        .prop_map(|(groups, basic_noise, uses, give_up_on_failure, ops, new_req)| RoundGen {
            groups,
            basic_noise,
            uses,
            give_up_on_failure,
            ops,
            new_req,
        })
        .boxed()
}

fn derive_cred(old: Option<&Cred>, other: Option<&Cred>, kind: u8, fresh: Cred) -> Cred {
    match (old, kind) {
        (Some(o), 0) => {
            let mut password = fresh.password;
            if password == o.password {
                password.push('~');
            }
            Cred { user: o.user.clone(), password }
        }
        (Some(o), 1) => {
            let mut user = fresh.user;
            if user == o.user {
                user.push('x');
            }
            Cred { user, password: o.password.clone() }
        }
        (_, 4) => other.cloned().unwrap_or(fresh),
        _ => fresh,
    }
}

#[allow(clippy::too_many_arguments)]
fn assemble(
    realms_in: Vec<String>,
    entries_in: Vec<Option<Cred>>,
    default: Option<Cred>,
    unrelated: Option<Cred>,
    enforce_qop: bool,
    reject_md5: bool,
    req: ReqSpec,
    rounds_in: Vec<RoundGen>,
    share_account: bool,
) -> Scenario {
    // distinct realms by construction
    let mut realms: Vec<String> = vec![];
    for (i, r) in realms_in.into_iter().enumerate() {
        if realms.contains(&r) {
            realms.push(format!("{r}#{i}"));
        } else {
            realms.push(r);
        }
    }
    let mut entries: Vec<Option<Cred>> = entries_in.into_iter().take(realms.len()).collect();
    if share_account {
        // one account for every realm that has an entry (H(user:realm:password) still differs per realm)
        if let Some(first) = entries.iter().flatten().next().cloned() {
            for e in entries.iter_mut().flatten() {
                *e = first.clone();
            }
        }
    }
    // the store and the request as they are when a round begins (the ops are derived from them)
    let mut cur_entries = entries.clone();
    let mut cur_default = default.clone();
    let mut cur_req = req.clone();
    let unrelated = unrelated
        .into_iter()
        .map(|c| {
            let mut name = String::from("unrelated.example");
            while realms.contains(&name) {
                name.push('x');
            }
            (name, c)
        })
        .collect();
    let mut rounds = vec![];
    for (ri, rg) in rounds_in.into_iter().enumerate() {
        let RoundGen { groups: groups_in, basic_noise, uses, give_up_on_failure, ops, new_req } = rg;
        // the first response is handled with the store / request the scenario starts with
        let mut store_ops = vec![];
        if ri > 0 {
            for op in ops {
                let realm = pick_idx(op.target_sel, realms.len());
                let other_realm = pick_idx(op.other_sel, realms.len());
                let other = cur_entries[other_realm].clone().or(cur_default.clone());
                if op.default {
                    let kind = if op.kind == 3 { 2 } else { op.kind };
                    let cred = derive_cred(cur_default.as_ref(), other.as_ref(), kind, op.cred);
                    cur_default = Some(cred.clone());
                    store_ops.push(StoreOp::SetDefault { cred });
                } else if op.kind == 3 {
                    cur_entries[realm] = None;
                    store_ops.push(StoreOp::Remove { realm });
                } else {
                    // relative to what the realm is answered with right now (its entry, else the default)
                    let old = cur_entries[realm].clone().or(cur_default.clone());
                    let cred = derive_cred(old.as_ref(), other.as_ref(), op.kind, op.cred);
                    cur_entries[realm] = Some(cred.clone());
                    store_ops.push(StoreOp::Set { realm, cred });
                }
            }
        }
        let new_req = if ri > 0 {
            new_req.map(|n| {
                let mut r = cur_req.clone();
                match n.kind {
                    1 => r.method = n.req.method,
                    2 => r.uri = n.req.uri,
                    3 => r.body = n.req.body,
                    _ => r = n.req,
                }
                r
            })
        } else {
            None
        };
        // (a "new" request equal to the current one is none)
        let new_req = new_req.filter(|r| *r != cur_req);
        if let Some(r) = &new_req {
            cur_req = r.clone();
        }
        let mut groups: Vec<GroupS> = vec![];
        for g in groups_in {
            let realm = pick_idx(g.realm_sel, realms.len());
            if groups.iter().any(|x| x.realm == realm) {
                continue; // a realm is challenged by one group per response
            }
            // distinct algorithms inside the group
            let mut rows: Vec<RowS> = vec![];
            for (flip, mut ch) in g.rows {
                // (a second unknown algorithm stays unknown while there is room: 6 <-> 7)
                if ch.alg >= 6 && rows.iter().any(|r| r.ch.alg == ch.alg) {
                    ch.alg = 13 - ch.alg;
                }
                while rows.iter().any(|r| r.ch.alg == ch.alg) {
                    ch.alg = (ch.alg + 1) % 8;
                }
                rows.push(RowS { proxy: g.proxy ^ (g.mixed && flip), ch });
            }
            // a fresh nonce ends in the round number: differs from every nonce of another round
            groups.push(GroupS {
                realm,
                repeat: g.repeat,
                nonce: format!("{}{}", g.nonce, ri),
                rows,
                same_rows: g.same_rows,
                keep_rows: g.keep_rows,
            });
        }
        rounds.push(RoundS { groups, basic_noise, uses, give_up_on_failure, store_ops, new_req });
    }
    Scenario { realms, entries, default, unrelated, enforce_qop, reject_md5, req, rounds }
}

fn scenario_strategy() -> BoxedStrategy<Scenario> {
    let ops = prop_oneof![3 => Just(vec![]), 1 => prop::collection::vec(op_gen(false), 1..=2)].boxed();
    let round = round_gen(prop::collection::vec(group_gen(), 1..=3).boxed(), 0.15, 3, 0.25, ops, 0.15);
    (
        prop::collection::vec(qdtext(false), 1..=4),
        prop::collection::vec(prop::option::weighted(0.8, cred_strategy()), 4),
        prop::option::weighted(0.5, cred_strategy()),
        prop::option::weighted(0.3, cred_strategy()),
        (prop::bool::weighted(0.25), prop::bool::weighted(0.25), prop::bool::weighted(0.15)),
        req_strategy(),
        prop::collection::vec(round, 1..=4),
    )
        .prop_map(|(realms_in, entries_in, default, unrelated, (enforce_qop, reject_md5, share), req, rounds_in)| {
            assemble(realms_in, entries_in, default, unrelated, enforce_qop, reject_md5, req, rounds_in, share)
        })
        .boxed()
}

/// long histories over few realms: what the session does AFTER a failure it has reported
/// (the same nonce a 2nd, 3rd, .. time; a fresh nonce after n repetitions; an unanswerable challenge in between)
fn history_strategy() -> BoxedStrategy<Scenario> {
    let ops = prop_oneof![5 => Just(vec![]), 1 => prop::collection::vec(op_gen(false), 1..=2)].boxed();
    let round = round_gen(prop::collection::vec(history_group_gen(), 1..=2).boxed(), 0.1, 2, 0.4, ops, 0.1);
    (
        prop::collection::vec(qdtext(false), 1..=2),
        // every realm can be answered at the start: by its own entry or by the default (a later store op may remove it)
        (cred_strategy(), prop::collection::vec(prop::option::weighted(0.7, cred_strategy()), 2), any::<bool>()),
        (prop::bool::weighted(0.25), prop::bool::weighted(0.2)),
        req_strategy(),
        prop::collection::vec(round, 3..=8),
    )
        .prop_map(|(realms_in, (default, entries_in, keep_default), (enforce_qop, reject_md5), req, rounds_in)| {
            let all_entries = entries_in.iter().take(realms_in.len()).all(|e| e.is_some());
            let default = if all_entries && !keep_default { None } else { Some(default) };
            assemble(realms_in, entries_in, default, None, enforce_qop, reject_md5, req, rounds_in, false)
        })
        .boxed()
}

/// the application changes its `CredentialStore` (and sometimes the request) between responses while the
/// server keeps challenging the same realms: mostly a NEW nonce with the SAME parameters after the account
/// of the realm got another password / user / was removed / was added
fn update_strategy() -> BoxedStrategy<Scenario> {
    let ops = prop_oneof![1 => Just(vec![]), 3 => prop::collection::vec(op_gen(true), 1..=2)].boxed();
    let round = round_gen(prop::collection::vec(update_group_gen(), 1..=2).boxed(), 0.05, 3, 0.1, ops, 0.2);
    (
        prop::collection::vec(qdtext(false), 1..=2),
        (cred_strategy(), prop::collection::vec(prop::option::weighted(0.7, cred_strategy()), 2), any::<bool>()),
        (prop::bool::weighted(0.25), prop::bool::weighted(0.2), prop::bool::weighted(0.25)),
        req_strategy(),
        prop::collection::vec(round, 2..=5),
    )
        .prop_map(|(realms_in, (default, entries_in, keep_default), (enforce_qop, reject_md5, share), req, rounds_in)| {
            let all_entries = entries_in.iter().take(realms_in.len()).all(|e| e.is_some());
            let default = if all_entries && !keep_default { None } else { Some(default) };
            assemble(realms_in, entries_in, default, None, enforce_qop, reject_md5, req, rounds_in, share)
        })
        .boxed()
}

// ------------------------------------------------------------------------------------------
// the verifier (server side model)
// ------------------------------------------------------------------------------------------

struct Wire {
    method: String,
    uri: String,
    body: Vec<u8>,
}

/// what the verifying server keeps after accepting credentials for a realm
struct Accepted {
    nonce: String,
    fields: Credentials,
    alg: Alg,
    /// H(A1): fixed for plain algorithms, the session key for -sess ones
    ha1: String,
    qop: Option<String>,
    cnonce: Option<String>,
    nc: Option<u32>,
    proxy: bool,
    uses: u32,
    /// index into `Ctx::wires`: the request the header was created for
    wire: usize,
}

fn alg_class(a: Alg) -> &'static str {
    if a.sess {
        "sess"
    } else {
        "plain"
    }
}

fn qop_class(q: Option<&str>) -> &'static str {
    match q {
        None => "none",
        Some("auth") => "auth",
        Some("auth-int") => "auth-int",
        Some(_) => "other",
    }
}

const SINGLE: [&str; 12] = [
    "username", "username*", "realm", "nonce", "uri", "response", "algorithm", "opaque", "qop", "cnonce", "nc",
    "userhash",
];

fn structural(c: &Credentials, out: &mut CaseOut) -> bool {
    let mut ok = true;
    if !c.scheme.eq_ignore_ascii_case("Digest") {
        out.fail("c18.split/scheme", format!("credentials scheme is {:?}", c.scheme));
        ok = false;
    }
    for n in SINGLE {
        if c.all(n).len() > 1 {
            out.fail(format!("c18.fields/duplicate:{n}"), format!("parameter {n} occurs {} times", c.all(n).len()));
            ok = false;
        }
    }
    for n in ["realm", "nonce", "uri", "response"] {
        if c.get(n).is_none() {
            out.fail(format!("c18.fields/missing:{n}"), format!("credentials lack {n}: {c:?}"));
            ok = false;
        }
    }
    ok
}

/// nc-value = 8LHEX (case of the digits is not asserted)
fn parse_nc(text: &str, out: &mut CaseOut) -> Option<u32> {
    if text.len() != 8 || !text.chars().all(|c| c.is_ascii_hexdigit()) {
        out.fail("c18.nc/format", format!("nc {text:?} is not 8 hex digits"));
        return None;
    }
    u32::from_str_radix(text, 16).ok()
}

fn check_username(c: &Credentials, alg: Alg, realm: &str, cred: &Cred, offered_userhash: bool, out: &mut CaseOut) {
    let uh = c.get("userhash").map_or(false, |v| v.eq_ignore_ascii_case("true"));
    if uh && !offered_userhash {
        out.fail("c18.echo/userhash-not-offered", "userhash=true although the challenge did not offer userhash");
    }
    match (c.get("username"), c.get("username*")) {
        (Some(_), Some(_)) => out.fail("c18.username/both", "username and username* both present"),
        (None, None) => out.fail("c18.fields/missing:username", "neither username nor username*"),
        (Some(u), None) => {
            if uh {
                let want = rd::userhash(alg.hash, &cred.user, realm);
                if u != want {
                    out.fail(
                        "c18.username/userhash-wrong",
                        format!("userhash=true: username {u:?}, expected H(user:realm) = {want:?}"),
                    );
                }
            } else if u != cred.user {
                out.fail("c18.username/wrong", format!("username {u:?}, stored user {:?}", cred.user));
            }
        }
        (None, Some(ext)) => {
            if uh {
                out.fail("c18.username/ext-with-userhash", "username* together with userhash=true");
            }
            match rd::decode_ext_value(ext) {
                Ok(u) => {
                    if u != cred.user {
                        out.fail("c18.username/wrong", format!("username* decodes to {u:?}, stored user {:?}", cred.user));
                    }
                }
                Err(e) => out.fail("c18.username/ext-value-malformed", format!("username*={ext:?}: {e}")),
            }
        }
    }
}

/// recompute `response` for credentials `c`; `ha1` given for reuse (session key kept by the server)
fn expected_response(
    c: &Credentials,
    alg: Alg,
    ha1: &str,
    wire: &Wire,
    qop: Option<&str>,
) -> Result<String, (String, String)> {
    // digest-uri as given in the credentials (that it is the Request-URI of `wire` is checked separately, once)
    expected_response_for(c, alg, ha1, &wire.method, c.get("uri").unwrap_or(""), &wire.body, qop)
}

fn expected_response_for(
    c: &Credentials,
    alg: Alg,
    ha1: &str,
    method: &str,
    uri: &str,
    body: &[u8],
    qop: Option<&str>,
) -> Result<String, (String, String)> {
    let nonce = c.get("nonce").unwrap_or("");
    let ha2 = rd::ha2(alg.hash, qop, method, uri, body).map_err(|e| ("c18.echo/qop-unknown".to_string(), e))?;
    let q = match qop {
        Some(q) => {
            let nc = c.get("nc").ok_or(("c18.fields/missing:nc".to_string(), "qop without nc".to_string()))?;
            let cn = c
                .get("cnonce")
                .ok_or(("c18.fields/missing:cnonce".to_string(), "qop without cnonce".to_string()))?;
            Some((q, nc, cn))
        }
        None => None,
    };
    Ok(rd::response(alg.hash, ha1, nonce, q, &ha2))
}

fn compute_ha1(c: &Credentials, alg: Alg, realm: &str, cred: &Cred) -> Result<String, (String, String)> {
    if alg.sess {
        let cn = c.get("cnonce").ok_or((
            "c18.response/sess-without-cnonce".to_string(),
            "a -sess algorithm needs the cnonce for A1 but the credentials carry none: no server can verify them".to_string(),
        ))?;
        Ok(rd::session_ha1(alg.hash, &cred.user, realm, &cred.password, c.get("nonce").unwrap_or(""), cn))
    } else {
        Ok(rd::ha1_base(alg.hash, &cred.user, realm, &cred.password))
    }
}

struct Ctx<'a> {
    sc: &'a Scenario,
    /// every request of the scenario as it goes on the wire; `cur` is the one being (re)sent now
    wires: Vec<Wire>,
    cur: usize,
    /// every account the store holds right now (diagnosis only: "verifies with another entry")
    others: Vec<Cred>,
    /// per realm: accounts the realm was answered with earlier that the store no longer gives for it
    /// (diagnosis only: "verifies with credentials that were replaced")
    stale: Vec<Vec<Cred>>,
    flags: Flags,
}

#[derive(Default)]
struct Flags {
    sess: bool,
    auth_int: bool,
    userhash: bool,
    reuse: bool,
    non_ascii_cred: bool,
    /// a second or later consecutive repetition of the answered nonce was reported as failure
    repeat_again: bool,
    /// a header verified with credentials that were put into the store after the session's first answer
    updated_creds: bool,
    /// a header verified for a request other than the one the session started with
    changed_request: bool,
    verified_any: bool,
}

/// first use of credentials answering `group` (issued with `nonce`)
#[allow(clippy::too_many_arguments)]
fn verify_first(
    cx: &mut Ctx,
    c: &Credentials,
    row_is_proxy: bool,
    realm_idx: usize,
    rows: &[RowS],
    nonce: &str,
    cred: &Cred,
    prev: Option<&Accepted>,
    out: &mut CaseOut,
) -> Option<Accepted> {
    let sc = cx.sc;
    let realm = sc.realms[realm_idx].as_str();
    if !structural(c, out) {
        return None;
    }
    let got_nonce = c.get("nonce").unwrap();
    if got_nonce != nonce {
        if prev.map_or(false, |p| p.nonce == got_nonce) {
            out.fail(
                "c18.answer/not-renewed",
                format!("challenge with new nonce {nonce:?} was not answered, credentials still carry {got_nonce:?}"),
            );
        } else {
            out.fail("c18.echo/nonce", format!("nonce {got_nonce:?}, challenge had {nonce:?}"));
        }
        return None;
    }
    // which challenge was answered: by algorithm (distinct inside a group)
    let Some(alg) = Alg::from_token(c.get("algorithm")) else {
        out.fail("c18.echo/algorithm-unknown", format!("algorithm {:?}", c.get("algorithm")));
        return None;
    };
    let Some(row) = rows.iter().find(|r| r.ch.alg_model() == Some(alg)) else {
        out.fail(
            "c18.echo/algorithm-not-offered",
            format!(
                "credentials use algorithm {:?}, offered: {:?}",
                c.get("algorithm"),
                rows.iter().map(|r| ALG_TOKENS[r.ch.alg as usize]).collect::<Vec<_>>()
            ),
        );
        return None;
    };
    let ch = &row.ch;
    // first supported challenge of the realm (per header kind, see module doc)
    let first_www = rows.iter().find(|r| !r.proxy && r.ch.supported(sc.reject_md5));
    let first_proxy = rows.iter().find(|r| r.proxy && r.ch.supported(sc.reject_md5));
    let is_first = [first_www, first_proxy].iter().flatten().any(|r| r.ch.alg == ch.alg);
    if !is_first {
        let what = if ch.supported(sc.reject_md5) { "not the first supported one" } else { "not a supported one" };
        out.fail(
            "c18.select/not-first-supported",
            format!("answered the {} challenge, which is {what} of the realm", ALG_TOKENS[ch.alg as usize]),
        );
    }
    if row.proxy != row_is_proxy {
        out.fail(
            if row.proxy { "c18.kind/proxy-challenge-answered-in-authorization" } else { "c18.kind/www-challenge-answered-in-proxy-authorization" },
            format!("challenge came in {} but the answer is in {}",
                if row.proxy { "Proxy-Authenticate" } else { "WWW-Authenticate" },
                if row_is_proxy { "Proxy-Authorization" } else { "Authorization" }),
        );
    }
    // opaque echo
    let got_opaque = c.get("opaque");
    let opaque_ok = match ch.opaque.as_deref() {
        None => got_opaque.is_none(),
        Some("") => got_opaque.map_or(true, |o| o.is_empty()),
        Some(o) => got_opaque == Some(o),
    };
    if !opaque_ok {
        out.fail("c18.echo/opaque", format!("opaque {:?}, challenge had {:?}", got_opaque, ch.opaque));
    }
    // qop
    let qop = c.get("qop");
    match qop {
        None => {
            if ch.offers_auth() || ch.offers_auth_int() {
                out.fail("c18.echo/qop-missing", "challenge offered qop but the credentials carry none");
            }
        }
        Some("auth") => {
            if !(ch.offers_auth() || (ch.qop == 0 && sc.enforce_qop)) {
                out.fail(
                    if ch.qop == 0 { "c18.echo/qop-unsolicited" } else { "c18.echo/qop-not-offered" },
                    "qop=auth was not offered",
                );
            }
        }
        Some("auth-int") => {
            if !ch.offers_auth_int() {
                out.fail(
                    if ch.qop == 0 { "c18.echo/qop-unsolicited" } else { "c18.echo/qop-not-offered" },
                    "qop=auth-int was not offered",
                );
            }
        }
        Some(o) => {
            out.fail("c18.echo/qop-unknown", format!("qop {o:?}"));
            return None;
        }
    }
    let mut nc = None;
    if qop.is_some() {
        match c.get("nc") {
            None => out.fail("c18.fields/missing:nc", "qop without nc"),
            Some(t) => {
                nc = parse_nc(t, out);
                if let Some(v) = nc {
                    if v != 1 {
                        out.fail("c18.nc/first-not-1", format!("first use of a nonce has nc={t}"));
                    }
                }
            }
        }
        if c.get("cnonce").map_or(true, |x| x.is_empty()) {
            out.fail("c18.fields/missing:cnonce", "qop without (non-empty) cnonce");
        }
    }
    check_username(c, alg, realm, cred, ch.userhash == 1, out);
    let wire = &cx.wires[cx.cur];
    if c.get("uri").unwrap() != wire.uri {
        // RFC 7616 §3.4.6 / RFC 3261 §22.4: the server checks uri= against the Request-URI it received (and builds
        // A2 from it). Name the two ways a client gets there that are not a mere printing difference:
        let got = c.get("uri").unwrap();
        let sig = if got.strip_prefix(wire.uri.as_str()).map_or(false, |rest| rest.starts_with('?')) {
            "c18.uri/embedded-headers-not-on-the-request-line"
        } else if cx.wires.iter().enumerate().any(|(i, w)| i != cx.cur && w.uri == got) {
            "c18.uri/of-an-earlier-request"
        } else {
            "c18.uri/differs-from-request-line"
        };
        out.fail(sig, format!("digest-uri {got:?}, Request-URI on the wire {:?}", wire.uri));
    }
    // response
    let sig = format!("c18.response/{}:{}:first", alg_class(alg), qop_class(qop));
    let ha1 = match compute_ha1(c, alg, realm, cred) {
        Ok(h) => h,
        Err((s, m)) => {
            out.fail(s, m);
            return None;
        }
    };
    let want = match expected_response(c, alg, &ha1, wire, qop) {
        Ok(w) => w,
        Err((s, m)) => {
            out.fail(s, m);
            return None;
        }
    };
    let got = c.get("response").unwrap();
    if got != want {
        // diagnosis (the failure is the mismatch; this only names it): would it verify with an account the realm
        // was answered with before the store changed, with another account of the store, for an earlier request?
        let verifies_with = |o: &Cred, w: &Wire| {
            compute_ha1(c, alg, realm, o)
                .ok()
                .and_then(|h| expected_response(c, alg, &h, w, qop).ok())
                .map_or(false, |x| x == got)
        };
        let stale_ok = cx.stale[realm_idx].iter().any(|o| o != cred && verifies_with(o, wire));
        let other_ok = cx.others.iter().any(|o| o != cred && verifies_with(o, wire));
        let earlier_req_ok = cx.wires.iter().enumerate().any(|(i, w)| i != cx.cur && verifies_with(cred, w));
        if stale_ok {
            out.fail(
                "c18.creds/replaced-credentials-still-used",
                format!(
                    "response verifies with credentials realm {realm:?} was answered with EARLIER in this session; the store \
                     has other credentials for the realm now (user {:?}) and those do not verify it",
                    cred.user
                ),
            );
        } else if earlier_req_ok {
            out.fail(
                "c18.request/answer-computed-for-an-earlier-request",
                format!(
                    "response verifies for method/Request-URI/body of a request this session answered earlier, not for {} {}",
                    wire.method, wire.uri
                ),
            );
        } else if other_ok {
            out.fail(
                "c18.creds/wrong-entry",
                format!("response verifies with another entry of the store, not with the one for realm {realm:?}"),
            );
        } else {
            out.fail(
                sig,
                format!(
                    "response {got:?} != expected {want:?} (algorithm {:?}, qop {:?}, nc {:?}, cnonce {:?})",
                    c.get("algorithm"),
                    qop,
                    c.get("nc"),
                    c.get("cnonce")
                ),
            );
        }
        return None;
    }
    cx.flags.sess |= alg.sess;
    cx.flags.auth_int |= qop == Some("auth-int");
    cx.flags.userhash |= c.get("userhash").map_or(false, |v| v.eq_ignore_ascii_case("true"));
    cx.flags.non_ascii_cred |= !cred.user.is_ascii() || !cred.password.is_ascii();
    cx.flags.changed_request |= cx.cur > 0;
    cx.flags.verified_any = true;
    class_first(out, alg, qop, c, ch, row_is_proxy);
    Some(Accepted {
        nonce: nonce.to_string(),
        fields: c.clone(),
        alg,
        ha1,
        qop: qop.map(|s| s.to_string()),
        cnonce: c.get("cnonce").map(|s| s.to_string()),
        nc,
        proxy: row_is_proxy,
        uses: 1,
        wire: cx.cur,
    })
}

fn class_first(out: &mut CaseOut, alg: Alg, qop: Option<&str>, c: &Credentials, ch: &ChSpec, proxy: bool) {
    out.class(match (alg.hash, alg.sess) {
        (rd::HashKind::Md5, false) => "verified:MD5",
        (rd::HashKind::Md5, true) => "verified:MD5-sess",
        (rd::HashKind::Sha256, false) => "verified:SHA-256",
        (rd::HashKind::Sha256, true) => "verified:SHA-256-sess",
        (rd::HashKind::Sha512_256, false) => "verified:SHA-512-256",
        (rd::HashKind::Sha512_256, true) => "verified:SHA-512-256-sess",
    });
    out.class(match qop {
        None => "verified:qop-none",
        Some("auth") => "verified:qop-auth",
        _ => "verified:qop-auth-int",
    });
    if alg.sess && qop.is_none() {
        out.class("verified:sess-without-qop");
    }
    if c.get("username*").is_some() {
        out.class("verified:username*");
    }
    if c.get("userhash").map_or(false, |v| v.eq_ignore_ascii_case("true")) {
        out.class("verified:userhash");
    }
    out.class(match ch.opaque.as_deref() {
        None => "opaque:absent",
        Some("") => "opaque:empty",
        Some(_) => "opaque:present",
    });
    out.class(if proxy { "verified:Proxy-Authorization" } else { "verified:Authorization" });
    if ch.stale == 1 || ch.stale == 3 {
        out.class("challenge:stale=true");
    }
    if ch.sws {
        out.class("challenge:sws-around-equal-and-comma");
    }
    if ch.rot % 8 != 0 {
        out.class("challenge:parameters-rotated");
    }
}

/// a later use of already accepted credentials
fn verify_reuse(cx: &mut Ctx, acc: &mut Accepted, c: &Credentials, row_is_proxy: bool, out: &mut CaseOut) {
    if !structural(c, out) {
        return;
    }
    if row_is_proxy != acc.proxy {
        out.fail("c18.reuse/header-kind-changed", "credentials moved between Authorization and Proxy-Authorization");
    }
    // answered again instead of reused?
    if let (Some(old), Some(new), Some(nc)) = (acc.cnonce.as_deref(), c.get("cnonce"), c.get("nc")) {
        if acc.qop.is_some() && old != new && u32::from_str_radix(nc, 16) == Ok(1) && c.get("nonce") == Some(acc.nonce.as_str()) {
            out.fail(
                "c18.seq/answered-again",
                "a challenge with the unchanged nonce was answered again (new cnonce, nc restarted at 1)",
            );
            return;
        }
    }
    for n in ["username", "username*", "realm", "nonce", "uri", "algorithm", "opaque", "qop", "userhash"] {
        let a: Vec<&str> = acc.fields.all(n).iter().map(|f| f.value.as_str()).collect();
        let b: Vec<&str> = c.all(n).iter().map(|f| f.value.as_str()).collect();
        if a != b {
            out.fail(format!("c18.reuse/field-changed:{n}"), format!("{n}: first use {a:?}, reuse {b:?}"));
            return;
        }
    }
    let qop = acc.qop.clone();
    if qop.is_some() {
        match c.get("nc") {
            None => out.fail("c18.fields/missing:nc", "qop without nc"),
            Some(t) => {
                if let Some(v) = parse_nc(t, out) {
                    if let Some(prev) = acc.nc {
                        if v != prev.wrapping_add(1) {
                            out.fail(
                                "c18.nc/not-incremented",
                                format!("nc went from {prev:08x} to {t} on use number {}", acc.uses + 1),
                            );
                        }
                    }
                    acc.nc = Some(v);
                }
            }
        }
    }
    acc.uses += 1;
    let sig = format!("c18.response/{}:{}:reuse", alg_class(acc.alg), qop_class(qop.as_deref()));
    match expected_response(c, acc.alg, &acc.ha1, &cx.wires[acc.wire], qop.as_deref()) {
        Ok(want) => {
            let got = c.get("response").unwrap();
            // diagnosis only: A2 of a request this session answered EARLIER (its method, Request-URI, body)?
            let earlier = got != want && cx.wires.iter().enumerate().any(|(i, w)| {
                i != acc.wire
                    && expected_response_for(c, acc.alg, &acc.ha1, &w.method, &w.uri, &w.body, qop.as_deref()).map_or(false, |x| x == got)
            });
            if got != want && earlier {
                out.fail(
                    "c18.request/reuse-computed-for-an-earlier-request",
                    format!(
                        "use number {}: response verifies for method/Request-URI/body of a request this session answered earlier, not for {} {}",
                        acc.uses,
                        cx.wires[acc.wire].method,
                        cx.wires[acc.wire].uri
                    ),
                );
            } else if got != want {
                out.fail(
                    sig,
                    format!(
                        "use number {}: response {got:?} != expected {want:?} (algorithm {:?}, qop {:?}, nc {:?})",
                        acc.uses,
                        c.get("algorithm"),
                        qop,
                        c.get("nc")
                    ),
                );
            } else {
                cx.flags.reuse |= true;
                out.class(match acc.uses {
                    2 => "reuse:2nd-use-verified",
                    3 => "reuse:3rd-use-verified",
                    _ => "reuse:4th+-use-verified",
                });
                if qop.is_some() {
                    out.class("reuse:with-nc");
                }
            }
        }
        Err((s, m)) => out.fail(s, m),
    }
}

// ------------------------------------------------------------------------------------------
// driving ezk
// ------------------------------------------------------------------------------------------

fn build_uri(u: &UriSpec) -> SipUri {
    let host = match &u.host {
        HostSpec::Name(n) => Host::Name(n.as_str().into()),
        HostSpec::V4(a) => Host::IP4(Ipv4Addr::new(a[0], a[1], a[2], a[3])),
        HostSpec::V6(a) => Host::IP6(Ipv6Addr::new(a[0], a[1], a[2], a[3], a[4], a[5], a[6], a[7])),
    };
    let mut uri = SipUri::new(HostPort { host, port: u.port }).sips(u.sips);
    if let Some(user) = &u.user {
        uri = uri.user(user.as_str().into());
        if let Some(pw) = &u.password {
            uri.user_part = UserPart::UserPw(Box::new(UserPw { user: user.as_str().into(), password: pw.as_str().into() }));
        }
    }
    for (n, v) in &u.params {
        match v {
            Some(v) => uri.uri_params.push(Param::value(n.as_str(), v.as_str())),
            None => uri.uri_params.push(Param::name(n.as_str())),
        }
    }
    for (n, v) in &u.headers {
        uri.header_params.push(Param::value(n.as_str(), v.as_str()));
    }
    uri
}

fn request_line(req: &ReqSpec) -> RequestLine {
    RequestLine { method: Method::from(req.method.as_str()), uri: Box::new(build_uri(&req.uri)) }
}

fn split_request_line(text: &str, body: &[u8]) -> Result<Wire, String> {
    let parts: Vec<&str> = text.split(' ').collect();
    if parts.len() != 3 || parts[2] != "SIP/2.0" {
        return Err(format!("unexpected request line {text:?}"));
    }
    Ok(Wire { method: parts[0].to_string(), uri: parts[1].to_string(), body: body.to_vec() })
}

/// The request as it goes on the wire, without sending it: the request line printed with exactly the
/// context `Endpoint::send_outgoing_request` prints it with (sip-core/src/endpoint.rs: `PrintCtx { method:
/// Some(&line.method), uri: Some(UriContext::ReqUri) }`). `on_the_wire` checks this against a real send.
fn wire_by_print(req: &ReqSpec) -> Result<Wire, String> {
    let line = request_line(req);
    let text = line
        .print_ctx(PrintCtx { method: Some(&line.method), uri: Some(UriContext::ReqUri) })
        .to_string();
    split_request_line(&text, &req.body)
}

/// The request as it goes on the wire: sent through a real `Endpoint` over a mock datagram transport, read back
/// from the wire log with the harness's own message reader (method, Request-URI, body after Content-Length).
fn wire_by_endpoint(req: &ReqSpec, rng: u8) -> Result<Wire, String> {
    let req = req.clone();
    run_world(rng as u64, |clock| async move {
        let log = WireLog::new(clock);
        let (tp, _id) = mock_datagram(&log, "UDP", false, false, "10.0.0.1:5060");
        let endpoint = offline_builder().build();
        let peer: SocketAddr = "192.0.2.1:5060".parse().unwrap();
        let mut target = TargetTransportInfo { via_host_port: None, transport: Some((tp, peer)) };
        let mut request = sip_core::Request {
            line: request_line(&req),
            headers: Headers::new(),
            body: bytes::Bytes::from(req.body.clone()),
        };
        request.headers.insert(Name::VIA, "SIP/2.0/UDP 10.0.0.1:5060;branch=z9hG4bKc18");
        request.headers.insert(Name::FROM, "<sip:alice@example.org>;tag=c18");
        request.headers.insert(Name::TO, "<sip:bob@example.net>");
        request.headers.insert(Name::CALL_ID, "c18-call@example.org");
        request.headers.insert(Name::CSEQ, format!("1 {}", req.method));
        request.headers.insert(Name::MAX_FORWARDS, "70");
        let mut outgoing = endpoint.create_outgoing(request, &mut target).await.map_err(|e| format!("create_outgoing: {e}"))?;
        endpoint.send_outgoing_request(&mut outgoing).await.map_err(|e| format!("send_outgoing_request: {e}"))?;
        settle().await;
        let sent = log.snapshot();
        let first = sent.first().ok_or("nothing was sent")?;
        let msg = WireMsg::parse(&first.bytes).ok_or("the sent request cannot be read")?;
        split_request_line(&msg.start, &msg.body)
    })
}

fn auth_rows(h: &Headers) -> Vec<(bool, String)> {
    h.iter()
        .filter_map(|(n, v)| {
            if *n == Name::AUTHORIZATION {
                Some((false, v.to_string()))
            } else if *n == Name::PROXY_AUTHORIZATION {
                Some((true, v.to_string()))
            } else {
                None
            }
        })
        .collect()
}

#[derive(PartialEq, Eq, Clone, Copy, Debug)]
enum Outcome {
    Answer,
    NoCreds,
    Repeat,
    Unsupported,
}

fn digest_cred(c: &Cred) -> DigestCredentials {
    DigestCredentials::new(c.user.clone(), c.password.clone())
}

fn run_scenario(sc: &Scenario, wire_of: &dyn Fn(&ReqSpec) -> Result<Wire, String>, out: &mut CaseOut) {
    // --- the client side, as a caller sets it up
    let mut store = CredentialStore::new();
    for (realm, e) in sc.realms.iter().zip(&sc.entries) {
        if let Some(c) = e {
            store.add_for_realm(realm.clone(), DigestCredentials::new(c.user.clone(), c.password.clone()));
        }
    }
    if let Some(c) = &sc.default {
        store.set_default(DigestCredentials::new(c.user.clone(), c.password.clone()));
    }
    for (realm, c) in &sc.unrelated {
        store.add_for_realm(realm.clone(), DigestCredentials::new(c.user.clone(), c.password.clone()));
    }
    let mut authenticator = DigestAuthenticator::default();
    authenticator.enforce_qop = sc.enforce_qop;
    authenticator.reject_md5 = sc.reject_md5;
    let mut session = UacAuthSession::new(authenticator);

    // every request of the scenario: what the application hands to ezk (`lines`) and what goes on the wire
    let reqs: Vec<&ReqSpec> = std::iter::once(&sc.req).chain(sc.rounds.iter().filter_map(|r| r.new_req.as_ref())).collect();
    let lines: Vec<RequestLine> = reqs.iter().map(|r| request_line(r)).collect();
    let mut wires = vec![];
    for r in &reqs {
        match wire_of(r) {
            Ok(w) => wires.push(w),
            Err(e) => {
                out.fail("c18.harness/request-line", e);
                return;
            }
        }
    }
    let request_headers = Headers::new();

    // the store as the model sees it
    let mut cur_entries: Vec<Option<Cred>> = sc.entries.clone();
    let mut cur_default: Option<Cred> = sc.default.clone();
    let effective = |entries: &Vec<Option<Cred>>, default: &Option<Cred>, realm: usize| -> Option<Cred> {
        entries[realm].clone().or(default.clone())
    };
    let all_accounts = |entries: &Vec<Option<Cred>>, default: &Option<Cred>| -> Vec<Cred> {
        let mut v: Vec<Cred> = entries.iter().flatten().cloned().collect();
        v.extend(default.iter().cloned());
        v.extend(sc.unrelated.iter().map(|u| u.1.clone()));
        v
    };
    // the account each realm's latest verified answer was made with
    let mut answered_with: Vec<Option<Cred>> = sc.realms.iter().map(|_| None).collect();
    let mut store_changed = false;

    let mut cx = Ctx {
        sc,
        wires,
        cur: 0,
        others: all_accounts(&cur_entries, &cur_default),
        stale: sc.realms.iter().map(|_| vec![]).collect(),
        flags: Flags::default(),
    };
    let mut state: Vec<Option<Accepted>> = sc.realms.iter().map(|_| None).collect();
    // realms whose current entry failed verification: nothing more is derived from that entry
    // (no follow-on failures) until the realm is answered anew
    let mut broken: Vec<bool> = sc.realms.iter().map(|_| false).collect();
    // the SERVER's memory per realm: the nonce of the latest answer it verified. Unlike `state` (what the
    // client currently sends) it survives rounds in which that nonce was challenged again and the client,
    // after reporting the failure, stopped sending the entry: the nonce is still "unchanged" when it
    // comes a third, fourth, .. time.
    let mut srv_nonce: Vec<Option<String>> = sc.realms.iter().map(|_| None).collect();
    // the rows the realm was challenged with last time
    let mut srv_rows: Vec<Option<Vec<RowS>>> = sc.realms.iter().map(|_| None).collect();
    // number of consecutive challenges with the unchanged nonce since the answer
    let mut repeats: Vec<u32> = sc.realms.iter().map(|_| 0).collect();
    // a challenge of the realm could not be answered and no request was sent since: whether the client still
    // holds the realm's entry has not been seen (dropping it is accepted, see "Not asserted")
    let mut maybe_dropped: Vec<bool> = sc.realms.iter().map(|_| false).collect();
    let mut had_repeat_failure = false;

    for round in &sc.rounds {
        // --- the application: updates its credential store / goes on with another request
        for op in &round.store_ops {
            let before: Vec<Option<Cred>> = (0..sc.realms.len()).map(|i| effective(&cur_entries, &cur_default, i)).collect();
            match op {
                StoreOp::Set { realm, cred } => {
                    store.add_for_realm(sc.realms[*realm].clone(), digest_cred(cred));
                    cur_entries[*realm] = Some(cred.clone());
                }
                StoreOp::Remove { realm } => {
                    store.remove_for_realm(&sc.realms[*realm]);
                    cur_entries[*realm] = None;
                }
                StoreOp::SetDefault { cred } => {
                    store.set_default(digest_cred(cred));
                    cur_default = Some(cred.clone());
                }
            }
            for (i, old) in before.iter().enumerate() {
                let new = effective(&cur_entries, &cur_default, i);
                if *old == new {
                    continue;
                }
                store_changed = true;
                out.class(match (old, &new) {
                    (None, Some(_)) => "store:realm-got-credentials",
                    (Some(_), None) => "store:realm-lost-its-credentials",
                    (Some(o), Some(n)) if o.user == n.user => "store:password-replaced-same-user",
                    (Some(o), Some(n)) if o.password == n.password => "store:user-replaced-same-password",
                    _ => "store:account-replaced",
                });
                if state[i].is_some() && answered_with[i] != new {
                    out.class("store:changed-for-a-realm-with-a-live-answer");
                }
            }
            cx.others = all_accounts(&cur_entries, &cur_default);
        }
        if let Some(nr) = &round.new_req {
            cx.cur += 1;
            let old = reqs[cx.cur - 1];
            out.class("request:changed-between-responses");
            if old.method != nr.method {
                out.class("request:other-method");
            }
            if old.uri != nr.uri {
                out.class("request:other-uri");
            }
            if old.body != nr.body {
                out.class("request:other-body");
            }
        }
        let line = &lines[cx.cur];
        let body: &[u8] = &reqs[cx.cur].body;

        // --- the server side: issue challenges
        let mut chal = Headers::new();
        let mut outcomes: Vec<(usize, Outcome, String)> = vec![];
        for g in &round.groups {
            let prev = state[g.realm].as_ref();
            let known = if g.repeat { srv_nonce[g.realm].clone() } else { None };
            let repeating = known.is_some();
            let nonce = known.unwrap_or_else(|| g.nonce.clone());
            let identical = repeating && g.same_rows && srv_rows[g.realm].is_some();
            let kept = !g.repeat && g.keep_rows && srv_rows[g.realm].is_some();
            let rows: Vec<RowS> = if identical || kept { srv_rows[g.realm].clone().unwrap() } else { g.rows.clone() };
            if kept {
                out.class("round:new-nonce-with-the-rows-of-the-last-challenge");
            }
            for r in &rows {
                let name = if r.proxy { Name::PROXY_AUTHENTICATE } else { Name::WWW_AUTHENTICATE };
                chal.insert(name, r.ch.print(&sc.realms[g.realm], &nonce));
            }
            let cred = effective(&cur_entries, &cur_default, g.realm);
            let any_supported = rows.iter().any(|r| r.ch.supported(sc.reject_md5));
            let oc = if cred.is_none() {
                Outcome::NoCreds
            } else if repeating {
                Outcome::Repeat
            } else if !any_supported {
                Outcome::Unsupported
            } else {
                Outcome::Answer
            };
            if oc == Outcome::Repeat {
                repeats[g.realm] += 1;
                out.class(match repeats[g.realm] {
                    1 => "repeat:1st-repetition-of-the-answered-nonce",
                    2 => "repeat:2nd-consecutive-repetition",
                    _ => "repeat:3rd+-consecutive-repetition",
                });
                out.class(if identical { "repeat:identical-challenge" } else { "repeat:same-nonce-other-rows" });
                if let Some(p) = prev {
                    if rows.iter().all(|r| r.proxy != p.proxy) {
                        out.class("repeat:in-the-other-header-kind");
                    }
                    if p.uses > 1 {
                        out.class("repeat:after-the-answer-was-reused");
                    }
                } else {
                    out.class("repeat:after-the-client-dropped-the-entry");
                }
                if !any_supported {
                    out.class("repeat:without-supported-challenge");
                }
            } else {
                if oc == Outcome::Answer && repeats[g.realm] >= 2 {
                    out.class("round:new-nonce-after-2+-repetitions");
                }
                if oc == Outcome::Unsupported && srv_nonce[g.realm].is_some() {
                    out.class("round:unanswerable-new-nonce-for-answered-realm");
                }
                if oc != Outcome::NoCreds {
                    repeats[g.realm] = 0;
                }
            }
            srv_rows[g.realm] = Some(rows);
            outcomes.push((g.realm, oc, nonce));
        }
        if round.basic_noise {
            chal.insert(Name::WWW_AUTHENTICATE, "Basic realm=\"basic.example\"");
            out.class("response:with-basic-scheme-row");
        }
        if round.groups.iter().any(|g| {
            let rows = srv_rows[g.realm].as_deref().unwrap_or(&g.rows);
            rows.iter().any(|r| r.proxy) && rows.iter().any(|r| !r.proxy)
        }) {
            out.class("group:realm-challenged-in-both-header-kinds");
        }
        for g in &round.groups {
            let rows = srv_rows[g.realm].as_deref().unwrap_or(&g.rows);
            if let Some(fs) = rows.iter().position(|r| r.ch.supported(sc.reject_md5)) {
                if fs > 0 {
                    out.class("group:first-unsupported-then-supported");
                }
            }
            if rows.len() > 1 {
                out.class("group:several-challenges-per-realm");
            }
        }

        let result = session.handle_authenticate(
            &chal,
            &store,
            RequestParts { line, headers: &request_headers, body },
        );

        let any_repeat = outcomes.iter().any(|o| o.1 == Outcome::Repeat);
        let any_fail = outcomes.iter().any(|o| o.1 != Outcome::Answer);
        if any_repeat {
            out.class("round:challenge-repeated-with-same-nonce");
            had_repeat_failure = true;
            // the least advanced repeated realm of this response decides what is named
            let k = outcomes.iter().filter(|o| o.1 == Outcome::Repeat).map(|o| repeats[o.0]).min().unwrap_or(1);
            match &result {
                Err(sip_auth::Error::FailedToAuthenticate(_)) => {
                    if k >= 2 {
                        cx.flags.repeat_again = true;
                    }
                }
                other => out.fail(
                    if k >= 2 { "c18.seq/repeat-after-reported-failure-not-reported" } else { "c18.seq/repeat-not-reported" },
                    format!(
                        "a challenge with an unchanged nonce (repetition number {k} since the answer) must be reported as FailedToAuthenticate, got {:?}",
                        other.as_ref().map_err(|e| e.to_string())
                    ),
                ),
            }
        } else if !any_fail {
            if let Err(e) = &result {
                out.fail("c18.api/unexpected-error", format!("every challenged realm can be answered but handle_authenticate returned {e}"));
            }
        }
        for o in &outcomes {
            match o.1 {
                Outcome::NoCreds => out.class("round:realm-without-credentials"),
                Outcome::Unsupported => out.class("round:no-supported-challenge"),
                Outcome::Answer => {
                    if state[o.0].is_some() {
                        out.class("round:new-nonce-for-answered-realm");
                        if had_repeat_failure {
                            out.class("round:new-nonce-after-repeat");
                        }
                    }
                }
                Outcome::Repeat => {}
            }
        }

        // --- the client (re)sends the request `uses` times (or gives up when nothing could be answered)
        let gave_up = round.give_up_on_failure && !outcomes.is_empty() && outcomes.iter().all(|o| o.1 != Outcome::Answer);
        if gave_up {
            out.class("round:caller-gives-up-after-failure");
        }
        let uses = if gave_up { 0 } else { round.uses };
        if gave_up {
            // nothing is sent, so it cannot be seen whether the client still holds the entry of a realm whose
            // new nonce it could not answer; what the OLD nonce means afterwards is not asserted (see below)
            for o in &outcomes {
                if o.1 == Outcome::Unsupported {
                    srv_nonce[o.0] = None;
                }
                if o.1 != Outcome::NoCreds {
                    maybe_dropped[o.0] = true;
                }
            }
        }
        for use_no in 0..uses {
            let mut hdrs = Headers::new();
            session.authorize_request(&mut hdrs);
            let rows = auth_rows(&hdrs);
            let mut by_realm: Vec<Vec<(bool, Credentials)>> = sc.realms.iter().map(|_| vec![]).collect();
            for (is_proxy, text) in &rows {
                match rd::split_header(text) {
                    Err(e) => out.fail("c18.split/malformed", format!("cannot split {text:?}: {e}")),
                    Ok(c) => match c.get("realm").and_then(|r| sc.realms.iter().position(|x| x == r)) {
                        Some(i) => by_realm[i].push((*is_proxy, c)),
                        None => out.fail(
                            "c18.answer/unexpected-realm",
                            format!("credentials for realm {:?}, which was never challenged: {text:?}", c.get("realm")),
                        ),
                    },
                }
            }
            if out.note.is_none() && !rows.is_empty() {
                out.note = Some(format!("{} {} -> {}", cx.wires[cx.cur].method, cx.wires[cx.cur].uri, rows[0].1));
            }
            for (ri, got) in by_realm.iter().enumerate() {
                if got.len() > 1 {
                    out.fail(
                        "c18.answer/several-per-realm",
                        format!("{} credentials for realm {:?} in one request", got.len(), sc.realms[ri]),
                    );
                    continue;
                }
                let got = got.first();
                let oc = if use_no == 0 { outcomes.iter().find(|o| o.0 == ri) } else { None };
                match oc {
                    Some((_, Outcome::Answer, nonce)) => {
                        // the rows the realm was challenged with in this response
                        let issued: Vec<RowS> = srv_rows[ri].clone().unwrap_or_default();
                        let cred = effective(&cur_entries, &cur_default, ri).unwrap();
                        match got {
                            None => {
                                broken[ri] = false;
                                maybe_dropped[ri] = false;
                                srv_nonce[ri] = None;
                                out.fail(
                                    "c18.answer/missing",
                                    format!(
                                        "no credentials for realm {:?} although a supported challenge was received and credentials are stored",
                                        sc.realms[ri]
                                    ),
                                );
                                state[ri] = None;
                            }
                            Some((is_proxy, c)) => {
                                maybe_dropped[ri] = false;
                                let prev = state[ri].take();
                                state[ri] = verify_first(&mut cx, c, *is_proxy, ri, &issued, nonce, &cred, prev.as_ref(), out);
                                broken[ri] = state[ri].is_none();
                                srv_nonce[ri] = state[ri].as_ref().map(|a| a.nonce.clone());
                                if cur_entries[ri].is_some() && cur_default.is_some() && state[ri].is_some() {
                                    out.class("creds:realm-entry-preferred-over-default");
                                } else if cur_entries[ri].is_none() && state[ri].is_some() {
                                    out.class("creds:default-used-for-realm-without-entry");
                                }
                                if let Some(now) = state[ri].as_ref() {
                                    if let Some(before) = answered_with[ri].as_ref().filter(|b| **b != cred) {
                                        cx.flags.updated_creds = true;
                                        let same_alg = prev.as_ref().map_or(false, |p| p.alg == now.alg);
                                        out.class(match (before.user == cred.user, same_alg) {
                                            (true, true) => "update:verified-with-the-new-password-of-the-same-user,same-algorithm",
                                            (true, false) => "update:verified-with-the-new-password-of-the-same-user,other-algorithm",
                                            (false, _) => "update:verified-with-another-user",
                                        });
                                    } else if store_changed {
                                        out.class("update:verified-after-a-store-change-that-kept-the-realm's-account");
                                    }
                                    answered_with[ri] = Some(cred.clone());
                                }
                                // what the realm was (to be) answered with so far: diagnosis of later mismatches
                                if !cx.stale[ri].contains(&cred) {
                                    cx.stale[ri].push(cred.clone());
                                }
                            }
                        }
                    }
                    _ if broken[ri] => {}
                    _ => {
                        // no new answer expected: reuse of what was accepted before, or nothing
                        let has_state = state[ri].is_some();
                        let oc_kind = oc.map(|o| o.1);
                        match (has_state, got) {
                            (true, Some((is_proxy, c))) => {
                                verify_reuse(&mut cx, state[ri].as_mut().unwrap(), c, *is_proxy, out);
                                maybe_dropped[ri] = false;
                                if oc_kind == Some(Outcome::Repeat) {
                                    out.class("repeat:entry-still-sent-after-the-failure");
                                }
                            }
                            (false, Some((_, c))) if oc_kind == Some(Outcome::Repeat) => {
                                // the client had stopped sending the entry after an earlier repetition and
                                // now sends credentials again: the unchanged nonce was answered again
                                out.fail(
                                    "c18.seq/answered-again-after-reported-failure",
                                    format!(
                                        "realm {:?}: repetition number {} of the unchanged nonce {:?} was answered again: {c:?}",
                                        sc.realms[ri],
                                        repeats[ri],
                                        srv_nonce[ri]
                                    ),
                                );
                                // nothing more is derived from this entry
                                broken[ri] = true;
                                srv_nonce[ri] = None;
                            }
                            (false, Some((_, c))) => {
                                let why = match oc_kind {
                                    Some(Outcome::NoCreds) => "no credentials are stored for it",
                                    Some(Outcome::Unsupported) => "none of its challenges is supported",
                                    _ => "it has no verified answer",
                                };
                                out.fail(
                                    "c18.answer/unexpected",
                                    format!("credentials for realm {:?} although {why}: {c:?}", sc.realms[ri]),
                                );
                                broken[ri] = true;
                                srv_nonce[ri] = None;
                            }
                            (true, None) => {
                                if oc_kind == Some(Outcome::Repeat) {
                                    // the re-challenge could not be answered; dropping the entry is accepted.
                                    // The server still knows the nonce: the next repetition is one, too
                                    state[ri] = None;
                                    out.class("repeat:entry-dropped-after-the-failure");
                                } else if oc.is_some() {
                                    // same, after a new nonce without supported challenge; what a later
                                    // challenge with the OLD nonce means now is not asserted: forget it
                                    state[ri] = None;
                                    srv_nonce[ri] = None;
                                } else if maybe_dropped[ri] {
                                    // dropped in an earlier round after which nothing was sent (`srv_nonce` is
                                    // still known exactly when that failure was a repetition)
                                    state[ri] = None;
                                    out.class("round:entry-dropped-after-unanswerable-challenge");
                                } else {
                                    out.fail(
                                        "c18.reuse/dropped",
                                        format!("accepted credentials for realm {:?} are no longer sent", sc.realms[ri]),
                                    );
                                    state[ri] = None;
                                    srv_nonce[ri] = None;
                                }
                            }
                            (false, None) => {
                                if oc_kind == Some(Outcome::Unsupported) {
                                    srv_nonce[ri] = None;
                                }
                            }
                        }
                    }
                }
            }
        }
    }

    // --- coverage bookkeeping
    let answered = state.iter().filter(|s| s.is_some()).count();
    out.class(match sc.realms.len() {
        1 => "realms:1",
        2 => "realms:2",
        3 => "realms:3",
        _ => "realms:4",
    });
    if answered >= 2 {
        out.class("realms:>=2-answered-at-end");
    }
    if sc.enforce_qop {
        out.class("flag:enforce_qop");
    }
    if sc.reject_md5 {
        out.class("flag:reject_md5");
    }
    out.class(if KNOWN_METHODS.contains(&sc.req.method.as_str()) { "method:well-known" } else { "method:extension" });
    out.class(if sc.req.body.is_empty() { "body:empty" } else { "body:non-empty" });
    out.class(match sc.req.uri.host {
        HostSpec::Name(_) => "uri:host-name",
        HostSpec::V4(_) => "uri:ipv4",
        HostSpec::V6(_) => "uri:ipv6",
    });
    if sc.req.uri.user.is_some() {
        out.class("uri:with-user");
    }
    if !sc.req.uri.params.is_empty() {
        out.class("uri:with-params");
    }
    if reqs.iter().any(|r| r.uri.password.is_some()) {
        out.class("uri:with-user-password");
    }
    let embedded = reqs.iter().any(|r| !r.uri.headers.is_empty());
    if embedded {
        out.class("uri:target-with-embedded-headers");
        if reqs.iter().any(|r| r.uri.headers.iter().any(|h| h.0 == "Replaces")) {
            out.class("uri:target-with-embedded-Replaces");
        }
        if reqs.iter().any(|r| !r.uri.headers.is_empty() && !r.uri.params.is_empty()) {
            out.class("uri:target-with-params-and-embedded-headers");
        }
    }
    if sc.realms.iter().any(|r| !r.is_ascii()) {
        out.class("realm:non-ascii");
    }
    if sc.realms.iter().any(|r| r.is_empty()) {
        out.class("realm:empty");
    }
    let f = &cx.flags;
    if f.non_ascii_cred {
        out.class("creds:non-ascii");
    }
    if f.verified_any && embedded {
        out.class("uri:header-verified-for-target-with-embedded-headers");
    }
    if f.sess
        || f.auth_int
        || f.userhash
        || f.reuse
        || f.non_ascii_cred
        || f.repeat_again
        || f.updated_creds
        || f.changed_request
        || (f.verified_any && embedded)
        || answered >= 2
    {
        out.nontrivial(&serde_json::to_string(sc).unwrap_or_default());
    }
}

fn check_sequences(sc: &Scenario, out: &mut CaseOut) {
    run_scenario(sc, &wire_by_print, out);
}

fn first_use_scenario(fu: &FirstUse, out: &mut CaseOut) -> Scenario {
    let (entries, default, unrelated) = if fu.by_default {
        (
            vec![None],
            Some(fu.cred.clone()),
            fu.decoy.iter().map(|d| (format!("{}.other", fu.realm), d.clone())).collect(),
        )
    } else {
        (vec![Some(fu.cred.clone())], fu.decoy.clone(), vec![])
    };
    let sc = Scenario {
        realms: vec![fu.realm.clone()],
        entries,
        default,
        unrelated,
        enforce_qop: fu.enforce_qop,
        reject_md5: fu.reject_md5,
        req: fu.req.clone(),
        rounds: vec![RoundS {
            groups: vec![GroupS {
                realm: 0,
                repeat: false,
                nonce: fu.nonce.clone(),
                rows: vec![RowS { proxy: fu.proxy, ch: fu.ch.clone() }],
                same_rows: false,
                keep_rows: false,
            }],
            basic_noise: false,
            uses: 1 + fu.reuses,
            give_up_on_failure: false,
            store_ops: vec![],
            new_req: None,
        }],
    };
    if fu.nonce.is_empty() {
        out.class("nonce:empty");
    }
    if !fu.nonce.is_ascii() {
        out.class("nonce:non-ascii");
    }
    out.class(match fu.ch.qop {
        0 => "offered-qop:none",
        1 => "offered-qop:auth",
        2 => "offered-qop:auth-int",
        3 | 4 => "offered-qop:auth+auth-int",
        _ => "offered-qop:with-unknown-token",
    });
    out.class(match fu.ch.userhash {
        1 => "offered-userhash:true",
        2 => "offered-userhash:false",
        _ => "offered-userhash:absent",
    });
    sc
}

fn check_first_use(fu: &FirstUse, out: &mut CaseOut) {
    let sc = first_use_scenario(fu, out);
    run_scenario(&sc, &wire_by_print, out);
}

/// the same as `first_use_and_reuse`, but method, Request-URI and body the verifier uses are read from the request
/// a real `Endpoint` put on a (mock) transport; also pins that `wire_by_print` (used by the other subs) sees the same
fn check_on_the_wire(fu: &FirstUse, out: &mut CaseOut) {
    let sc = first_use_scenario(fu, out);
    let rng = fu.rng;
    match (wire_by_endpoint(&fu.req, rng), wire_by_print(&fu.req)) {
        (Ok(sent), Ok(printed)) => {
            if sent.method != printed.method || sent.uri != printed.uri || sent.body != printed.body {
                out.fail(
                    "c18.harness/printed-request-differs-from-sent-request",
                    format!(
                        "Endpoint sent {} {} ({} body bytes), the other subs assume {} {} ({} body bytes)",
                        sent.method,
                        sent.uri,
                        sent.body.len(),
                        printed.method,
                        printed.uri,
                        printed.body.len()
                    ),
                );
            }
            if sent.uri.contains('?') {
                out.class("wire:request-uri-contains-a-question-mark");
            }
        }
        (Err(e), _) | (_, Err(e)) => {
            out.fail("c18.harness/request-line", e);
            return;
        }
    }
    run_scenario(&sc, &move |r: &ReqSpec| wire_by_endpoint(r, rng), out);
}

pub fn property() -> Property {
    Property {
        fuzz: vec![],
        id: "C18",
        rule: "a case is a credential store, a request (method, Request-URI, body) and one or more 401/407 responses with Digest challenges; \
               it counts as non-trivial when at least one produced header was verified by the reference verifier AND the case involves a -sess \
               algorithm, qop=auth-int, userhash, a verified reuse (nc >= 2), non-ASCII credentials, >= 2 answered realms, an answered nonce that \
               was challenged again at least twice in a row and reported as failure each time, a header verified with credentials that replaced \
               the ones the realm was answered with before, a header verified for a request other than the session's first one, or a request \
               target with embedded URI headers; distinct = distinct case value",
        assumptions: vec![
            "realm, nonce, opaque are qdtext (no quoted-pairs); parameter names lower case; algorithm/stale/userhash are tokens; one challenge per header row (RFC 3261 §7.3.1)",
            "user names contain no ':'; extension methods do not start with a well-known method name",
            "the request target is any SipUri value (user:password, uri-parameters, embedded ?headers with non-empty names); the Request-URI the verifier uses is the one ezk puts on the wire (request line printed with UriContext::ReqUri as Endpoint::send_outgoing_request does; on_the_wire reads it from a request a real Endpoint sent and checks both agree)",
            "a challenge is answered with the credentials the CredentialStore gives for the realm when handle_authenticate is called (entry, else default) and for the request named by RequestParts in that call; the application may change both between responses; a header created earlier is verified with the account and request it was created with",
            "all challenges of one realm in one response share the nonce and have distinct algorithms (RFC 8760 §2.4)",
            "an unchanged nonce is the nonce of the latest answer the verifier accepted for the realm; it stays that through any number of repetitions, also when the client stops sending the entry after a reported failure",
            "reuse is verified against the request the header was created for (on_authorize_request gets no request)",
            "the reference verifier (src/refmodel/ref_digest.rs) is checked against the RFC 2617 and RFC 7616 example vectors by unit tests",
        ],
        explanation: "sampled, not exhaustive: algorithm (6 + 2 unknown) x qop-set (8) x userhash (3) x opaque (absent/empty/text) x stale x parameter order are drawn \
                      uniformly so every combination of the finite dimensions occurs many times per run (see classes), strings (realm, nonce, user, password, body, URI) are random; \
                      sequences of up to 4 responses over up to 4 realms with up to 3 challenges per realm and up to 3 uses per round; \
                      failure histories of 3..8 responses over 1..2 realms (fresh nonce / identical challenge again / same nonce with other rows / \
                      fresh nonce without supported challenge; the caller sends the request or gives up after a failure); \
                      credential updates: 2..5 responses over 1..2 realms, before 3 of 4 responses 1..2 store operations (password of the same user replaced / \
                      user replaced / account replaced / entry removed / account of the other realm / default replaced), new nonce with the same rows as \
                      last time in half of the challenges, another request (method / URI / body) before 1 of 5 responses; the two other history subs carry the \
                      same operations at low density; 2 of 5 request targets carry 1..3 embedded URI headers, 1 of 5 targets with a user carry a URI password; \
                      on_the_wire: the first_use_and_reuse cases with the request read back from a real Endpoint's transport",
        subs: vec![
            prop_sub("first_use_and_reuse", first_use_strategy, 2000, 60000, check_first_use),
            prop_sub("challenge_sequences", scenario_strategy, 2000, 60000, check_sequences),
            prop_sub("failure_histories", history_strategy, 1000, 30000, check_sequences),
            prop_sub("credential_updates", update_strategy, 1000, 30000, check_sequences),
            prop_sub("on_the_wire", first_use_strategy, 250, 5000, check_on_the_wire),
        ],
    }
}
