//! C18 — Digest credentials verify under RFC 7616 on first use and every reuse
//!
//! The code under test is driven the way `examples/send_invite.rs` does it:
//!   `UacAuthSession::handle_authenticate(&response.headers, &credential_store, RequestParts{..})`
//!   followed by `UacAuthSession::authorize_request(&mut request.headers)` for every (re)sent request.
//! Challenges are written into the response `Headers` as text by an own printer (RFC 3261 §25
//! `challenge` grammar, one challenge per header row as RFC 3261 §7.3.1 demands), the produced
//! `Authorization` / `Proxy-Authorization` rows are read back as text, split by
//! `ref_digest::split_header` and verified the way the *server that issued the challenge* would:
//! echo of realm / nonce / opaque / algorithm, qop out of the offered set, digest-uri equal to the
//! Request-URI of the request line, username (plain, RFC 5987 `username*`, or userhash) equal to the
//! stored one, and `response` recomputed by `ref_digest` from the STORED credentials.
//!
//! Generator restrictions (soundness; each is a restriction of the generator, not of the oracle):
//!  * realm / nonce / opaque / unknown quoted parameters are `qdtext` (SP, 0x21, 0x23-0x5B, 0x5D-0x7E,
//!    non-ASCII) — no quoted-pairs: neither printer of ezk escapes, and the statement promises nothing
//!    about escaping in auth headers.
//!  * parameter names are lower case, `algorithm`, `stale`, `userhash` are tokens (never quoted — RFC 7616
//!    §3.3 forbids it), qop-options is the RFC 3261 form `qop="a,b"` without inner white space.
//!  * one challenge per header row (RFC 3261 §7.3.1 forbids combining them).
//!  * user names contain no ':' (RFC 7616 §3.4 forbids it); extension methods do not start with the
//!    name of a well-known method (that is C01's finding, not this property's).
//!  * Request-URIs carry no `?headers` (RFC 3261 Table 1 forbids them in a Request-URI); user, host and
//!    parameter shapes are built through the public `SipUri` API.
//!  * in `challenge_sequences` / `failure_histories` all challenges of one realm in one response share the
//!    nonce and carry distinct algorithms (RFC 8760 §2.4 usage), so the answered challenge is identified by
//!    `algorithm` and "same nonce again" is unambiguous.
//!
//! Histories ("a repeated challenge with an unchanged nonce is reported as failed authentication instead of
//! being answered again"): the model keeps TWO things per realm — what the client currently sends (`state`)
//! and what the SERVER remembers, the nonce of the latest answer it verified (`srv_nonce`). A group with
//! `repeat` issues that nonce again, either with the identical challenge rows (`same_rows`) or with other
//! rows (other algorithm / qop / opaque / header kind), for the 1st, 2nd, 3rd .. consecutive time, with or
//! without the client having reused the answer in between, with or without a request being sent after the
//! reported failure (`give_up_on_failure`: a caller that got `Err` for every realm does not call
//! `authorize_request`). Every such response must make `handle_authenticate` return
//! `FailedToAuthenticate` and must not produce new credentials — also when the client stopped sending the
//! entry after the previous failure (the nonce is still the one of its last answer). A fresh nonce after
//! any number of repetitions must be answered and verify. `failure_histories` draws 3..8 responses over
//! 1..2 realms that all have credentials from {fresh supported, identical repetition, repetition with other
//! rows, fresh nonce without supported challenge}; `challenge_sequences` keeps the broad mix (up to 4
//! realms, realms without credentials, unknown algorithms, Basic rows).
//!
//! Not asserted: what a challenge with the OLD nonce means after the client dropped (or, no request having
//! been sent, may have dropped) the entry because a challenge with a NEW nonce could not be answered (the
//! server forgets the old nonce there; while the entry is visibly still sent the old nonce counts as
//! unchanged); which realms the error text names; case of the `nc` digits (text is hashed verbatim, value compared numerically);
//! reuse for a different request (the API gives `on_authorize_request` no request); whether `cnonce`
//! changes between reuses of a non-session algorithm; which of auth / auth-int is picked when both
//! are offered; whether a client without userhash support sends the plain name; whether an entry whose
//! re-challenge could not be answered keeps being sent; the `Err` kind for realms without credentials
//! or without a supported challenge; quoting style of `qop`/`algorithm`/`nc` in the credentials.

use crate::engine::*;
use crate::refmodel::ref_digest::{self as rd, Alg, Credentials};
use proptest::prelude::*;
use serde::{Deserialize, Serialize};
use sip_auth::digest::{DigestAuthenticator, DigestCredentials};
use sip_auth::{CredentialStore, RequestParts, UacAuthSession};
use sip_types::host::{Host, HostPort};
use sip_types::msg::RequestLine;
use sip_types::print::{AppendCtx, PrintCtx};
use sip_types::uri::params::Param;
use sip_types::uri::sip::SipUri;
use sip_types::{Headers, Method, Name};
use std::net::{Ipv4Addr, Ipv6Addr};

// ------------------------------------------------------------------------------------------
// case types
// ------------------------------------------------------------------------------------------

#[derive(Serialize, Deserialize, Debug, Clone, PartialEq, Eq)]
pub struct ChSpec {
    /// 0 MD5, 1 MD5-sess, 2 SHA-256, 3 SHA-256-sess, 4 SHA-512-256, 5 SHA-512-256-sess,
    /// 6 "SHA-512" (unknown), 7 "SHA3-256-sess" (unknown)
    alg: u8,
    /// 0 canonical, 1 lower case, 2 upper case, 3 parameter omitted when alg == 0 (else canonical)
    alg_style: u8,
    /// 0 none, 1 auth, 2 auth-int, 3 auth,auth-int, 4 auth-int,auth, 5 auth,auth-conf,
    /// 6 auth-conf,auth-int, 7 auth-conf only (nothing known)
    qop: u8,
    /// 0 absent, 1 userhash=true, 2 userhash=false
    userhash: u8,
    opaque: Option<String>,
    /// 0 absent, 1 stale=true, 2 stale=false, 3 stale=TRUE
    stale: u8,
    /// 0 none, 1 domain="sip:a.example", 2 x-ext=tok, 3 x-ext="a, b=c"
    extra: u8,
    /// rotation of the parameter list
    rot: u8,
    /// "," instead of ", " between parameters
    tight: bool,
    /// RFC 3261 SWS around "=" and ",": `realm = "x" , nonce = "y"`
    #[serde(default)]
    sws: bool,
}

const ALG_TOKENS: [&str; 8] = [
    "MD5",
    "MD5-sess",
    "SHA-256",
    "SHA-256-sess",
    "SHA-512-256",
    "SHA-512-256-sess",
    "SHA-512",
    "SHA3-256-sess",
];

impl ChSpec {
    fn alg_model(&self) -> Option<Alg> {
        if self.alg < 6 {
            Alg::from_token(Some(ALG_TOKENS[self.alg as usize]))
        } else {
            None
        }
    }
    fn offers_auth(&self) -> bool {
        matches!(self.qop, 1 | 3 | 4 | 5)
    }
    fn offers_auth_int(&self) -> bool {
        matches!(self.qop, 2 | 3 | 4 | 6)
    }
    fn supported(&self, reject_md5: bool) -> bool {
        self.alg < 6 && !(reject_md5 && self.alg < 2) && self.qop != 7
    }
    /// the challenge as header value text (own printer, RFC 3261 §25 grammar)
    fn print(&self, realm: &str, nonce: &str) -> String {
        let mut p: Vec<String> = vec![format!("realm=\"{realm}\""), format!("nonce=\"{nonce}\"")];
        if let Some(o) = &self.opaque {
            p.push(format!("opaque=\"{o}\""));
        }
        match self.stale {
            1 => p.push("stale=true".into()),
            2 => p.push("stale=false".into()),
            3 => p.push("stale=TRUE".into()),
            _ => {}
        }
        let tok = ALG_TOKENS[(self.alg & 7) as usize];
        match (self.alg, self.alg_style) {
            (0, 3) => {}
            (_, 1) => p.push(format!("algorithm={}", tok.to_ascii_lowercase())),
            (_, 2) => p.push(format!("algorithm={}", tok.to_ascii_uppercase())),
            _ => p.push(format!("algorithm={tok}")),
        }
        match self.qop {
            1 => p.push("qop=\"auth\"".into()),
            2 => p.push("qop=\"auth-int\"".into()),
            3 => p.push("qop=\"auth,auth-int\"".into()),
            4 => p.push("qop=\"auth-int,auth\"".into()),
            5 => p.push("qop=\"auth,auth-conf\"".into()),
            6 => p.push("qop=\"auth-conf,auth-int\"".into()),
            7 => p.push("qop=\"auth-conf\"".into()),
            _ => {}
        }
        match self.userhash {
            1 => p.push("userhash=true".into()),
            2 => p.push("userhash=false".into()),
            _ => {}
        }
        match self.extra {
            1 => p.push("domain=\"sip:a.example\"".into()),
            2 => p.push("x-ext=tok".into()),
            3 => p.push("x-ext=\"a, b=c\"".into()),
            _ => {}
        }
        let r = (self.rot as usize) % p.len();
        p.rotate_left(r);
        if self.sws {
            // EQUAL = SWS "=" SWS, COMMA = SWS "," SWS (the first '=' of a parameter is its EQUAL)
            for x in p.iter_mut() {
                *x = x.replacen('=', " = ", 1);
            }
            return format!("Digest {}", p.join(" , "));
        }
        format!("Digest {}", p.join(if self.tight { "," } else { ", " }))
    }
}

#[derive(Serialize, Deserialize, Debug, Clone, PartialEq, Eq)]
pub enum HostSpec {
    Name(String),
    V4([u8; 4]),
    V6([u16; 8]),
}

#[derive(Serialize, Deserialize, Debug, Clone, PartialEq, Eq)]
pub struct UriSpec {
    sips: bool,
    user: Option<String>,
    host: HostSpec,
    port: Option<u16>,
    params: Vec<(String, Option<String>)>,
}

#[derive(Serialize, Deserialize, Debug, Clone, PartialEq, Eq)]
pub struct ReqSpec {
    method: String,
    uri: UriSpec,
    body: Vec<u8>,
}

#[derive(Serialize, Deserialize, Debug, Clone, PartialEq, Eq)]
pub struct Cred {
    user: String,
    password: String,
}

/// flat case of `first_use_and_reuse`
#[derive(Serialize, Deserialize, Debug, Clone)]
pub struct FirstUse {
    ch: ChSpec,
    realm: String,
    nonce: String,
    proxy: bool,
    cred: Cred,
    /// credentials are stored as the default entry (true) or under the realm (false)
    by_default: bool,
    /// a second, different credential: the default entry when the real one is stored under the realm,
    /// an entry of an unrelated realm when the real one is the default
    decoy: Option<Cred>,
    req: ReqSpec,
    /// number of reuses after the first use
    reuses: u8,
    enforce_qop: bool,
    reject_md5: bool,
}

#[derive(Serialize, Deserialize, Debug, Clone)]
pub struct RowS {
    proxy: bool,
    ch: ChSpec,
}

#[derive(Serialize, Deserialize, Debug, Clone)]
pub struct GroupS {
    /// index into `Scenario::realms`
    realm: usize,
    /// challenge again with the nonce of the answer the client already gave for this realm (if any)
    repeat: bool,
    /// nonce used when not repeating
    nonce: String,
    rows: Vec<RowS>,
    /// when repeating: issue exactly the rows this realm was challenged with last time (the server sends
    /// the identical challenge again) instead of `rows` (same nonce, other algorithm / qop / opaque / kind)
    #[serde(default)]
    same_rows: bool,
}

#[derive(Serialize, Deserialize, Debug, Clone)]
pub struct RoundS {
    groups: Vec<GroupS>,
    /// a `Basic realm=".."` row as noise in the response
    basic_noise: bool,
    /// number of `authorize_request` calls after this response (>= 1)
    uses: u8,
    /// the caller gives up when `handle_authenticate` could answer nothing: no `authorize_request` call
    /// after a response none of whose realms is expected to be answered
    #[serde(default)]
    give_up_on_failure: bool,
}

/// case of `challenge_sequences` (and the internal form of `first_use_and_reuse`)
#[derive(Serialize, Deserialize, Debug, Clone)]
pub struct Scenario {
    realms: Vec<String>,
    entries: Vec<Option<Cred>>,
    default: Option<Cred>,
    /// entries for realms that are never challenged
    unrelated: Vec<(String, Cred)>,
    enforce_qop: bool,
    reject_md5: bool,
    req: ReqSpec,
    rounds: Vec<RoundS>,
}

// ------------------------------------------------------------------------------------------
// strategies
// ------------------------------------------------------------------------------------------

/// qdtext: SP / 0x21 / 0x23-0x5B / 0x5D-0x7E / UTF8-NONASCII
fn qdtext(allow_empty: bool) -> BoxedStrategy<String> {
    let non_empty = prop_oneof![
        4 => "[a-zA-Z0-9.@_-]{1,12}",
        3 => "[ !#-\\[\\]-~]{1,12}",
        3 => "[ !#-\\[\\]-~äöüßéñ日本語ключ😀]{1,10}",
    ];
    if allow_empty {
        prop_oneof![10 => non_empty, 1 => Just(String::new())].boxed()
    } else {
        non_empty.boxed()
    }
}

fn nonce_strategy(allow_empty: bool) -> BoxedStrategy<String> {
    prop_oneof![
        5 => "[a-zA-Z0-9+/=]{1,32}",
        2 => qdtext(allow_empty),
    ]
    .boxed()
}

fn chspec(supported_only: bool) -> BoxedStrategy<ChSpec> {
    let alg_max = if supported_only { 6u8 } else { 8u8 };
    let qop_max = if supported_only { 7u8 } else { 8u8 };
    (
        0..alg_max,
        0..4u8,
        0..qop_max,
        0..3u8,
        prop_oneof![3 => Just(None), 2 => Just(Some(String::new())), 4 => qdtext(false).prop_map(Some)],
        prop_oneof![4 => Just(0u8), 2 => Just(1u8), 1 => Just(2u8), 1 => Just(3u8)],
        prop_oneof![5 => Just(0u8), 1 => Just(1u8), 1 => Just(2u8), 1 => Just(3u8)],
        any::<u8>(),
        (any::<bool>(), prop::bool::weighted(0.15)),
    )
        .prop_map(|(alg, alg_style, qop, userhash, opaque, stale, extra, rot, (tight, sws))| ChSpec {
            alg,
            alg_style,
            qop,
            userhash,
            opaque,
            stale,
            extra,
            rot,
            tight,
            sws,
        })
        .boxed()
}

fn user_strategy() -> BoxedStrategy<String> {
    prop_oneof![
        // attr-chars only: goes out as username="..."
        4 => "[a-zA-Z0-9!#$&+.^_`|~-]{1,10}",
        // printable ASCII without ':' (space, quote, backslash, percent, ...)
        2 => "[ -9;-~]{0,10}",
        3 => "[a-zäöüß日本😀 \"%\\\\]{1,8}",
        // any Unicode scalar value except ':' (controls included)
        1 => "[^:]{0,8}",
    ]
    .boxed()
}

fn password_strategy() -> BoxedStrategy<String> {
    prop_oneof![
        4 => "[ -~]{0,16}",
        3 => "\\PC{0,10}",
        1 => "(?s).{0,12}",
    ]
    .boxed()
}

fn cred_strategy() -> BoxedStrategy<Cred> {
    (user_strategy(), password_strategy())
        .prop_map(|(user, password)| Cred { user, password })
        .boxed()
}

const KNOWN_METHODS: [&str; 14] = [
    "INVITE", "ACK", "CANCEL", "BYE", "REGISTER", "MESSAGE", "UPDATE", "PRACK", "OPTIONS", "SUBSCRIBE", "NOTIFY",
    "PUBLISH", "INFO", "REFER",
];

fn method_strategy() -> BoxedStrategy<String> {
    prop_oneof![
        6 => any::<u16>().prop_map(|s| KNOWN_METHODS[pick_idx(s, KNOWN_METHODS.len())].to_string()),
        // extension methods: first letter is not the first letter of any well-known method
        2 => "[DEFGHJKLQTVWXYZ][A-Z]{1,7}",
        1 => "[DEFGHJKLQTVWXYZdefghjklqtvwxyz][A-Za-z0-9.!%*_+`'~-]{0,8}",
    ]
    .boxed()
}

fn uri_strategy() -> BoxedStrategy<UriSpec> {
    let user = prop_oneof![
        3 => Just(None),
        3 => "[a-z0-9]{1,8}".prop_map(Some),
        2 => "[a-zA-Z0-9+._~*'()&=$,;?/!-]{1,10}".prop_map(Some),
        2 => "[a-z @\"<>äö日%]{1,8}".prop_map(Some),
    ];
    let host = prop_oneof![
        4 => "[a-z][a-z0-9]{0,7}(\\.[a-z][a-z0-9]{1,5}){0,2}".prop_map(HostSpec::Name),
        2 => any::<[u8; 4]>().prop_map(HostSpec::V4),
        1 => any::<[u16; 8]>().prop_map(HostSpec::V6),
    ];
    let pname = prop_oneof![
        Just("transport".to_string()),
        Just("lr".to_string()),
        Just("user".to_string()),
        Just("maddr".to_string()),
        Just("ttl".to_string()),
        Just("method".to_string()),
        "x-[a-z]{1,5}",
    ];
    let param = (pname, prop::option::of("[a-zA-Z0-9.-]{1,8}"));
    (
        prop::bool::weighted(0.25),
        user,
        host,
        prop::option::of(1u16..),
        prop::collection::vec(param, 0..3),
    )
        .prop_map(|(sips, user, host, port, params)| UriSpec { sips, user, host, port, params })
        .boxed()
}

fn body_strategy() -> BoxedStrategy<Vec<u8>> {
    prop_oneof![
        3 => Just(vec![]),
        3 => prop::collection::vec(any::<u8>(), 1..64),
        2 => "v=0\r\no=- [0-9]{1,9} 1 IN IP4 [a-z]{1,8}\\.example\r\ns=-\r\n[ -~äö\r\n]{0,200}".prop_map(|s| s.into_bytes()),
        1 => prop::collection::vec(any::<u8>(), 64..1024),
    ]
    .boxed()
}

fn req_strategy() -> BoxedStrategy<ReqSpec> {
    (method_strategy(), uri_strategy(), body_strategy())
        .prop_map(|(method, uri, body)| ReqSpec { method, uri, body })
        .boxed()
}

fn first_use_strategy() -> BoxedStrategy<FirstUse> {
    (
        chspec(true),
        qdtext(true),
        nonce_strategy(true),
        any::<bool>(),
        cred_strategy(),
        any::<bool>(),
        prop::option::weighted(0.6, cred_strategy()),
        req_strategy(),
        1..=5u8,
        (prop::bool::weighted(0.25), prop::bool::weighted(0.25)),
    )
        .prop_map(
            |(ch, realm, nonce, proxy, cred, by_default, decoy, req, reuses, (enforce_qop, reject))| {
                // reject_md5 only where the challenge stays supported (this sub is about answered challenges)
                let reject_md5 = reject && ch.alg >= 2;
                // a decoy equal to the real credentials would be no decoy
                let decoy = decoy.filter(|d| *d != cred);
                FirstUse {
                    ch,
                    realm,
                    nonce,
                    proxy,
                    cred,
                    by_default,
                    decoy,
                    req,
                    reuses,
                    enforce_qop,
                    reject_md5,
                }
            },
        )
        .boxed()
}

#[derive(Debug, Clone)]
struct GroupGen {
    realm_sel: u16,
    repeat: bool,
    nonce: String,
    proxy: bool,
    mixed: bool,
    rows: Vec<(bool, ChSpec)>,
    same_rows: bool,
}

fn group_gen() -> BoxedStrategy<GroupGen> {
    (
        any::<u16>(),
        prop::bool::weighted(0.4),
        nonce_strategy(false),
        any::<bool>(),
        prop::bool::weighted(0.12),
        prop::collection::vec((any::<bool>(), chspec(false)), 1..=3),
        any::<bool>(),
    )
        .prop_map(|(realm_sel, repeat, nonce, proxy, mixed, rows, same_rows)| GroupGen {
            realm_sel,
            repeat,
            nonce,
            proxy,
            mixed,
            rows,
            same_rows,
        })
        .boxed()
}

/// one event of a `failure_histories` round: what the server does to one realm
///  0 fresh nonce, supported challenges      1 the identical challenge again (unchanged nonce)
///  2 unchanged nonce, other challenge rows   3 fresh nonce, no supported challenge
fn history_group_gen() -> BoxedStrategy<GroupGen> {
    (
        any::<u16>(),
        prop_oneof![3 => Just(0u8), 3 => Just(1u8), 2 => Just(2u8), 1 => Just(3u8)],
        nonce_strategy(false),
        any::<bool>(),
        prop::bool::weighted(0.12),
        prop::collection::vec((any::<bool>(), chspec(true)), 1..=2),
    )
        .prop_map(|(realm_sel, ev, nonce, proxy, mixed, mut rows)| {
            if ev == 3 {
                // unknown algorithm, or only an unknown qop token
                for (i, (flip, ch)) in rows.iter_mut().enumerate() {
                    if *flip || i > 0 {
                        ch.alg = 6 + (ch.alg & 1);
                    } else {
                        ch.qop = 7;
                    }
                }
            }
            GroupGen { realm_sel, repeat: ev == 1 || ev == 2, nonce, proxy, mixed, rows, same_rows: ev == 1 }
        })
        .boxed()
}

type RoundGen = (Vec<GroupGen>, bool, u8, bool);

#[allow(clippy::too_many_arguments)]
fn assemble(
    realms_in: Vec<String>,
    entries_in: Vec<Option<Cred>>,
    default: Option<Cred>,
    unrelated: Option<Cred>,
    enforce_qop: bool,
    reject_md5: bool,
    req: ReqSpec,
    rounds_in: Vec<RoundGen>,
) -> Scenario {
    // distinct realms by construction
    let mut realms: Vec<String> = vec![];
    for (i, r) in realms_in.into_iter().enumerate() {
        if realms.contains(&r) {
            realms.push(format!("{r}#{i}"));
        } else {
            realms.push(r);
        }
    }
    let entries: Vec<Option<Cred>> = entries_in.into_iter().take(realms.len()).collect();
    let unrelated = unrelated
        .into_iter()
        .map(|c| {
            let mut name = String::from("unrelated.example");
            while realms.contains(&name) {
                name.push('x');
            }
            (name, c)
        })
        .collect();
    let mut rounds = vec![];
    for (ri, (groups_in, basic_noise, uses, give_up_on_failure)) in rounds_in.into_iter().enumerate() {
        let mut groups: Vec<GroupS> = vec![];
        for g in groups_in {
            let realm = pick_idx(g.realm_sel, realms.len());
            if groups.iter().any(|x| x.realm == realm) {
                continue; // a realm is challenged by one group per response
            }
            // distinct algorithms inside the group
            let mut rows: Vec<RowS> = vec![];
            for (flip, mut ch) in g.rows {
                // (a second unknown algorithm stays unknown while there is room: 6 <-> 7)
                if ch.alg >= 6 && rows.iter().any(|r| r.ch.alg == ch.alg) {
                    ch.alg = 13 - ch.alg;
                }
                while rows.iter().any(|r| r.ch.alg == ch.alg) {
                    ch.alg = (ch.alg + 1) % 8;
                }
                rows.push(RowS { proxy: g.proxy ^ (g.mixed && flip), ch });
            }
            // a fresh nonce ends in the round number: differs from every nonce of another round
            groups.push(GroupS {
                realm,
                repeat: g.repeat,
                nonce: format!("{}{}", g.nonce, ri),
                rows,
                same_rows: g.same_rows,
            });
        }
        rounds.push(RoundS { groups, basic_noise, uses, give_up_on_failure });
    }
    Scenario { realms, entries, default, unrelated, enforce_qop, reject_md5, req, rounds }
}

fn scenario_strategy() -> BoxedStrategy<Scenario> {
    let round = (
        prop::collection::vec(group_gen(), 1..=3),
        prop::bool::weighted(0.15),
        1..=3u8,
        prop::bool::weighted(0.25),
    );
    (
        prop::collection::vec(qdtext(false), 1..=4),
        prop::collection::vec(prop::option::weighted(0.8, cred_strategy()), 4),
        prop::option::weighted(0.5, cred_strategy()),
        prop::option::weighted(0.3, cred_strategy()),
        (prop::bool::weighted(0.25), prop::bool::weighted(0.25)),
        req_strategy(),
        prop::collection::vec(round, 1..=4),
    )
        .prop_map(|(realms_in, entries_in, default, unrelated, (enforce_qop, reject_md5), req, rounds_in)| {
            assemble(realms_in, entries_in, default, unrelated, enforce_qop, reject_md5, req, rounds_in)
        })
        .boxed()
}

/// long histories over few realms: what the session does AFTER a failure it has reported
/// (the same nonce a 2nd, 3rd, .. time; a fresh nonce after n repetitions; an unanswerable challenge in between)
fn history_strategy() -> BoxedStrategy<Scenario> {
    let round = (
        prop::collection::vec(history_group_gen(), 1..=2),
        prop::bool::weighted(0.1),
        1..=2u8,
        prop::bool::weighted(0.4),
    );
    (
        prop::collection::vec(qdtext(false), 1..=2),
        // every realm can be answered: by its own entry or by the default
        (cred_strategy(), prop::collection::vec(prop::option::weighted(0.7, cred_strategy()), 2), any::<bool>()),
        (prop::bool::weighted(0.25), prop::bool::weighted(0.2)),
        req_strategy(),
        prop::collection::vec(round, 3..=8),
    )
        .prop_map(|(realms_in, (default, entries_in, keep_default), (enforce_qop, reject_md5), req, rounds_in)| {
            let all_entries = entries_in.iter().take(realms_in.len()).all(|e| e.is_some());
            let default = if all_entries && !keep_default { None } else { Some(default) };
            assemble(realms_in, entries_in, default, None, enforce_qop, reject_md5, req, rounds_in)
        })
        .boxed()
}

// ------------------------------------------------------------------------------------------
// the verifier (server side model)
// ------------------------------------------------------------------------------------------

struct Wire {
    method: String,
    uri: String,
    body: Vec<u8>,
}

/// what the verifying server keeps after accepting credentials for a realm
struct Accepted {
    nonce: String,
    fields: Credentials,
    alg: Alg,
    /// H(A1): fixed for plain algorithms, the session key for -sess ones
    ha1: String,
    qop: Option<String>,
    cnonce: Option<String>,
    nc: Option<u32>,
    proxy: bool,
    uses: u32,
}

fn alg_class(a: Alg) -> &'static str {
    if a.sess {
        "sess"
    } else {
        "plain"
    }
}

fn qop_class(q: Option<&str>) -> &'static str {
    match q {
        None => "none",
        Some("auth") => "auth",
        Some("auth-int") => "auth-int",
        Some(_) => "other",
    }
}

const SINGLE: [&str; 12] = [
    "username", "username*", "realm", "nonce", "uri", "response", "algorithm", "opaque", "qop", "cnonce", "nc",
    "userhash",
];

fn structural(c: &Credentials, out: &mut CaseOut) -> bool {
    let mut ok = true;
    if !c.scheme.eq_ignore_ascii_case("Digest") {
        out.fail("c18.split/scheme", format!("credentials scheme is {:?}", c.scheme));
        ok = false;
    }
    for n in SINGLE {
        if c.all(n).len() > 1 {
            out.fail(format!("c18.fields/duplicate:{n}"), format!("parameter {n} occurs {} times", c.all(n).len()));
            ok = false;
        }
    }
    for n in ["realm", "nonce", "uri", "response"] {
        if c.get(n).is_none() {
            out.fail(format!("c18.fields/missing:{n}"), format!("credentials lack {n}: {c:?}"));
            ok = false;
        }
    }
    ok
}

/// nc-value = 8LHEX (case of the digits is not asserted)
fn parse_nc(text: &str, out: &mut CaseOut) -> Option<u32> {
    if text.len() != 8 || !text.chars().all(|c| c.is_ascii_hexdigit()) {
        out.fail("c18.nc/format", format!("nc {text:?} is not 8 hex digits"));
        return None;
    }
    u32::from_str_radix(text, 16).ok()
}

fn check_username(c: &Credentials, alg: Alg, realm: &str, cred: &Cred, offered_userhash: bool, out: &mut CaseOut) {
    let uh = c.get("userhash").map_or(false, |v| v.eq_ignore_ascii_case("true"));
    if uh && !offered_userhash {
        out.fail("c18.echo/userhash-not-offered", "userhash=true although the challenge did not offer userhash");
    }
    match (c.get("username"), c.get("username*")) {
        (Some(_), Some(_)) => out.fail("c18.username/both", "username and username* both present"),
        (None, None) => out.fail("c18.fields/missing:username", "neither username nor username*"),
        (Some(u), None) => {
            if uh {
                let want = rd::userhash(alg.hash, &cred.user, realm);
                if u != want {
                    out.fail(
                        "c18.username/userhash-wrong",
                        format!("userhash=true: username {u:?}, expected H(user:realm) = {want:?}"),
                    );
                }
            } else if u != cred.user {
                out.fail("c18.username/wrong", format!("username {u:?}, stored user {:?}", cred.user));
            }
        }
        (None, Some(ext)) => {
            if uh {
                out.fail("c18.username/ext-with-userhash", "username* together with userhash=true");
            }
            match rd::decode_ext_value(ext) {
                Ok(u) => {
                    if u != cred.user {
                        out.fail("c18.username/wrong", format!("username* decodes to {u:?}, stored user {:?}", cred.user));
                    }
                }
                Err(e) => out.fail("c18.username/ext-value-malformed", format!("username*={ext:?}: {e}")),
            }
        }
    }
}

/// recompute `response` for credentials `c`; `ha1` given for reuse (session key kept by the server)
fn expected_response(
    c: &Credentials,
    alg: Alg,
    ha1: &str,
    wire: &Wire,
    qop: Option<&str>,
) -> Result<String, (String, String)> {
    let nonce = c.get("nonce").unwrap_or("");
    let uri = c.get("uri").unwrap_or("");
    let ha2 = rd::ha2(alg.hash, qop, &wire.method, uri, &wire.body).map_err(|e| ("c18.echo/qop-unknown".to_string(), e))?;
    let q = match qop {
        Some(q) => {
            let nc = c.get("nc").ok_or(("c18.fields/missing:nc".to_string(), "qop without nc".to_string()))?;
            let cn = c
                .get("cnonce")
                .ok_or(("c18.fields/missing:cnonce".to_string(), "qop without cnonce".to_string()))?;
            Some((q, nc, cn))
        }
        None => None,
    };
    Ok(rd::response(alg.hash, ha1, nonce, q, &ha2))
}

fn compute_ha1(c: &Credentials, alg: Alg, realm: &str, cred: &Cred) -> Result<String, (String, String)> {
    if alg.sess {
        let cn = c.get("cnonce").ok_or((
            "c18.response/sess-without-cnonce".to_string(),
            "a -sess algorithm needs the cnonce for A1 but the credentials carry none: no server can verify them".to_string(),
        ))?;
        Ok(rd::session_ha1(alg.hash, &cred.user, realm, &cred.password, c.get("nonce").unwrap_or(""), cn))
    } else {
        Ok(rd::ha1_base(alg.hash, &cred.user, realm, &cred.password))
    }
}

struct Ctx<'a> {
    sc: &'a Scenario,
    wire: &'a Wire,
    flags: Flags,
}

#[derive(Default)]
struct Flags {
    sess: bool,
    auth_int: bool,
    userhash: bool,
    reuse: bool,
    non_ascii_cred: bool,
    /// a second or later consecutive repetition of the answered nonce was reported as failure
    repeat_again: bool,
}

/// first use of credentials answering `group` (issued with `nonce`)
#[allow(clippy::too_many_arguments)]
fn verify_first(
    cx: &mut Ctx,
    c: &Credentials,
    row_is_proxy: bool,
    group: &GroupS,
    nonce: &str,
    cred: &Cred,
    prev: Option<&Accepted>,
    out: &mut CaseOut,
) -> Option<Accepted> {
    let sc = cx.sc;
    let realm = sc.realms[group.realm].as_str();
    if !structural(c, out) {
        return None;
    }
    let got_nonce = c.get("nonce").unwrap();
    if got_nonce != nonce {
        if prev.map_or(false, |p| p.nonce == got_nonce) {
            out.fail(
                "c18.answer/not-renewed",
                format!("challenge with new nonce {nonce:?} was not answered, credentials still carry {got_nonce:?}"),
            );
        } else {
            out.fail("c18.echo/nonce", format!("nonce {got_nonce:?}, challenge had {nonce:?}"));
        }
        return None;
    }
    // which challenge was answered: by algorithm (distinct inside a group)
    let Some(alg) = Alg::from_token(c.get("algorithm")) else {
        out.fail("c18.echo/algorithm-unknown", format!("algorithm {:?}", c.get("algorithm")));
        return None;
    };
    let Some(row) = group.rows.iter().find(|r| r.ch.alg_model() == Some(alg)) else {
        out.fail(
            "c18.echo/algorithm-not-offered",
            format!(
                "credentials use algorithm {:?}, offered: {:?}",
                c.get("algorithm"),
                group.rows.iter().map(|r| ALG_TOKENS[r.ch.alg as usize]).collect::<Vec<_>>()
            ),
        );
        return None;
    };
    let ch = &row.ch;
    // first supported challenge of the realm (per header kind, see module doc)
    let first_www = group.rows.iter().find(|r| !r.proxy && r.ch.supported(sc.reject_md5));
    let first_proxy = group.rows.iter().find(|r| r.proxy && r.ch.supported(sc.reject_md5));
    let is_first = [first_www, first_proxy].iter().flatten().any(|r| r.ch.alg == ch.alg);
    if !is_first {
        let what = if ch.supported(sc.reject_md5) { "not the first supported one" } else { "not a supported one" };
        out.fail(
            "c18.select/not-first-supported",
            format!("answered the {} challenge, which is {what} of the realm", ALG_TOKENS[ch.alg as usize]),
        );
    }
    if row.proxy != row_is_proxy {
        out.fail(
            if row.proxy { "c18.kind/proxy-challenge-answered-in-authorization" } else { "c18.kind/www-challenge-answered-in-proxy-authorization" },
            format!("challenge came in {} but the answer is in {}",
                if row.proxy { "Proxy-Authenticate" } else { "WWW-Authenticate" },
                if row_is_proxy { "Proxy-Authorization" } else { "Authorization" }),
        );
    }
    // opaque echo
    let got_opaque = c.get("opaque");
    let opaque_ok = match ch.opaque.as_deref() {
        None => got_opaque.is_none(),
        Some("") => got_opaque.map_or(true, |o| o.is_empty()),
        Some(o) => got_opaque == Some(o),
    };
    if !opaque_ok {
        out.fail("c18.echo/opaque", format!("opaque {:?}, challenge had {:?}", got_opaque, ch.opaque));
    }
    // qop
    let qop = c.get("qop");
    match qop {
        None => {
            if ch.offers_auth() || ch.offers_auth_int() {
                out.fail("c18.echo/qop-missing", "challenge offered qop but the credentials carry none");
            }
        }
        Some("auth") => {
            if !(ch.offers_auth() || (ch.qop == 0 && sc.enforce_qop)) {
                out.fail(
                    if ch.qop == 0 { "c18.echo/qop-unsolicited" } else { "c18.echo/qop-not-offered" },
                    "qop=auth was not offered",
                );
            }
        }
        Some("auth-int") => {
            if !ch.offers_auth_int() {
                out.fail(
                    if ch.qop == 0 { "c18.echo/qop-unsolicited" } else { "c18.echo/qop-not-offered" },
                    "qop=auth-int was not offered",
                );
            }
        }
        Some(o) => {
            out.fail("c18.echo/qop-unknown", format!("qop {o:?}"));
            return None;
        }
    }
    let mut nc = None;
    if qop.is_some() {
        match c.get("nc") {
            None => out.fail("c18.fields/missing:nc", "qop without nc"),
            Some(t) => {
                nc = parse_nc(t, out);
                if let Some(v) = nc {
                    if v != 1 {
                        out.fail("c18.nc/first-not-1", format!("first use of a nonce has nc={t}"));
                    }
                }
            }
        }
        if c.get("cnonce").map_or(true, |x| x.is_empty()) {
            out.fail("c18.fields/missing:cnonce", "qop without (non-empty) cnonce");
        }
    }
    check_username(c, alg, realm, cred, ch.userhash == 1, out);
    if c.get("uri").unwrap() != cx.wire.uri {
        out.fail(
            "c18.uri/differs-from-request-line",
            format!("digest-uri {:?}, Request-URI on the wire {:?}", c.get("uri").unwrap(), cx.wire.uri),
        );
    }
    // response
    let sig = format!("c18.response/{}:{}:first", alg_class(alg), qop_class(qop));
    let ha1 = match compute_ha1(c, alg, realm, cred) {
        Ok(h) => h,
        Err((s, m)) => {
            out.fail(s, m);
            return None;
        }
    };
    let want = match expected_response(c, alg, &ha1, cx.wire, qop) {
        Ok(w) => w,
        Err((s, m)) => {
            out.fail(s, m);
            return None;
        }
    };
    let got = c.get("response").unwrap();
    if got != want {
        // would it verify for another account of the store?
        let mut others: Vec<&Cred> = sc.entries.iter().flatten().collect();
        others.extend(sc.default.iter());
        others.extend(sc.unrelated.iter().map(|u| &u.1));
        let other_ok = others.iter().any(|o| {
            *o != cred
                && compute_ha1(c, alg, realm, o)
                    .ok()
                    .and_then(|h| expected_response(c, alg, &h, cx.wire, qop).ok())
                    .map_or(false, |w| w == got)
        });
        if other_ok {
            out.fail(
                "c18.creds/wrong-entry",
                format!("response verifies with another entry of the store, not with the one for realm {realm:?}"),
            );
        } else {
            out.fail(
                sig,
                format!(
                    "response {got:?} != expected {want:?} (algorithm {:?}, qop {:?}, nc {:?}, cnonce {:?})",
                    c.get("algorithm"),
                    qop,
                    c.get("nc"),
                    c.get("cnonce")
                ),
            );
        }
        return None;
    }
    cx.flags.sess |= alg.sess;
    cx.flags.auth_int |= qop == Some("auth-int");
    cx.flags.userhash |= c.get("userhash").map_or(false, |v| v.eq_ignore_ascii_case("true"));
    cx.flags.non_ascii_cred |= !cred.user.is_ascii() || !cred.password.is_ascii();
    class_first(out, alg, qop, c, ch, row_is_proxy);
    Some(Accepted {
        nonce: nonce.to_string(),
        fields: c.clone(),
        alg,
        ha1,
        qop: qop.map(|s| s.to_string()),
        cnonce: c.get("cnonce").map(|s| s.to_string()),
        nc,
        proxy: row_is_proxy,
        uses: 1,
    })
}

fn class_first(out: &mut CaseOut, alg: Alg, qop: Option<&str>, c: &Credentials, ch: &ChSpec, proxy: bool) {
    out.class(match (alg.hash, alg.sess) {
        (rd::HashKind::Md5, false) => "verified:MD5",
        (rd::HashKind::Md5, true) => "verified:MD5-sess",
        (rd::HashKind::Sha256, false) => "verified:SHA-256",
        (rd::HashKind::Sha256, true) => "verified:SHA-256-sess",
        (rd::HashKind::Sha512_256, false) => "verified:SHA-512-256",
        (rd::HashKind::Sha512_256, true) => "verified:SHA-512-256-sess",
    });
    out.class(match qop {
        None => "verified:qop-none",
        Some("auth") => "verified:qop-auth",
        _ => "verified:qop-auth-int",
    });
    if alg.sess && qop.is_none() {
        out.class("verified:sess-without-qop");
    }
    if c.get("username*").is_some() {
        out.class("verified:username*");
    }
    if c.get("userhash").map_or(false, |v| v.eq_ignore_ascii_case("true")) {
        out.class("verified:userhash");
    }
    out.class(match ch.opaque.as_deref() {
        None => "opaque:absent",
        Some("") => "opaque:empty",
        Some(_) => "opaque:present",
    });
    out.class(if proxy { "verified:Proxy-Authorization" } else { "verified:Authorization" });
    if ch.stale == 1 || ch.stale == 3 {
        out.class("challenge:stale=true");
    }
    if ch.sws {
        out.class("challenge:sws-around-equal-and-comma");
    }
    if ch.rot % 8 != 0 {
        out.class("challenge:parameters-rotated");
    }
}

/// a later use of already accepted credentials
fn verify_reuse(cx: &mut Ctx, acc: &mut Accepted, c: &Credentials, row_is_proxy: bool, out: &mut CaseOut) {
    if !structural(c, out) {
        return;
    }
    if row_is_proxy != acc.proxy {
        out.fail("c18.reuse/header-kind-changed", "credentials moved between Authorization and Proxy-Authorization");
    }
    // answered again instead of reused?
    if let (Some(old), Some(new), Some(nc)) = (acc.cnonce.as_deref(), c.get("cnonce"), c.get("nc")) {
        if acc.qop.is_some() && old != new && u32::from_str_radix(nc, 16) == Ok(1) && c.get("nonce") == Some(acc.nonce.as_str()) {
            out.fail(
                "c18.seq/answered-again",
                "a challenge with the unchanged nonce was answered again (new cnonce, nc restarted at 1)",
            );
            return;
        }
    }
    for n in ["username", "username*", "realm", "nonce", "uri", "algorithm", "opaque", "qop", "userhash"] {
        let a: Vec<&str> = acc.fields.all(n).iter().map(|f| f.value.as_str()).collect();
        let b: Vec<&str> = c.all(n).iter().map(|f| f.value.as_str()).collect();
        if a != b {
            out.fail(format!("c18.reuse/field-changed:{n}"), format!("{n}: first use {a:?}, reuse {b:?}"));
            return;
        }
    }
    let qop = acc.qop.clone();
    if qop.is_some() {
        match c.get("nc") {
            None => out.fail("c18.fields/missing:nc", "qop without nc"),
            Some(t) => {
                if let Some(v) = parse_nc(t, out) {
                    if let Some(prev) = acc.nc {
                        if v != prev.wrapping_add(1) {
                            out.fail(
                                "c18.nc/not-incremented",
                                format!("nc went from {prev:08x} to {t} on use number {}", acc.uses + 1),
                            );
                        }
                    }
                    acc.nc = Some(v);
                }
            }
        }
    }
    acc.uses += 1;
    let sig = format!("c18.response/{}:{}:reuse", alg_class(acc.alg), qop_class(qop.as_deref()));
    match expected_response(c, acc.alg, &acc.ha1, cx.wire, qop.as_deref()) {
        Ok(want) => {
            let got = c.get("response").unwrap();
            if got != want {
                out.fail(
                    sig,
                    format!(
                        "use number {}: response {got:?} != expected {want:?} (algorithm {:?}, qop {:?}, nc {:?})",
                        acc.uses,
                        c.get("algorithm"),
                        qop,
                        c.get("nc")
                    ),
                );
            } else {
                cx.flags.reuse |= true;
                out.class(match acc.uses {
                    2 => "reuse:2nd-use-verified",
                    3 => "reuse:3rd-use-verified",
                    _ => "reuse:4th+-use-verified",
                });
                if qop.is_some() {
                    out.class("reuse:with-nc");
                }
            }
        }
        Err((s, m)) => out.fail(s, m),
    }
}

// ------------------------------------------------------------------------------------------
// driving ezk
// ------------------------------------------------------------------------------------------

fn build_uri(u: &UriSpec) -> SipUri {
    let host = match &u.host {
        HostSpec::Name(n) => Host::Name(n.as_str().into()),
        HostSpec::V4(a) => Host::IP4(Ipv4Addr::new(a[0], a[1], a[2], a[3])),
        HostSpec::V6(a) => Host::IP6(Ipv6Addr::new(a[0], a[1], a[2], a[3], a[4], a[5], a[6], a[7])),
    };
    let mut uri = SipUri::new(HostPort { host, port: u.port }).sips(u.sips);
    if let Some(user) = &u.user {
        uri = uri.user(user.as_str().into());
    }
    for (n, v) in &u.params {
        match v {
            Some(v) => uri.uri_params.push(Param::value(n.as_str(), v.as_str())),
            None => uri.uri_params.push(Param::name(n.as_str())),
        }
    }
    uri
}

fn auth_rows(h: &Headers) -> Vec<(bool, String)> {
    h.iter()
        .filter_map(|(n, v)| {
            if *n == Name::AUTHORIZATION {
                Some((false, v.to_string()))
            } else if *n == Name::PROXY_AUTHORIZATION {
                Some((true, v.to_string()))
            } else {
                None
            }
        })
        .collect()
}

#[derive(PartialEq, Eq, Clone, Copy, Debug)]
enum Outcome {
    Answer,
    NoCreds,
    Repeat,
    Unsupported,
}

fn run_scenario(sc: &Scenario, out: &mut CaseOut) {
    // --- the client side, as a caller sets it up
    let mut store = CredentialStore::new();
    for (realm, e) in sc.realms.iter().zip(&sc.entries) {
        if let Some(c) = e {
            store.add_for_realm(realm.clone(), DigestCredentials::new(c.user.clone(), c.password.clone()));
        }
    }
    if let Some(c) = &sc.default {
        store.set_default(DigestCredentials::new(c.user.clone(), c.password.clone()));
    }
    for (realm, c) in &sc.unrelated {
        store.add_for_realm(realm.clone(), DigestCredentials::new(c.user.clone(), c.password.clone()));
    }
    let mut authenticator = DigestAuthenticator::default();
    authenticator.enforce_qop = sc.enforce_qop;
    authenticator.reject_md5 = sc.reject_md5;
    let mut session = UacAuthSession::new(authenticator);

    let line = RequestLine {
        method: Method::from(sc.req.method.as_str()),
        uri: Box::new(build_uri(&sc.req.uri)),
    };
    // the request line as `Endpoint::send_outgoing_request` writes it
    let wire_line = line
        .print_ctx(PrintCtx { method: Some(&line.method), uri: None })
        .to_string();
    let parts: Vec<&str> = wire_line.split(' ').collect();
    if parts.len() != 3 || parts[2] != "SIP/2.0" {
        out.fail("c18.harness/request-line", format!("unexpected request line {wire_line:?}"));
        return;
    }
    let wire = Wire { method: parts[0].to_string(), uri: parts[1].to_string(), body: sc.req.body.clone() };
    let request_headers = Headers::new();

    let mut cx = Ctx { sc, wire: &wire, flags: Flags::default() };
    let mut state: Vec<Option<Accepted>> = sc.realms.iter().map(|_| None).collect();
    // realms whose current entry failed verification: nothing more is derived from that entry
    // (no follow-on failures) until the realm is answered anew
    let mut broken: Vec<bool> = sc.realms.iter().map(|_| false).collect();
    // the SERVER's memory per realm: the nonce of the latest answer it verified. Unlike `state` (what the
    // client currently sends) it survives rounds in which that nonce was challenged again and the client,
    // after reporting the failure, stopped sending the entry: the nonce is still "unchanged" when it
    // comes a third, fourth, .. time.
    let mut srv_nonce: Vec<Option<String>> = sc.realms.iter().map(|_| None).collect();
    // the rows the realm was challenged with last time
    let mut srv_rows: Vec<Option<Vec<RowS>>> = sc.realms.iter().map(|_| None).collect();
    // number of consecutive challenges with the unchanged nonce since the answer
    let mut repeats: Vec<u32> = sc.realms.iter().map(|_| 0).collect();
    // a challenge of the realm could not be answered and no request was sent since: whether the client still
    // holds the realm's entry has not been seen (dropping it is accepted, see "Not asserted")
    let mut maybe_dropped: Vec<bool> = sc.realms.iter().map(|_| false).collect();
    let mut had_repeat_failure = false;

    for round in &sc.rounds {
        // --- the server side: issue challenges
        let mut chal = Headers::new();
        let mut outcomes: Vec<(usize, Outcome, String)> = vec![];
        for g in &round.groups {
            let prev = state[g.realm].as_ref();
            let known = if g.repeat { srv_nonce[g.realm].clone() } else { None };
            let repeating = known.is_some();
            let nonce = known.unwrap_or_else(|| g.nonce.clone());
            let identical = repeating && g.same_rows && srv_rows[g.realm].is_some();
            let rows: Vec<RowS> = if identical { srv_rows[g.realm].clone().unwrap() } else { g.rows.clone() };
            for r in &rows {
                let name = if r.proxy { Name::PROXY_AUTHENTICATE } else { Name::WWW_AUTHENTICATE };
                chal.insert(name, r.ch.print(&sc.realms[g.realm], &nonce));
            }
            let cred = sc.entries[g.realm].as_ref().or(sc.default.as_ref());
            let any_supported = rows.iter().any(|r| r.ch.supported(sc.reject_md5));
            let oc = if cred.is_none() {
                Outcome::NoCreds
            } else if repeating {
                Outcome::Repeat
            } else if !any_supported {
                Outcome::Unsupported
            } else {
                Outcome::Answer
            };
            if oc == Outcome::Repeat {
                repeats[g.realm] += 1;
                out.class(match repeats[g.realm] {
                    1 => "repeat:1st-repetition-of-the-answered-nonce",
                    2 => "repeat:2nd-consecutive-repetition",
                    _ => "repeat:3rd+-consecutive-repetition",
                });
                out.class(if identical { "repeat:identical-challenge" } else { "repeat:same-nonce-other-rows" });
                if let Some(p) = prev {
                    if rows.iter().all(|r| r.proxy != p.proxy) {
                        out.class("repeat:in-the-other-header-kind");
                    }
                    if p.uses > 1 {
                        out.class("repeat:after-the-answer-was-reused");
                    }
                } else {
                    out.class("repeat:after-the-client-dropped-the-entry");
                }
                if !any_supported {
                    out.class("repeat:without-supported-challenge");
                }
            } else {
                if oc == Outcome::Answer && repeats[g.realm] >= 2 {
                    out.class("round:new-nonce-after-2+-repetitions");
                }
                if oc == Outcome::Unsupported && srv_nonce[g.realm].is_some() {
                    out.class("round:unanswerable-new-nonce-for-answered-realm");
                }
                if oc != Outcome::NoCreds {
                    repeats[g.realm] = 0;
                }
            }
            srv_rows[g.realm] = Some(rows);
            outcomes.push((g.realm, oc, nonce));
        }
        if round.basic_noise {
            chal.insert(Name::WWW_AUTHENTICATE, "Basic realm=\"basic.example\"");
            out.class("response:with-basic-scheme-row");
        }
        if round.groups.iter().any(|g| {
            let rows = srv_rows[g.realm].as_deref().unwrap_or(&g.rows);
            rows.iter().any(|r| r.proxy) && rows.iter().any(|r| !r.proxy)
        }) {
            out.class("group:realm-challenged-in-both-header-kinds");
        }
        for g in &round.groups {
            let rows = srv_rows[g.realm].as_deref().unwrap_or(&g.rows);
            if let Some(fs) = rows.iter().position(|r| r.ch.supported(sc.reject_md5)) {
                if fs > 0 {
                    out.class("group:first-unsupported-then-supported");
                }
            }
            if rows.len() > 1 {
                out.class("group:several-challenges-per-realm");
            }
        }

        let result = session.handle_authenticate(
            &chal,
            &store,
            RequestParts { line: &line, headers: &request_headers, body: &sc.req.body },
        );

        let any_repeat = outcomes.iter().any(|o| o.1 == Outcome::Repeat);
        let any_fail = outcomes.iter().any(|o| o.1 != Outcome::Answer);
        if any_repeat {
            out.class("round:challenge-repeated-with-same-nonce");
            had_repeat_failure = true;
            // the least advanced repeated realm of this response decides what is named
            let k = outcomes.iter().filter(|o| o.1 == Outcome::Repeat).map(|o| repeats[o.0]).min().unwrap_or(1);
            match &result {
                Err(sip_auth::Error::FailedToAuthenticate(_)) => {
                    if k >= 2 {
                        cx.flags.repeat_again = true;
                    }
                }
                other => out.fail(
                    if k >= 2 { "c18.seq/repeat-after-reported-failure-not-reported" } else { "c18.seq/repeat-not-reported" },
                    format!(
                        "a challenge with an unchanged nonce (repetition number {k} since the answer) must be reported as FailedToAuthenticate, got {:?}",
                        other.as_ref().map_err(|e| e.to_string())
                    ),
                ),
            }
        } else if !any_fail {
            if let Err(e) = &result {
                out.fail("c18.api/unexpected-error", format!("every challenged realm can be answered but handle_authenticate returned {e}"));
            }
        }
        for o in &outcomes {
            match o.1 {
                Outcome::NoCreds => out.class("round:realm-without-credentials"),
                Outcome::Unsupported => out.class("round:no-supported-challenge"),
                Outcome::Answer => {
                    if state[o.0].is_some() {
                        out.class("round:new-nonce-for-answered-realm");
                        if had_repeat_failure {
                            out.class("round:new-nonce-after-repeat");
                        }
                    }
                }
                Outcome::Repeat => {}
            }
        }

        // --- the client (re)sends the request `uses` times (or gives up when nothing could be answered)
        let gave_up = round.give_up_on_failure && !outcomes.is_empty() && outcomes.iter().all(|o| o.1 != Outcome::Answer);
        if gave_up {
            out.class("round:caller-gives-up-after-failure");
        }
        let uses = if gave_up { 0 } else { round.uses };
        if gave_up {
            // nothing is sent, so it cannot be seen whether the client still holds the entry of a realm whose
            // new nonce it could not answer; what the OLD nonce means afterwards is not asserted (see below)
            for o in &outcomes {
                if o.1 == Outcome::Unsupported {
                    srv_nonce[o.0] = None;
                }
                if o.1 != Outcome::NoCreds {
                    maybe_dropped[o.0] = true;
                }
            }
        }
        for use_no in 0..uses {
            let mut hdrs = Headers::new();
            session.authorize_request(&mut hdrs);
            let rows = auth_rows(&hdrs);
            let mut by_realm: Vec<Vec<(bool, Credentials)>> = sc.realms.iter().map(|_| vec![]).collect();
            for (is_proxy, text) in &rows {
                match rd::split_header(text) {
                    Err(e) => out.fail("c18.split/malformed", format!("cannot split {text:?}: {e}")),
                    Ok(c) => match c.get("realm").and_then(|r| sc.realms.iter().position(|x| x == r)) {
                        Some(i) => by_realm[i].push((*is_proxy, c)),
                        None => out.fail(
                            "c18.answer/unexpected-realm",
                            format!("credentials for realm {:?}, which was never challenged: {text:?}", c.get("realm")),
                        ),
                    },
                }
            }
            if out.note.is_none() && !rows.is_empty() {
                out.note = Some(format!("{} {} -> {}", wire.method, wire.uri, rows[0].1));
            }
            for (ri, got) in by_realm.iter().enumerate() {
                if got.len() > 1 {
                    out.fail(
                        "c18.answer/several-per-realm",
                        format!("{} credentials for realm {:?} in one request", got.len(), sc.realms[ri]),
                    );
                    continue;
                }
                let got = got.first();
                let oc = if use_no == 0 { outcomes.iter().find(|o| o.0 == ri) } else { None };
                match oc {
                    Some((_, Outcome::Answer, nonce)) => {
                        let group = round.groups.iter().find(|g| g.realm == ri).unwrap();
                        let cred = sc.entries[ri].as_ref().or(sc.default.as_ref()).unwrap().clone();
                        match got {
                            None => {
                                broken[ri] = false;
                                maybe_dropped[ri] = false;
                                srv_nonce[ri] = None;
                                out.fail(
                                    "c18.answer/missing",
                                    format!(
                                        "no credentials for realm {:?} although a supported challenge was received and credentials are stored",
                                        sc.realms[ri]
                                    ),
                                );
                                state[ri] = None;
                            }
                            Some((is_proxy, c)) => {
                                maybe_dropped[ri] = false;
                                let prev = state[ri].take();
                                state[ri] = verify_first(&mut cx, c, *is_proxy, group, nonce, &cred, prev.as_ref(), out);
                                broken[ri] = state[ri].is_none();
                                srv_nonce[ri] = state[ri].as_ref().map(|a| a.nonce.clone());
                                if sc.entries[ri].is_some() && sc.default.is_some() && state[ri].is_some() {
                                    out.class("creds:realm-entry-preferred-over-default");
                                } else if sc.entries[ri].is_none() && state[ri].is_some() {
                                    out.class("creds:default-used-for-realm-without-entry");
                                }
                            }
                        }
                    }
                    _ if broken[ri] => {}
                    _ => {
                        // no new answer expected: reuse of what was accepted before, or nothing
                        let has_state = state[ri].is_some();
                        let oc_kind = oc.map(|o| o.1);
                        match (has_state, got) {
                            (true, Some((is_proxy, c))) => {
                                verify_reuse(&mut cx, state[ri].as_mut().unwrap(), c, *is_proxy, out);
                                maybe_dropped[ri] = false;
                                if oc_kind == Some(Outcome::Repeat) {
                                    out.class("repeat:entry-still-sent-after-the-failure");
                                }
                            }
                            (false, Some((_, c))) if oc_kind == Some(Outcome::Repeat) => {
                                // the client had stopped sending the entry after an earlier repetition and
                                // now sends credentials again: the unchanged nonce was answered again
                                out.fail(
                                    "c18.seq/answered-again-after-reported-failure",
                                    format!(
                                        "realm {:?}: repetition number {} of the unchanged nonce {:?} was answered again: {c:?}",
                                        sc.realms[ri],
                                        repeats[ri],
                                        srv_nonce[ri]
                                    ),
                                );
                                // nothing more is derived from this entry
                                broken[ri] = true;
                                srv_nonce[ri] = None;
                            }
                            (false, Some((_, c))) => {
                                let why = match oc_kind {
                                    Some(Outcome::NoCreds) => "no credentials are stored for it",
                                    Some(Outcome::Unsupported) => "none of its challenges is supported",
                                    _ => "it has no verified answer",
                                };
                                out.fail(
                                    "c18.answer/unexpected",
                                    format!("credentials for realm {:?} although {why}: {c:?}", sc.realms[ri]),
                                );
                                broken[ri] = true;
                                srv_nonce[ri] = None;
                            }
                            (true, None) => {
                                if oc_kind == Some(Outcome::Repeat) {
                                    // the re-challenge could not be answered; dropping the entry is accepted.
                                    // The server still knows the nonce: the next repetition is one, too
                                    state[ri] = None;
                                    out.class("repeat:entry-dropped-after-the-failure");
                                } else if oc.is_some() {
                                    // same, after a new nonce without supported challenge; what a later
                                    // challenge with the OLD nonce means now is not asserted: forget it
                                    state[ri] = None;
                                    srv_nonce[ri] = None;
                                } else if maybe_dropped[ri] {
                                    // dropped in an earlier round after which nothing was sent (`srv_nonce` is
                                    // still known exactly when that failure was a repetition)
                                    state[ri] = None;
                                    out.class("round:entry-dropped-after-unanswerable-challenge");
                                } else {
                                    out.fail(
                                        "c18.reuse/dropped",
                                        format!("accepted credentials for realm {:?} are no longer sent", sc.realms[ri]),
                                    );
                                    state[ri] = None;
                                    srv_nonce[ri] = None;
                                }
                            }
                            (false, None) => {
                                if oc_kind == Some(Outcome::Unsupported) {
                                    srv_nonce[ri] = None;
                                }
                            }
                        }
                    }
                }
            }
        }
    }

    // --- coverage bookkeeping
    let answered = state.iter().filter(|s| s.is_some()).count();
    out.class(match sc.realms.len() {
        1 => "realms:1",
        2 => "realms:2",
        3 => "realms:3",
        _ => "realms:4",
    });
    if answered >= 2 {
        out.class("realms:>=2-answered-at-end");
    }
    if sc.enforce_qop {
        out.class("flag:enforce_qop");
    }
    if sc.reject_md5 {
        out.class("flag:reject_md5");
    }
    out.class(if KNOWN_METHODS.contains(&sc.req.method.as_str()) { "method:well-known" } else { "method:extension" });
    out.class(if sc.req.body.is_empty() { "body:empty" } else { "body:non-empty" });
    out.class(match sc.req.uri.host {
        HostSpec::Name(_) => "uri:host-name",
        HostSpec::V4(_) => "uri:ipv4",
        HostSpec::V6(_) => "uri:ipv6",
    });
    if sc.req.uri.user.is_some() {
        out.class("uri:with-user");
    }
    if !sc.req.uri.params.is_empty() {
        out.class("uri:with-params");
    }
    if sc.realms.iter().any(|r| !r.is_ascii()) {
        out.class("realm:non-ascii");
    }
    if sc.realms.iter().any(|r| r.is_empty()) {
        out.class("realm:empty");
    }
    let f = &cx.flags;
    if f.non_ascii_cred {
        out.class("creds:non-ascii");
    }
    if f.sess || f.auth_int || f.userhash || f.reuse || f.non_ascii_cred || f.repeat_again || answered >= 2 {
        out.nontrivial(&serde_json::to_string(sc).unwrap_or_default());
    }
}

fn check_sequences(sc: &Scenario, out: &mut CaseOut) {
    run_scenario(sc, out);
}

fn check_first_use(fu: &FirstUse, out: &mut CaseOut) {
    let (entries, default, unrelated) = if fu.by_default {
        (
            vec![None],
            Some(fu.cred.clone()),
            fu.decoy.iter().map(|d| (format!("{}.other", fu.realm), d.clone())).collect(),
        )
    } else {
        (vec![Some(fu.cred.clone())], fu.decoy.clone(), vec![])
    };
    let sc = Scenario {
        realms: vec![fu.realm.clone()],
        entries,
        default,
        unrelated,
        enforce_qop: fu.enforce_qop,
        reject_md5: fu.reject_md5,
        req: fu.req.clone(),
        rounds: vec![RoundS {
            groups: vec![GroupS {
                realm: 0,
                repeat: false,
                nonce: fu.nonce.clone(),
                rows: vec![RowS { proxy: fu.proxy, ch: fu.ch.clone() }],
                same_rows: false,
            }],
            basic_noise: false,
            uses: 1 + fu.reuses,
            give_up_on_failure: false,
        }],
    };
    if fu.nonce.is_empty() {
        out.class("nonce:empty");
    }
    if !fu.nonce.is_ascii() {
        out.class("nonce:non-ascii");
    }
    out.class(match fu.ch.qop {
        0 => "offered-qop:none",
        1 => "offered-qop:auth",
        2 => "offered-qop:auth-int",
        3 | 4 => "offered-qop:auth+auth-int",
        _ => "offered-qop:with-unknown-token",
    });
    out.class(match fu.ch.userhash {
        1 => "offered-userhash:true",
        2 => "offered-userhash:false",
        _ => "offered-userhash:absent",
    });
    run_scenario(&sc, out);
}

pub fn property() -> Property {
    Property {
        fuzz: vec![],
        id: "C18",
        rule: "a case is a credential store, a request (method, Request-URI, body) and one or more 401/407 responses with Digest challenges; \
               it counts as non-trivial when at least one produced header was verified by the reference verifier AND the case involves a -sess \
               algorithm, qop=auth-int, userhash, a verified reuse (nc >= 2), non-ASCII credentials, >= 2 answered realms, or an answered nonce that \
               was challenged again at least twice in a row and reported as failure each time; distinct = distinct case value",
        assumptions: vec![
            "realm, nonce, opaque are qdtext (no quoted-pairs); parameter names lower case; algorithm/stale/userhash are tokens; one challenge per header row (RFC 3261 §7.3.1)",
            "user names contain no ':'; Request-URIs carry no ?headers (RFC 3261 Table 1); extension methods do not start with a well-known method name",
            "all challenges of one realm in one response share the nonce and have distinct algorithms (RFC 8760 §2.4)",
            "an unchanged nonce is the nonce of the latest answer the verifier accepted for the realm; it stays that through any number of repetitions, also when the client stops sending the entry after a reported failure",
            "reuse is verified against the request the header was created for (on_authorize_request gets no request)",
            "the reference verifier (src/refmodel/ref_digest.rs) is checked against the RFC 2617 and RFC 7616 example vectors by unit tests",
        ],
        explanation: "sampled, not exhaustive: algorithm (6 + 2 unknown) x qop-set (8) x userhash (3) x opaque (absent/empty/text) x stale x parameter order are drawn \
                      uniformly so every combination of the finite dimensions occurs many times per run (see classes), strings (realm, nonce, user, password, body, URI) are random; \
                      sequences of up to 4 responses over up to 4 realms with up to 3 challenges per realm and up to 3 uses per round; \
                      failure histories of 3..8 responses over 1..2 realms (fresh nonce / identical challenge again / same nonce with other rows / \
                      fresh nonce without supported challenge; the caller sends the request or gives up after a failure)",
        subs: vec![
            prop_sub("first_use_and_reuse", first_use_strategy, 2000, 60000, check_first_use),
            prop_sub("challenge_sequences", scenario_strategy, 2000, 60000, check_sequences),
            prop_sub("failure_histories", history_strategy, 1000, 30000, check_sequences),
        ],
    }
}
