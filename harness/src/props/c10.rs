//! C10 — In-dialog requests reach their dialog once each, in CSeq order
//!
//! One case = one dialog (created as UAS from a peer INVITE, or as UAC through a real INVITE client
//! transaction answered by the peer), a roster of 1..3 usages registered on it, and a script of peer events.
//!
//! What is generated
//! * roster: usages in registration order; each one either only looks at what it is offered or takes and
//!   answers it (at most one taking usage, registered last, so that nothing is assumed about what is offered
//!   behind a usage that took a request). Legacy shape: [observer?], taker.
//! * script: in-dialog requests with consecutive CSeq numbers in some arrival order (with retransmissions and
//!   re-sent copies), near-miss requests, ACKs with the INVITE's CSeq, the drop of a usage's guard by the
//!   application between two events (`DropGuard` = the taking usage, `DropGuardOf` = any usage), waits,
//!   back-to-back arrivals.
//! * time (`Wait`, virtual ms on the paused clock): short waits (1 ms .. 700 ms) and long ones (5 s .. 1 h, around
//!   64*T1 = 32 s and its multiples) anywhere in the script - before the first arrival, after the last one, and
//!   above all WHILE requests are held: the statement knows no time limit, a held request is released when the gap
//!   is filled, 1 ms or an hour later (by then every transaction timer of the stack and of the peer has run out).
//!   A release list can mix requests held for longer and for shorter than 64*T1; the hold time of a request can
//!   be the sum of several waits none of which is long by itself. Copies of a request (same branch) follow the
//!   first one within 20 s, so that they stay retransmissions (absorbed) whatever happened to the original.
//! * in-receive guard drops (`acts`): while usage `actor` is inside `Usage::receive` for request `on`, it drops
//!   the guard of usage `target` - its own, that of a usage registered earlier (which has already been offered
//!   this request) or that of a usage registered later (which has NOT been offered it yet and must not be any
//!   more) - right after looking at the request or after its awaits (`late`), at every position of a released
//!   batch. This is the window in which "is the usage still registered" can go stale inside ONE request.
//! * requests that NO usage takes (rosters of looking usages only, or the taking usage ended before) get the
//!   stack's default answer, and that answer can go wrong - at every position of a released list:
//!   `fail_answer` = the transport refuses (io::Error) every send of a final answer to request idx, whoever answers
//!   (the stack's 404, or the 200 of the taking usage); method index 7 = a re-INVITE, whose default 404 is
//!   answered through an INVITE server transaction that waits for the peer's ACK: the peer ACKs it at once, or
//!   never (`no_ack`; the transaction gives up after 64*T1 with an error). Whatever happens to the answer of one
//!   request, the requests released together with it still have to be offered, in order - at once, or (un-ACKed
//!   404: the stack handles a list one request after the other) when the server transaction has given up.
//!
//! Oracle
//! * ordering: `refmodel::ref_reorder::Reorder` (an independent reorder buffer over u64) predicts for every
//!   step which CSeq numbers are handed on, in which order.
//! * who is offered what: a roster walk written here from the statement (`plan`): a released request is
//!   offered to the usages whose guard is alive at the moment it is their turn, in registration order, until
//!   one takes it; what nobody takes gets the stack's default answer. Each usage's tape, the catch-all layer
//!   behind the `DialogLayer` and the final answers the stack hands to the transport (sent or refused, recorded
//!   by the world's transport wrapper `FaultyTp`, read with the independent wire reader) are compared against
//!   that step by step. The requests of a list that follow a re-INVITE nobody took whose 404 is never ACKed
//!   are expected in the late step (after the script, when 64*T1 have passed), all others in the step of the
//!   arrival that released them. A request that is never offered although it was released together with a lower
//!   request whose default answer failed is `c10.order/not-offered-after-failed-default-answer`.
//! * time plays no part in the expectation. The plan only keeps the books (sum of the script's waits between the
//!   arrival of a request and the arrival that releases it) to label the shapes and to name a failure: a held
//!   request that is missing from its release step after a hold of 64*T1 or more is
//!   `c10.order/held-not-released-after-long-hold`, after a shorter hold `c10.order/held-not-released`.
//! * guard: independent of the walk - every entry into `Usage::receive` and every guard drop gets a number
//!   from one counter; an entry of usage u numbered after the drop of u's guard is `c10.guard/shown-after-drop`.
//!
//! Not asserted: what happens to requests with a CSeq not above the last one handed on; the position of
//! copies of a CSeq that arrives with several branches; anything about usages registered behind a usage that
//! took the request (not generated); the offer order among usages beyond "registration order" (assumption,
//! no usage is re-registered after a drop, so the slot order of the usage table is the registration order);
//! interleaving of overlapping deliveries with in-receive drops (scripts with `acts` have no back-to-back
//! arrivals); HOW LONG the rest of a released list waits behind an un-ACKed default 404 (only that it is offered,
//! once, in order, by the time the server transaction has given up; the backlog itself must be empty at once);
//! a list released while another one is stuck behind an un-ACKed 404 (overlapping deliveries: not generated);
//! copies of a re-INVITE or of a request whose answer was refused (not generated: at most one arrival each, their
//! server transaction is gone so a copy is a new request the statement is silent about); same-branch copies that
//! arrive 20 s or more after the first one (not generated: once the server transaction of the answered original is
//! gone, 64*T1 after the answer, such a copy is a new request with a CSeq not above the last one handed on); long
//! waits in scripts with a peer that never ACKs (not generated: the late step is where that transaction gives up);
//! the content of the default answers.

use crate::engine::*;
use crate::refmodel::ref_reorder::{Arrival, Reorder};
use crate::world::*;
use parking_lot::Mutex;
use proptest::prelude::*;
use serde::{Deserialize, Serialize};
use sip_core::transport::{Direction, TargetTransportInfo, TpHandle, Transport};
use sip_core::{Endpoint, IncomingRequest, Layer, MayTake};
use sip_types::header::typed::Contact;
use sip_types::uri::sip::SipUri;
use sip_types::uri::NameAddr;
use sip_types::{Code, Method};
use sip_ua::dialog::{ClientDialogBuilder, Dialog, DialogLayer, Usage, UsageGuard};
use std::collections::{BTreeMap, BTreeSet, HashSet};
use std::net::SocketAddr;
use std::sync::atomic::{AtomicUsize, Ordering};
use std::sync::Arc;
use tokio::sync::mpsc;

// ------------------------------------------------------------------------------------------------
// case

#[derive(Serialize, Deserialize, Clone, Copy, Debug, Hash, PartialEq, Eq)]
pub enum Role {
    Uas,
    Uac,
}

/// which component of the dialog identification differs from the dialog's
#[derive(Serialize, Deserialize, Clone, Copy, Debug, Hash, PartialEq, Eq)]
pub enum Near {
    CallId,
    FromTag,
    ToTag,
    NoToTag,
    NoFromTag,
    /// From-tag and To-tag exchanged (what the *local* side would send)
    Swapped,
}

#[derive(Serialize, Deserialize, Clone, Debug, Hash, PartialEq, Eq)]
pub enum Ev {
    /// in-dialog request number `idx` (CSeq k+1+idx); `gen` selects the Via branch:
    /// same (idx, gen) again = retransmission, same idx with another gen = re-sent with a new branch
    Req { idx: u8, gen: u8 },
    /// request that misses the dialog in one component; CSeq as request `idx` would have
    Near { kind: Near, idx: u8, id: u8 },
    /// ACK carrying the CSeq of the dialog-creating INVITE (UAS role only)
    Ack { id: u8 },
    /// the application drops the guard of the taking usage
    DropGuard,
    /// the application drops the guard of usage `usage` (position in registration order)
    DropGuardOf { usage: u8 },
    /// virtual time passes (paused tokio clock): 1 ms .. about an hour. Requests that wait for a missing lower
    /// CSeq stay held however long that takes - the statement has no time limit
    Wait { ms: u32 },
    /// the previous and the next request arrive back to back: the stack's tasks do not get to run
    /// in between (only between Req / Near / Ack events)
    Join,
}

/// a guard drop that happens INSIDE `Usage::receive`: while usage `actor` handles request `on` it drops the
/// guard of usage `target` (positions in registration order; actor == target: the usage ends itself)
#[derive(Serialize, Deserialize, Clone, Copy, Debug, Hash, PartialEq, Eq)]
pub struct Act {
    pub on: u8,
    pub actor: u8,
    pub target: u8,
    /// false: right after the actor has looked at the request; true: after its awaits (`usage_yields` /
    /// `looker_yields` scheduling points; the taking usage has taken the request by then)
    #[serde(default)]
    pub late: bool,
}

#[derive(Serialize, Deserialize, Clone, Debug, Hash)]
pub struct Case {
    pub role: Role,
    /// UAS: CSeq of the peer's INVITE. UAC: the number before the peer's first own request.
    /// In-dialog request `idx` carries CSeq k+1+idx.
    pub k: u32,
    /// method of request idx (index into METHODS); the length is n
    pub methods: Vec<u8>,
    /// a second usage that only looks at requests (registered first, guard kept until the end)
    pub observer: bool,
    /// how often the taking usage yields to the scheduler inside `receive` (after it has looked at the
    /// request, before it answers) - a usage that awaits something, as ezk's own InviteUsage does
    #[serde(default)]
    pub usage_yields: u8,
    /// the taking usage gives up its own guard inside `receive` when it is offered request `idx`
    /// (an application that ends the usage in reaction to a request, e.g. BYE). Only generated for the
    /// UAS role, for a request that arrives exactly once, in scripts without DropGuard / Join.
    #[serde(default)]
    pub drop_on: Option<u8>,
    /// the dialog's usages in registration order: true = takes and answers everything it is offered, false =
    /// only looks. At most one taking usage, and only in the last position. Empty = the legacy roster
    /// `[looker if observer] + [taker]`.
    #[serde(default)]
    pub roster: Vec<bool>,
    /// guard drops inside `receive`. Every `on` is a request that arrives exactly once and that the
    /// reference model hands on (not one the statement is silent about); scripts with acts have no Join.
    #[serde(default)]
    pub acts: Vec<Act>,
    /// how often an only-looking usage yields to the scheduler inside `receive` (scripts without Join only)
    #[serde(default)]
    pub looker_yields: u8,
    /// requests (idx) whose final answer the transport refuses to send: every `Transport::send` of a final
    /// response to request idx fails with an io::Error, whoever answers - the taking usage (200) or the stack's
    /// default handling of a request nobody took (404). Such a request arrives at most once.
    #[serde(default)]
    pub fail_answer: Vec<u8>,
    /// what the peer does with a 3xx-6xx answer to a re-INVITE (method index 7): false = ACKs it at once (inside
    /// the same step), true = never ACKs it (the INVITE server transaction gives up after 64*T1)
    #[serde(default)]
    pub no_ack: bool,
    pub events: Vec<Ev>,
    pub rng: u8,
}

/// a copy of a request (same branch) follows the first one by less than this (far below 64*T1 = 32 s)
const COPY_WINDOW_MS: u64 = 20_000;
/// the longest single wait of a script
const MAX_WAIT_MS: u32 = 4_000_000;
/// 64*T1: the lifetime of the peer's (non-INVITE) client transaction - a request that is held longer than this
/// is released when its own transaction at the peer has long timed out. The statement does not care.
const LONG_HOLD_MS: u64 = 32_000;

const METHODS: &[&str] = &["INFO", "UPDATE", "MESSAGE", "BYE", "OPTIONS", "NOTIFY", "REFER"];
/// method index of a re-INVITE (only for in-dialog requests; near-miss requests keep to METHODS)
const M_INVITE: u8 = 7;

fn method_name(m: u8) -> &'static str {
    if m == M_INVITE {
        "INVITE"
    } else {
        METHODS[m as usize]
    }
}

impl Case {
    fn n(&self) -> usize {
        self.methods.len()
    }
    fn cseq_of(&self, idx: u8) -> u64 {
        self.k as u64 + 1 + idx as u64
    }
    /// CSeq of a near-miss request (clamped: with n = 0 there is no in-dialog number to borrow)
    fn near_cseq(&self, idx: u8) -> u32 {
        self.cseq_of(idx).min(u32::MAX as u64) as u32
    }
    /// the usages in registration order (true = taking)
    fn usages(&self) -> Vec<bool> {
        if self.roster.is_empty() {
            let mut r = vec![];
            if self.observer {
                r.push(false);
            }
            r.push(true);
            r
        } else {
            self.roster.clone()
        }
    }
    fn taker(&self) -> Option<usize> {
        self.usages().iter().position(|t| *t)
    }
    /// all in-receive guard drops (the legacy `drop_on` is the taking usage ending itself)
    fn all_acts(&self) -> Vec<Act> {
        let mut a = self.acts.clone();
        if let (Some(d), Some(t)) = (self.drop_on, self.taker()) {
            a.push(Act { on: d, actor: t as u8, target: t as u8, late: false });
        }
        a
    }
    fn has_join(&self) -> bool {
        self.events.iter().any(|e| *e == Ev::Join)
    }
    /// virtual time that the script lets pass in all
    fn total_wait_ms(&self) -> u64 {
        self.events.iter().map(|e| if let Ev::Wait { ms } = e { *ms as u64 } else { 0 }).sum()
    }
    /// positions of copies that arrive too late: a copy of (idx, gen) that follows the first one by
    /// COPY_WINDOW_MS or more. (A same-branch copy is a retransmission only as long as the server transaction of
    /// the original exists - 64*T1 from its answer, and the answer is never earlier than the first arrival -
    /// or as long as the original is still held; later it would be a new request the statement is silent about.)
    fn late_copies(&self) -> Vec<usize> {
        let mut t = 0u64;
        let mut first: BTreeMap<(u8, u8), u64> = BTreeMap::new();
        let mut out = vec![];
        for (i, e) in self.events.iter().enumerate() {
            match e {
                Ev::Wait { ms } => t += *ms as u64,
                Ev::Req { idx, gen } => {
                    let t0 = *first.entry((*idx, *gen)).or_insert(t);
                    if t - t0 >= COPY_WINDOW_MS {
                        out.push(i);
                    }
                }
                _ => {}
            }
        }
        out
    }
    fn is_invite(&self, idx: u8) -> bool {
        self.methods.get(idx as usize) == Some(&M_INVITE)
    }
    fn invites(&self) -> usize {
        self.methods.iter().filter(|m| **m == M_INVITE).count()
    }
    fn idx_of(&self, cseq: u64) -> u8 {
        (cseq - self.k as u64 - 1) as u8
    }
    /// requests that must not arrive more than once: re-INVITEs (a copy that arrives after the INVITE server
    /// transaction has ended is a new request) and requests whose answer cannot be sent (their server
    /// transaction ends with the failed send, a retransmission would not be absorbed)
    fn special(&self) -> Vec<u8> {
        (0..self.n() as u8).filter(|i| self.is_invite(*i) || self.fail_answer.contains(i)).collect()
    }
    /// the stack's default handling of request `cseq` (when no usage takes it) ends with an error
    fn default_answer_errs(&self, cseq: u64) -> bool {
        let idx = self.idx_of(cseq);
        self.fail_answer.contains(&idx) || (self.is_invite(idx) && self.no_ack)
    }
    /// the stack's default handling of request `cseq` stays pending until the INVITE server transaction gives up
    fn default_answer_blocks(&self, cseq: u64) -> bool {
        let idx = self.idx_of(cseq);
        self.is_invite(idx) && self.no_ack && !self.fail_answer.contains(&idx)
    }
    /// requests an in-receive drop may be tied to: they arrive exactly once, and the reference model does not
    /// classify them as "not above the last number handed on" (whether those are offered at all is not asserted,
    /// so whether the drop happens would not be defined)
    fn act_candidates(&self) -> Vec<u8> {
        let mut model = Reorder::new(match self.role {
            Role::Uas => Some(self.k as u64),
            Role::Uac => None,
        });
        let mut count = vec![0usize; self.n()];
        let mut lower = vec![false; self.n()];
        for e in &self.events {
            if let Ev::Req { idx, .. } = e {
                let i = *idx as usize;
                if i >= count.len() {
                    continue;
                }
                count[i] += 1;
                if count[i] == 1 && model.arrive(self.cseq_of(*idx)) == Arrival::Lower {
                    lower[i] = true;
                }
            }
        }
        (0..self.n()).filter(|i| count[*i] == 1 && !lower[*i]).map(|i| i as u8).collect()
    }
    /// generator contract: only sound cases reach the oracle
    fn valid(&self) -> bool {
        let n = self.n();
        let usages = self.usages();
        let m = usages.len();
        let acts = self.all_acts();
        n <= 256
            && self.k as u64 + n as u64 <= u32::MAX as u64
            && self.methods.iter().all(|m| (*m as usize) <= METHODS.len())
            && self.fail_answer.iter().all(|i| (*i as usize) < n)
            && (!self.no_ack || self.invites() > 0)
            && {
                // re-INVITEs / unsendable answers: at most one arrival each, no back-to-back arrivals, and nothing
                // is released while an un-ACKed default 404 is pending
                let special = self.special();
                special.is_empty()
                    || (!self.has_join()
                        && special.iter().all(|s| self.events.iter().filter(|e| matches!(e, Ev::Req { idx, .. } if idx == s)).count() <= 1))
            }
            // a script with a peer that never ACKs stays far below 64*T1 (the late step is where the INVITE server
            // transaction gives up)
            && (!self.no_ack || self.total_wait_ms() < 20_000)
            && self.late_copies().is_empty()
            && (1..=3).contains(&m)
            && (self.roster.is_empty() || !self.observer)
            && usages[..m - 1].iter().all(|t| !*t)
            && self.events.iter().all(|e| match e {
                Ev::Req { idx, gen } => (*idx as usize) < n && *gen < 4,
                Ev::Near { idx, .. } => (*idx as usize) < n.max(1),
                Ev::Ack { .. } => self.role == Role::Uas,
                Ev::DropGuard => self.taker().is_some(),
                Ev::DropGuardOf { usage } => (*usage as usize) < m,
                Ev::Wait { ms } => *ms <= MAX_WAIT_MS,
                _ => true,
            })
            && self.usage_yields <= 3
            && self.looker_yields <= 3
            && (self.looker_yields == 0 || !self.has_join())
            && self.drop_on.map_or(true, |_| self.taker().is_some())
            && acts.len() <= 3
            && (acts.is_empty() || !self.has_join())
            && {
                let cand = self.act_candidates();
                acts.iter().all(|a| (a.actor as usize) < m && (a.target as usize) < m && cand.contains(&a.on))
            }
            && (0..self.events.len()).all(|i| {
                self.events[i] != Ev::Join
                    || (i > 0
                        && i + 1 < self.events.len()
                        && self.events[i - 1].is_arrival()
                        && self.events[i + 1].is_arrival())
            })
            && (!self.no_ack || !plan(self).overlap_blocked)
    }
}

impl Ev {
    fn is_arrival(&self) -> bool {
        matches!(self, Ev::Req { .. } | Ev::Near { .. } | Ev::Ack { .. })
    }
}

fn req_marker(idx: u8, gen: u8) -> String {
    format!("r{idx}g{gen}")
}
fn near_marker(id: u8) -> String {
    format!("n{id}")
}
fn ack_marker(id: u8) -> String {
    format!("a{id}")
}
const BRANCH_PREFIX: &str = "z9hG4bKc10";

// ------------------------------------------------------------------------------------------------
// generators

fn permutations(n: usize) -> Vec<Vec<u8>> {
    fn rec(cur: &mut Vec<u8>, used: &mut Vec<bool>, n: usize, out: &mut Vec<Vec<u8>>) {
        if cur.len() == n {
            out.push(cur.clone());
            return;
        }
        for i in 0..n {
            if !used[i] {
                used[i] = true;
                cur.push(i as u8);
                rec(cur, used, n, out);
                cur.pop();
                used[i] = false;
            }
        }
    }
    let mut out = vec![];
    rec(&mut vec![], &mut vec![false; n], n, &mut out);
    out
}

/// the three start values of the enumeration for a given n: 1, a number so that the run crosses 2^31,
/// and the number that makes the last request carry u32::MAX
fn enum_starts(role: Role, n: usize) -> [u32; 3] {
    [
        if role == Role::Uas { 1 } else { 0 },
        (1u32 << 31) - 2,
        u32::MAX - n as u32,
    ]
}

fn perm_case(role: Role, k: u32, perm: &[u8], ordinal: usize) -> Case {
    let n = perm.len();
    let mut events = vec![];
    if role == Role::Uas {
        events.push(Ev::Ack { id: 0 });
    }
    events.extend(perm.iter().map(|i| Ev::Req { idx: *i, gen: 0 }));
    Case {
        role,
        k,
        methods: (0..n).map(|i| ((i + ordinal) % METHODS.len()) as u8).collect(),
        observer: ordinal % 2 == 1,
        usage_yields: 0,
        drop_on: None,
        roster: vec![],
        acts: vec![],
        looker_yields: 0,
        fail_answer: vec![],
        no_ack: false,
        events,
        rng: (ordinal % 251) as u8,
    }
}

/// every arrival permutation of n consecutive requests, both roles, three start values
pub fn perm_cases(tier: Tier) -> Vec<Case> {
    let mut out = vec![];
    let nmax_both = tier.pick(4, 5);
    for role in [Role::Uas, Role::Uac] {
        let nmax = if role == Role::Uas { tier.pick(4, 6) } else { nmax_both };
        for n in 1..=nmax {
            let perms = permutations(n);
            for (si, k) in enum_starts(role, n).into_iter().enumerate() {
                for (pi, p) in perms.iter().enumerate() {
                    out.push(perm_case(role, k, p, pi + si));
                }
            }
        }
    }
    // the INVITE itself carries the highest possible number: nothing can follow, but the dialog must exist
    out.push(Case {
        role: Role::Uas,
        k: u32::MAX,
        methods: vec![],
        observer: false,
        usage_yields: 0,
        drop_on: None,
        roster: vec![],
        acts: vec![],
        looker_yields: 0,
        fail_answer: vec![],
        no_ack: false,
        events: vec![Ev::Ack { id: 0 }, Ev::Near { kind: Near::ToTag, idx: 0, id: 0 }],
        rng: 0,
    });
    out
}

/// every permutation of n <= 3 (thorough 4) x every position of the guard drop x both roles x observer
pub fn drop_cases(tier: Tier) -> Vec<Case> {
    let mut out = vec![];
    for role in [Role::Uas, Role::Uac] {
        for n in 1..=tier.pick(3, 4) {
            for (pi, p) in permutations(n).iter().enumerate() {
                for pos in 0..=n {
                    for observer in [false, true] {
                        let mut c = perm_case(role, if role == Role::Uas { 1 } else { 0 }, p, pi);
                        c.observer = observer;
                        let off = if role == Role::Uas { 1 } else { 0 };
                        c.events.insert(off + pos, Ev::DropGuard);
                        out.push(c);
                    }
                }
            }
        }
    }
    out
}

/// every permutation of n <= 3 (thorough 4) arriving back to back (one burst, or split in two bursts at
/// every position) while the taking usage yields 1..2 times per request, both roles, with/without observer
pub fn concurrent_cases(tier: Tier) -> Vec<Case> {
    let mut out = vec![];
    for role in [Role::Uas, Role::Uac] {
        for n in 2..=tier.pick(3, 4) {
            for (pi, p) in permutations(n).iter().enumerate() {
                for split in 0..n {
                    for yields in 1..=2u8 {
                        let mut c = perm_case(role, if role == Role::Uas { 1 } else { 0 }, p, pi);
                        c.usage_yields = yields;
                        c.observer = (pi + split) % 2 == 0;
                        let mut events = vec![];
                        for (i, i_req) in p.iter().enumerate() {
                            if i > 0 && i != split {
                                events.push(Ev::Join);
                            }
                            events.push(Ev::Req { idx: *i_req, gen: 0 });
                        }
                        c.events = events;
                        out.push(c);
                    }
                }
            }
        }
    }
    out
}

/// every permutation of n <= 3 (thorough 4), UAS role: the taking usage ends itself when it is offered request d
pub fn self_drop_cases(tier: Tier) -> Vec<Case> {
    let mut out = vec![];
    for n in 1..=tier.pick(3, 4) {
        for (pi, p) in permutations(n).iter().enumerate() {
            for d in 0..n as u8 {
                for observer in [false, true] {
                    let mut c = perm_case(Role::Uas, 1, p, pi);
                    c.observer = observer;
                    c.drop_on = Some(d);
                    out.push(c);
                }
            }
        }
    }
    out
}

/// rosters of the `usage_drop` enumeration (false = only looks, true = takes; the taking usage is last)
const ROSTERS: &[&[bool]] = &[&[false], &[false, false], &[false, true], &[false, false, false], &[false, false, true]];

/// guard drops inside `receive` and drops of an only-looking usage's guard between two requests:
/// * every roster of ROSTERS x every (actor, target) pair x early / late x every permutation of n <= 3
///   (thorough 4) requests x every request the drop can be tied to x both roles;
/// * rosters with >= 2 usages x every only-looking usage x every position of an application-side drop of its
///   guard x every permutation of n <= 3 x both roles.
pub fn usage_drop_cases(tier: Tier) -> Vec<Case> {
    let mut out = vec![];
    for role in [Role::Uas, Role::Uac] {
        let k = if role == Role::Uas { 1 } else { 0 };
        for n in 1..=tier.pick(3, 4) {
            for (pi, p) in permutations(n).iter().enumerate() {
                for (ri, roster) in ROSTERS.iter().enumerate() {
                    let m = roster.len();
                    let base = {
                        let mut c = perm_case(role, k, p, pi + ri);
                        c.observer = false;
                        c.roster = roster.to_vec();
                        c
                    };
                    let cand = base.act_candidates();
                    for on in cand {
                        for actor in 0..m as u8 {
                            for target in 0..m as u8 {
                                for late in [false, true] {
                                    let mut c = base.clone();
                                    c.acts = vec![Act { on, actor, target, late }];
                                    if late {
                                        // the drop happens behind an await of the actor
                                        c.usage_yields = 1 + (pi % 2) as u8;
                                        c.looker_yields = 1 + (pi % 2) as u8;
                                    }
                                    out.push(c);
                                }
                            }
                        }
                    }
                    if n <= 3 && m >= 2 {
                        let off = if role == Role::Uas { 1 } else { 0 };
                        for usage in (0..m as u8).filter(|u| !roster[*u as usize]) {
                            for pos in 0..=n {
                                let mut c = base.clone();
                                c.events.insert(off + pos, Ev::DropGuardOf { usage });
                                out.push(c);
                            }
                        }
                    }
                }
            }
        }
    }
    out
}

/// Requests that no usage takes, at every position of a released list, whose default answer (the stack's 404)
/// succeeds late or not at all:
/// every permutation of n = 2..3 (thorough 4) requests x both roles x who is left to be offered the requests
/// {one looking usage, two looking usages, nobody (the only, taking usage was ended before), one looking usage (the
/// taking usage registered behind it was ended before)} x every request j x what goes wrong with its answer
/// {the transport refuses to send it, j is a re-INVITE whose 404 the peer never ACKs, j is a re-INVITE whose 404
/// is ACKed at once, j is a re-INVITE and the transport refuses the 404}.
/// (Arrival orders in which a list would be released while an earlier one is still stuck behind an un-ACKed answer
/// are left out, see `valid`.)
pub fn unwanted_cases(tier: Tier) -> Vec<Case> {
    let mut out = vec![];
    for role in [Role::Uas, Role::Uac] {
        let k = if role == Role::Uas { 1 } else { 0 };
        let off = if role == Role::Uas { 1 } else { 0 };
        for n in 2..=tier.pick(3, 4) {
            for (pi, p) in permutations(n).iter().enumerate() {
                for left in 0..4 {
                    let mut base = perm_case(role, k, p, pi + left);
                    base.observer = false;
                    match left {
                        0 => base.roster = vec![false],
                        1 => base.roster = vec![false, false],
                        2 => base.events.insert(off, Ev::DropGuard),
                        _ => {
                            base.roster = vec![false, true];
                            base.events.insert(off, Ev::DropGuardOf { usage: 1 });
                        }
                    }
                    for j in 0..n as u8 {
                        for mode in 0..4 {
                            let mut c = base.clone();
                            if mode != 0 {
                                c.methods[j as usize] = M_INVITE;
                            }
                            if mode == 0 || mode == 3 {
                                c.fail_answer = vec![j];
                            }
                            c.no_ack = mode == 1;
                            if c.valid() {
                                out.push(c);
                            }
                        }
                    }
                }
            }
        }
    }
    out
}

/// the durations of the `held_long` enumeration: below 64*T1, just above it, above twice that, ten minutes
const HOLD_DURATIONS: &[u32] = &[31_000, 33_000, 70_000, 600_000];

/// Time passes while requests are held (the statement has no time limit: what is held is released when the gap
/// is filled, however late that is):
/// every permutation of n = 2..3 (thorough 4) requests x both roles x roster {taker (with / without an observer),
/// one looking usage (default answers), looker + taker} x
/// * one wait of HOLD_DURATIONS between two neighbouring arrivals, at every such position, or
/// * a wait of 17 s between every two neighbouring arrivals (no single wait reaches 64*T1, the hold time of a
///   request that is released two or more arrivals later does), without / with a retransmission of the first
///   arrival after the first wait (absorbed: by the held request's pending transaction, or by the server
///   transaction of the answered one).
pub fn held_long_cases(tier: Tier) -> Vec<Case> {
    let mut out = vec![];
    for role in [Role::Uas, Role::Uac] {
        let k = if role == Role::Uas { 1 } else { 0 };
        let off = if role == Role::Uas { 1 } else { 0 };
        for n in 2..=tier.pick(3, 4) {
            for (pi, p) in permutations(n).iter().enumerate() {
                for ri in 0..3 {
                    let mut base = perm_case(role, k, p, pi + ri);
                    match ri {
                        0 => {}
                        1 => {
                            base.observer = false;
                            base.roster = vec![false];
                        }
                        _ => {
                            base.observer = false;
                            base.roster = vec![false, true];
                        }
                    }
                    for pos in 1..n {
                        for d in HOLD_DURATIONS {
                            let mut c = base.clone();
                            c.events.insert(off + pos, Ev::Wait { ms: *d });
                            out.push(c);
                        }
                    }
                    for retransmit in [false, true] {
                        let mut c = base.clone();
                        for pos in (1..n).rev() {
                            c.events.insert(off + pos, Ev::Wait { ms: 17_000 });
                        }
                        if retransmit {
                            // (behind the first wait: off + first arrival + wait)
                            c.events.insert(off + 2, Ev::Req { idx: p[0], gen: 0 });
                        }
                        out.push(c);
                    }
                }
            }
        }
    }
    out
}

/// many requests held behind ONE missing number (seeded change C10-9: a backlog capped at 64 entries lets go of
/// the highest one): w requests with consecutive numbers arrive ahead of request 0 - ascending, descending or
/// riffled (odd numbers, then even ones) - then request 0 fills the gap and all w+1 are due, in order. The
/// statement knows no bound on how many requests wait; w sits around 64 and goes up to what `idx: u8` allows.
pub fn wide_backlog_cases(tier: Tier) -> Vec<Case> {
    let widths: &[u16] = tier.pick(&[63, 64, 65, 66, 100, 200][..], &[31, 32, 33, 63, 64, 65, 66, 100, 127, 128, 129, 200, 255][..]);
    let mut out = vec![];
    for role in [Role::Uas, Role::Uac] {
        let k = if role == Role::Uas { 1 } else { 0 };
        for (wi, w) in widths.iter().enumerate() {
            let asc: Vec<u8> = (1..=*w).map(|i| i as u8).collect();
            let desc: Vec<u8> = asc.iter().rev().copied().collect();
            let riffle: Vec<u8> = asc.iter().copied().filter(|i| i % 2 == 1).chain(asc.iter().copied().filter(|i| i % 2 == 0)).collect();
            for (oi, order) in [asc, desc, riffle].into_iter().enumerate() {
                let mut p = order;
                p.push(0);
                // ordinal: even = taking usage alone, odd = with an observer in front
                out.push(perm_case(role, k, &p, wi + oi));
            }
        }
    }
    out
}

/// the long waits of the random scripts (ms): well below 64*T1 = 32 s, around it, multiples, minutes, an hour
const LONG_WAITS: &[u32] = &[5_000, 17_000, 31_000, 31_999, 32_001, 33_000, 40_000, 64_500, 100_000, 600_000, 3_600_000];

#[derive(Debug, Clone)]
struct IdxSpec {
    copies: u8,
    keys: [u16; 3],
}

pub fn strategy() -> BoxedStrategy<Case> {
    let idx_spec = (0u8..16, any::<[u16; 3]>()).prop_map(|(copies, keys)| IdxSpec { copies, keys });
    (
        any::<bool>(),
        (0u8..8, any::<u32>(), 0u32..8),
        1usize..=7,
        prop::collection::vec(0u8..METHODS.len() as u8, 7),
        any::<bool>(),
        prop::collection::vec(idx_spec, 7),
        prop::collection::vec((0u8..10, 0u8..7, any::<u16>()), 0..6),
        (0u8..3, any::<u16>()),
        (0u8..4, any::<u16>()),
        (
            0u8..6,
            prop::collection::vec(0u8..4, 24),
            // long waits: (how many: 0..=4 none, 5..=6 one, 7 two; (position key, duration selector) each)
            (0u8..8, prop::collection::vec((any::<u16>(), 0u8..LONG_WAITS.len() as u8), 2)),
        ),
        (
            0u8..8,
            0u8..12,
            prop::collection::vec((any::<u16>(), 0u8..3, 0u8..3, any::<bool>()), 2),
            0u8..6,
            0u8..3,
            // re-INVITEs and refused answers: (re-INVITE selector, which request, refusal selector, which requests,
            // peer never ACKs, roster override selector)
            (0u8..8, any::<u16>(), 0u8..8, any::<[u16; 2]>(), any::<bool>(), 0u8..4),
        ),
        any::<u8>(),
    )
        .prop_map(
            |(uas, (start_sel, rnd, small), n, methods, observer, specs, extras, drop, ack0, (ysel, joins, (long_sel, long_specs)), usage_sel, rng)| {
                let (act_sel, roster_sel, act_specs, looker_ysel, ext_usage, unwanted) = usage_sel;
                let (inv_sel, inv_key, refuse_sel, refuse_keys, no_ack, only_lookers) = unwanted;
                // one case in four has a re-INVITE among its requests, one in four an answer the transport refuses
                let with_invite = inv_sel >= 6;
                let refused = match refuse_sel {
                    0..=5 => 0usize,
                    6 => 1,
                    _ => 2,
                };
                // half of the cases keep the legacy roster ([observer?], taker)
                let roster: Vec<bool> = match roster_sel {
                    // (a request that nobody takes needs a roster without a taking usage - or an ended one: three
                    // in four of the cases with a re-INVITE / a refused answer get such a roster)
                    _ if (with_invite || refused > 0) && only_lookers != 0 => {
                        if roster_sel % 2 == 0 {
                            vec![false]
                        } else {
                            vec![false, false]
                        }
                    }
                    0..=5 => vec![],
                    6 | 7 => vec![false, false],
                    8 | 9 => vec![false, false, true],
                    10 => vec![false, false, false],
                    _ => vec![false],
                };
                let observer = observer && roster.is_empty();
                let usages: Vec<bool> = if roster.is_empty() {
                    if observer {
                        vec![false, true]
                    } else {
                        vec![true]
                    }
                } else {
                    roster.clone()
                };
                let m = usages.len();
                let role = if uas { Role::Uas } else { Role::Uac };
                let top = u32::MAX - n as u32;
                let k = match start_sel {
                    0 | 1 => {
                        if uas {
                            1
                        } else {
                            0
                        }
                    }
                    2 | 3 => rnd.min(top),
                    // the last request carries u32::MAX (small = 0) or a number just below
                    4 | 5 => top - if start_sel == 5 { small } else { 0 },
                    // around 2^31 (RFC 3261 sec. 8.1.1.5 limit; ezk stores u32)
                    _ => (1u32 << 31) - 4 + small,
                };
                // keyed events, sorted by key (ties: generation order) = arrival order
                let mut keyed: Vec<(u16, usize, Ev)> = vec![];
                let mut seq = 0usize;
                let mut push = |key: u16, ev: Ev, keyed: &mut Vec<(u16, usize, Ev)>| {
                    keyed.push((key, seq, ev));
                    seq += 1;
                };
                for (idx, spec) in specs.iter().take(n).enumerate() {
                    let idx = idx as u8;
                    let gens: &[u8] = match spec.copies {
                        0 | 1 => &[],            // never arrives: a gap stays open
                        2..=9 => &[0],           // once
                        10..=12 => &[0, 0],      // retransmission
                        13..=14 => &[0, 1],      // re-sent with a new branch
                        _ => &[0, 0, 1],
                    };
                    for (j, g) in gens.iter().enumerate() {
                        push(spec.keys[j], Ev::Req { idx, gen: *g }, &mut keyed);
                    }
                }
                for (j, (kind, idx, key)) in extras.iter().enumerate() {
                    let idx = (*idx).min(n as u8 - 1);
                    let id = j as u8 + 1;
                    let near = |kind| Ev::Near { kind, idx, id };
                    let ev = match kind {
                        0 => near(Near::CallId),
                        1 => near(Near::FromTag),
                        2 => near(Near::ToTag),
                        3 => near(Near::NoToTag),
                        4 => near(Near::NoFromTag),
                        5 => near(Near::Swapped),
                        6 | 7 => {
                            if uas {
                                Ev::Ack { id }
                            } else {
                                near(Near::NoToTag)
                            }
                        }
                        _ => Ev::Wait {
                            ms: [1u32, 20, 500, 700][(*key & 3) as usize],
                        },
                    };
                    push(*key, ev, &mut keyed);
                }
                // three cases in eight: one or two long waits somewhere in the script (while requests are held, before
                // the first arrival, after the last one, ...)
                for (key, dur) in long_specs.iter().take(match long_sel { 0..=4 => 0, 5 | 6 => 1, _ => 2 }) {
                    push(*key, Ev::Wait { ms: LONG_WAITS[*dur as usize] }, &mut keyed);
                }
                if drop.0 == 2 {
                    // the application drops one usage's guard between two events
                    let u = (ext_usage as usize).min(m - 1);
                    let ev = if roster.is_empty() && usages[u] { Ev::DropGuard } else { Ev::DropGuardOf { usage: u as u8 } };
                    push(drop.1, ev, &mut keyed);
                }
                if uas && ack0.0 != 0 {
                    // usually the ACK is the first thing that follows the 200; sometimes it is late or lost
                    push(if ack0.0 == 1 { ack0.1 } else { 0 }, Ev::Ack { id: 0 }, &mut keyed);
                }
                keyed.sort_by_key(|(k, s, _)| (*k, *s));
                // back-to-back arrivals: a Join between two neighbouring arrivals, one time in four
                let mut events: Vec<Ev> = vec![];
                for (i, (_, _, e)) in keyed.into_iter().enumerate() {
                    if events.last().map_or(false, |l| l.is_arrival())
                        && e.is_arrival()
                        && joins.get(i).copied() == Some(3)
                    {
                        events.push(Ev::Join);
                    }
                    events.push(e);
                }
                let mut case = Case {
                    role,
                    k,
                    methods: methods.into_iter().take(n).collect(),
                    observer,
                    usage_yields: ysel.saturating_sub(2),
                    drop_on: None,
                    roster,
                    acts: vec![],
                    looker_yields: 0,
                    fail_answer: vec![],
                    no_ack: false,
                    events,
                    rng,
                };
                // one case in four: one or two guard drops inside `receive`, each tied to a request that arrives
                // exactly once and is handed on by the model (such scripts have no back-to-back arrivals)
                if act_sel >= 6 {
                    let cand = case.act_candidates();
                    if !cand.is_empty() {
                        for (sel, actor, target, late) in act_specs.iter().take(act_sel as usize - 5) {
                            case.acts.push(Act {
                                on: cand[pick_idx(*sel, cand.len())],
                                actor: (*actor).min(m as u8 - 1),
                                target: (*target).min(m as u8 - 1),
                                late: *late,
                            });
                        }
                        case.events.retain(|e| *e != Ev::Join);
                    }
                }
                if with_invite {
                    case.methods[pick_idx(inv_key, n)] = M_INVITE;
                    case.no_ack = no_ack;
                }
                for key in refuse_keys.iter().take(refused) {
                    let idx = pick_idx(*key, n) as u8;
                    if !case.fail_answer.contains(&idx) {
                        case.fail_answer.push(idx);
                    }
                }
                let special = case.special();
                if !special.is_empty() {
                    // such a request arrives at most once (only its first copy is kept); no back-to-back arrivals
                    let mut seen: BTreeSet<u8> = BTreeSet::new();
                    case.events.retain(|e| match e {
                        Ev::Req { idx, .. } if special.contains(idx) => seen.insert(*idx),
                        Ev::Join => false,
                        _ => true,
                    });
                    // an in-receive drop stays tied to a request that the model hands on
                    let cand = case.act_candidates();
                    case.acts.retain(|a| cand.contains(&a.on));
                    // nothing is released while a list is stuck behind an un-ACKed answer: else the peer ACKs
                    if case.no_ack && plan(&case).overlap_blocked {
                        case.no_ack = false;
                    }
                    // a script with a peer that never ACKs stays far below 64*T1: its long waits become short ones
                    if case.no_ack {
                        for e in case.events.iter_mut() {
                            if let Ev::Wait { ms } = e {
                                *ms = (*ms).min(700);
                            }
                        }
                    }
                }
                // a copy of a request follows the first one within COPY_WINDOW_MS: later copies do not arrive
                let late = case.late_copies();
                if !late.is_empty() {
                    let mut i = 0;
                    case.events.retain(|_| {
                        i += 1;
                        !late.contains(&(i - 1))
                    });
                    // (a Join needs an arrival on both sides; an in-receive drop a request that arrives exactly once
                    // - a request that loses a copy may now be one, never the other way round)
                    let ev = case.events.clone();
                    let mut i = 0;
                    case.events.retain(|e| {
                        i += 1;
                        *e != Ev::Join || (i >= 2 && i < ev.len() && ev[i - 2].is_arrival() && ev[i].is_arrival())
                    });
                }
                if !case.has_join() {
                    case.looker_yields = looker_ysel.saturating_sub(3);
                }
                case
            },
        )
        .boxed()
}

// ------------------------------------------------------------------------------------------------
// the world: recording usage, catch-all layer, run

#[derive(Debug, Clone)]
pub struct Rec {
    /// position in the world's single sequence of "receive entered" / "guard dropped" happenings
    pub seq: usize,
    pub step: usize,
    pub t_ms: u64,
    pub cseq: u32,
    pub method: String,
    pub marker: String,
}

#[derive(Clone)]
struct Tape {
    clock: Clock,
    step: Arc<AtomicUsize>,
    seq: Arc<AtomicUsize>,
    recs: Arc<Mutex<Vec<Rec>>>,
}

impl Tape {
    fn new(clock: Clock, step: &Arc<AtomicUsize>, seq: &Arc<AtomicUsize>) -> Self {
        Self {
            clock,
            step: step.clone(),
            seq: seq.clone(),
            recs: Default::default(),
        }
    }
    fn note(&self, req: &IncomingRequest) {
        let marker = req
            .headers
            .iter()
            .find(|(n, _)| n.as_print_str().eq_ignore_ascii_case("x-seq"))
            .map(|(_, v)| v.to_string())
            .unwrap_or_default();
        self.recs.lock().push(Rec {
            seq: self.seq.fetch_add(1, Ordering::Relaxed),
            step: self.step.load(Ordering::Relaxed),
            t_ms: self.clock.now_ms(),
            cseq: req.base_headers.cseq.cseq,
            method: req.line.method.to_string(),
            marker,
        });
    }
    fn snapshot(&self) -> Vec<Rec> {
        self.recs.lock().clone()
    }
}

/// the guards of the dialog's usages and the record of when each one was dropped
struct Ctl {
    guards: Mutex<Vec<Option<UsageGuard>>>,
    /// (usage, sequence number of the drop)
    drops: Mutex<Vec<(usize, usize)>>,
    seq: Arc<AtomicUsize>,
}

impl Ctl {
    /// drop the guard of usage `target` (no effect when it is gone already)
    fn drop_guard(&self, target: usize) -> bool {
        let g = self.guards.lock().get_mut(target).and_then(|g| g.take());
        match g {
            Some(g) => {
                self.drops.lock().push((target, self.seq.fetch_add(1, Ordering::Relaxed)));
                drop(g);
                true
            }
            None => false,
        }
    }
}

/// One usage of the dialog. Records what it is offered; a taking usage takes every request and answers 200
/// through a server transaction, a looking one leaves it. While it handles the request whose marker starts
/// with an act's prefix it drops the guard of the act's target usage.
struct ScriptedUsage {
    takes: bool,
    /// scheduling points inside `receive` (after the request was looked at / taken, before it is answered)
    yields: u8,
    tape: Tape,
    /// (marker prefix of the request, target usage, late)
    acts: Vec<(String, usize, bool)>,
    ctl: Arc<Ctl>,
}

#[async_trait::async_trait]
impl Usage for ScriptedUsage {
    fn name(&self) -> &'static str {
        if self.takes {
            "c10-taking"
        } else {
            "c10-observing"
        }
    }
    async fn receive(&self, endpoint: &Endpoint, request: MayTake<'_, IncomingRequest>) {
        self.tape.note(&request);
        let mine: Vec<(usize, bool)> = self
            .acts
            .iter()
            .filter(|(prefix, _, _)| {
                request.headers.iter().any(|(n, v)| n.as_print_str().eq_ignore_ascii_case("x-seq") && v.starts_with(prefix.as_str()))
            })
            .map(|(_, t, late)| (*t, *late))
            .collect();
        for (t, _) in mine.iter().filter(|(_, late)| !*late) {
            self.ctl.drop_guard(*t);
        }
        if !self.takes {
            drop(request);
            for _ in 0..self.yields {
                tokio::task::yield_now().await;
            }
            for (t, _) in mine.iter().filter(|(_, late)| *late) {
                self.ctl.drop_guard(*t);
            }
            return;
        }
        let mut req = request.take();
        for _ in 0..self.yields {
            tokio::task::yield_now().await;
        }
        for (t, _) in mine.iter().filter(|(_, late)| *late) {
            self.ctl.drop_guard(*t);
        }
        if req.line.method == Method::ACK {
            return; // an ACK is consumed
        }
        let response = endpoint.create_response(&req, Code::OK, None);
        if req.line.method == Method::INVITE {
            // a re-INVITE is accepted (the peer's ACK for the 2xx is not part of the script)
            let tsx = endpoint.create_server_inv_tsx(&mut req);
            let _ = tsx.respond_success(response).await;
            return;
        }
        let tsx = endpoint.create_server_tsx(&mut req);
        let _ = tsx.respond(response).await;
    }
}

/// layer behind the DialogLayer: whatever arrives here was not intercepted
struct CatchAll {
    tape: Tape,
    tx: mpsc::UnboundedSender<IncomingRequest>,
}

#[async_trait::async_trait]
impl Layer for CatchAll {
    fn name(&self) -> &'static str {
        "c10-catch-all"
    }
    async fn receive(&self, endpoint: &Endpoint, request: MayTake<'_, IncomingRequest>) {
        self.tape.note(&request);
        let mut req = request.take();
        match req.line.method {
            Method::INVITE => {
                let _ = self.tx.send(req);
            }
            Method::ACK => {}
            _ => {
                let response =
                    endpoint.create_response(&req, Code::CALL_OR_TRANSACTION_DOES_NOT_EXIST, None);
                let tsx = endpoint.create_server_tsx(&mut req);
                let _ = tsx.respond(response).await;
            }
        }
    }
}

#[derive(Debug, Clone)]
pub struct WireRec {
    pub step: usize,
    pub status: u16,
    pub marker: String,
    pub cseq: u32,
    /// method of the CSeq header
    pub method: String,
    /// the transport refused to send it (nothing reached the wire)
    pub failed: bool,
}

/// The world's datagram transport with a send-fault plan: every final response (>= 200) whose top Via branch
/// belongs to a request listed in `fail_prefixes` is refused with an io::Error. Every attempt to send a final
/// response (refused or not, retransmissions included) is recorded in the order of the calls, read with the
/// independent wire reader.
struct FaultyTp {
    inner: TpHandle,
    fail_prefixes: Vec<String>,
    step: Arc<AtomicUsize>,
    attempts: Arc<Mutex<Vec<WireRec>>>,
}

impl std::fmt::Debug for FaultyTp {
    fn fmt(&self, f: &mut std::fmt::Formatter<'_>) -> std::fmt::Result {
        write!(f, "FaultyTp({:?})", self.inner)
    }
}
impl std::fmt::Display for FaultyTp {
    fn fmt(&self, f: &mut std::fmt::Formatter<'_>) -> std::fmt::Result {
        write!(f, "{}", &*self.inner)
    }
}

#[async_trait::async_trait]
impl Transport for FaultyTp {
    fn name(&self) -> &'static str {
        self.inner.name()
    }
    fn secure(&self) -> bool {
        self.inner.secure()
    }
    fn reliable(&self) -> bool {
        self.inner.reliable()
    }
    fn bound(&self) -> SocketAddr {
        self.inner.bound()
    }
    fn sent_by(&self) -> SocketAddr {
        self.inner.sent_by()
    }
    fn direction(&self) -> Direction {
        self.inner.direction()
    }
    async fn send(&self, message: &[u8], target: SocketAddr) -> std::io::Result<()> {
        let mut refuse = false;
        if let Some(m) = WireMsg::parse(message) {
            if let (Some(status), Some(branch)) = (m.status(), m.via_branch()) {
                if let (true, Some(marker)) = (status >= 200, branch.strip_prefix(BRANCH_PREFIX)) {
                    refuse = self.fail_prefixes.iter().any(|p| marker.starts_with(p.as_str()));
                    let (cseq, method) = m.cseq().unwrap_or((0, String::new()));
                    self.attempts.lock().push(WireRec {
                        step: self.step.load(Ordering::Relaxed),
                        status,
                        marker: marker.to_string(),
                        cseq,
                        method,
                        failed: refuse,
                    });
                }
            }
        }
        if refuse {
            return Err(std::io::Error::new(std::io::ErrorKind::ConnectionRefused, "c10: transport refuses this answer"));
        }
        self.inner.send(message, target).await
    }
}

#[derive(Debug, Default)]
pub struct Observed {
    pub problems: Vec<(String, String)>,
    /// what each usage was offered (by position in registration order)
    pub views: Vec<Vec<Rec>>,
    /// (usage, sequence number) of every guard drop of the script (application side or inside `receive`)
    pub drops: Vec<(usize, usize)>,
    pub catchall: Vec<Rec>,
    /// first attempt to send each final response (by the step of the attempt; `failed` = the transport
    /// refused it and nothing reached the wire)
    pub finals: Vec<WireRec>,
    /// markers of the re-INVITEs whose 3xx-6xx answer the peer has ACKed
    pub acked: Vec<String>,
    pub backlog_end: usize,
    /// (event index, registered usages right after it) for every application-side guard drop
    pub usage_counts: Vec<(usize, usize)>,
    /// registered usages when the script has ended
    pub usages_end: usize,
    pub late_step: usize,
}

const PEER: &str = "192.0.2.9:5060";
const PEER_TAG: &str = "c10peertag";

struct Ids {
    call_id: String,
    local_tag: String,
}

fn peer_request(
    case: &Case,
    ids: &Ids,
    method: &str,
    cseq: u32,
    marker: &str,
    near: Option<Near>,
) -> Vec<u8> {
    let mut call_id = ids.call_id.clone();
    let mut from_tag = Some(PEER_TAG.to_string());
    let mut to_tag = Some(ids.local_tag.clone());
    match near {
        None => {}
        Some(Near::CallId) => call_id.push('x'),
        Some(Near::FromTag) => from_tag = Some(format!("{PEER_TAG}x")),
        Some(Near::ToTag) => to_tag = Some(format!("{}x", ids.local_tag)),
        Some(Near::NoToTag) => to_tag = None,
        Some(Near::NoFromTag) => from_tag = None,
        Some(Near::Swapped) => std::mem::swap(&mut from_tag, &mut to_tag),
    }
    let with_tag = |uri: &str, tag: &Option<String>| match tag {
        Some(t) => format!("<{uri}>;tag={t}"),
        None => format!("<{uri}>"),
    };
    let _ = case;
    request_text(
        method,
        "sip:ezk@10.0.0.1:5060",
        &[format!("SIP/2.0/UDP {PEER};branch={BRANCH_PREFIX}{marker}")],
        &with_tag("sip:peer@192.0.2.9:5060", &from_tag),
        &with_tag("sip:ezk@10.0.0.1:5060", &to_tag),
        &call_id,
        cseq,
        method,
        &[format!("X-Seq: {marker}")],
        b"",
    )
}

pub fn run(case: &Case) -> Observed {
    let case = case.clone();
    run_world(case.rng as u64, |clock| async move {
        let mut obs = Observed::default();
        let log = WireLog::new(clock);
        let (plain_tp, _) = mock_datagram(&log, "UDP", false, false, "10.0.0.1:5060");
        let step = Arc::new(AtomicUsize::new(0));
        let attempts: Arc<Mutex<Vec<WireRec>>> = Default::default();
        let tp = TpHandle::new(FaultyTp {
            inner: plain_tp,
            fail_prefixes: case.fail_answer.iter().map(|i| format!("r{i}g")).collect(),
            step: step.clone(),
            attempts: attempts.clone(),
        });
        let seq = Arc::new(AtomicUsize::new(0));
        let usages = case.usages();
        let tapes: Vec<Tape> = usages.iter().map(|_| Tape::new(clock, &step, &seq)).collect();
        let catch_tape = Tape::new(clock, &step, &seq);
        let (tx, mut rx) = mpsc::unbounded_channel();
        let mut b = offline_builder();
        let dkey = b.add_layer(DialogLayer::default());
        // capabilities as an application with an invite layer announces them (Dialog::create_response
        // prints the Allow / Supported lists into a 2xx and cannot print an empty list)
        for m in [Method::INVITE, Method::ACK, Method::BYE, Method::CANCEL, Method::OPTIONS, Method::INFO, Method::UPDATE] {
            b.add_allow(m);
        }
        b.add_supported("timer");
        b.add_layer(CatchAll {
            tape: catch_tape.clone(),
            tx,
        });
        let endpoint = b.build();
        let peer: SocketAddr = PEER.parse().unwrap();
        let local_uri: SipUri = "sip:ezk@10.0.0.1:5060".parse().unwrap();
        let local_contact = Contact::new(NameAddr::uri(local_uri.clone()));

        // ---- step 0: create the dialog
        let mut keep_accepted = None;
        let mut keep_client_tsx = None;
        let mut keep_invite = None;
        let (dialog, ids): (Dialog, Ids) = match case.role {
            Role::Uas => {
                let call_id = "c10-call@192.0.2.9".to_string();
                let inv = request_text(
                    "INVITE",
                    "sip:ezk@10.0.0.1:5060",
                    &[format!("SIP/2.0/UDP {PEER};branch={BRANCH_PREFIX}invite")],
                    &format!("<sip:peer@192.0.2.9:5060>;tag={PEER_TAG}"),
                    "<sip:ezk@10.0.0.1:5060>",
                    &call_id,
                    case.k,
                    "INVITE",
                    &[
                        "Contact: <sip:peer@192.0.2.9:5060>".to_string(),
                        "X-Seq: invite".to_string(),
                    ],
                    b"",
                );
                inject(&endpoint, &tp, peer, &inv);
                settle().await;
                let Ok(mut invite) = rx.try_recv() else {
                    obs.problems.push(("invite-not-offered".into(), "the dialog-creating INVITE did not reach the layer behind the DialogLayer".into()));
                    return obs;
                };
                let dialog = match Dialog::new_server(endpoint.clone(), dkey, &invite, local_contact) {
                    Ok(d) => d,
                    Err(e) => {
                        obs.problems.push(("new-server".into(), format!("Dialog::new_server failed: {e}")));
                        return obs;
                    }
                };
                let response = match dialog.create_response(&invite, Code::OK, None) {
                    Ok(r) => r,
                    Err(e) => {
                        obs.problems.push(("create-response".into(), format!("create_response failed: {e}")));
                        return obs;
                    }
                };
                let tsx = endpoint.create_server_inv_tsx(&mut invite);
                match tsx.respond_success(response).await {
                    Ok(acc) => keep_accepted = Some(acc),
                    Err(e) => {
                        obs.problems.push(("respond-success".into(), format!("respond_success failed: {e}")));
                        return obs;
                    }
                }
                keep_invite = Some(invite);
                settle().await;
                let ok = log
                    .parsed()
                    .into_iter()
                    .filter_map(|(_, m)| m)
                    .find(|m| m.status() == Some(200));
                let Some(local_tag) = ok.and_then(|m| m.to_tag()) else {
                    obs.problems.push(("no-local-tag".into(), "no 200 with a To-tag on the wire".into()));
                    return obs;
                };
                (dialog, Ids { call_id, local_tag })
            }
            Role::Uac => {
                let target: SipUri = "sip:peer@192.0.2.9:5060".parse().unwrap();
                let mut builder = ClientDialogBuilder::new(
                    endpoint.clone(),
                    dkey,
                    NameAddr::uri(local_uri.clone()),
                    local_contact,
                    Box::new(target),
                );
                let request = builder.create_request(Method::INVITE);
                let mut target_info = TargetTransportInfo {
                    via_host_port: None,
                    transport: Some((tp.clone(), peer)),
                };
                let mut tsx = match endpoint.send_invite(request, &mut target_info).await {
                    Ok(t) => t,
                    Err(e) => {
                        obs.problems.push(("send-invite".into(), format!("send_invite failed: {e}")));
                        return obs;
                    }
                };
                settle().await;
                let inv = log
                    .parsed()
                    .into_iter()
                    .filter_map(|(_, m)| m)
                    .find(|m| m.method() == Some("INVITE"));
                let Some(inv) = inv else {
                    obs.problems.push(("no-invite".into(), "no INVITE on the wire".into()));
                    return obs;
                };
                let (Some(call_id), Some(local_tag)) = (inv.call_id().map(|s| s.to_string()), inv.from_tag()) else {
                    obs.problems.push(("invite-ids".into(), "INVITE without Call-ID / From-tag".into()));
                    return obs;
                };
                let ok = response_text(
                    &inv,
                    200,
                    Some(PEER_TAG),
                    &["Contact: <sip:peer@192.0.2.9:5060>".to_string()],
                );
                inject(&endpoint, &tp, peer, &ok);
                settle().await;
                let response = match tsx.receive().await {
                    Ok(Some(r)) if r.line.code.into_u16() == 200 => r,
                    Ok(Some(r)) => {
                        obs.problems.push(("no-200".into(), format!("client transaction yielded status {}", r.line.code.into_u16())));
                        return obs;
                    }
                    Ok(None) => {
                        obs.problems.push(("no-200".into(), "client transaction ended without a response".into()));
                        return obs;
                    }
                    Err(e) => {
                        obs.problems.push(("no-200".into(), format!("client transaction failed: {e}")));
                        return obs;
                    }
                };
                let dialog = match builder.create_dialog_from_response(&response) {
                    Ok(d) => d,
                    Err(e) => {
                        obs.problems.push(("create-dialog".into(), format!("create_dialog_from_response failed: {e}")));
                        return obs;
                    }
                };
                keep_client_tsx = Some(tsx);
                (dialog, Ids { call_id, local_tag })
            }
        };
        let ctl = Arc::new(Ctl {
            guards: Mutex::new(vec![]),
            drops: Default::default(),
            seq: seq.clone(),
        });
        let acts = case.all_acts();
        for (u, takes) in usages.iter().enumerate() {
            let g = dialog.register_usage(ScriptedUsage {
                takes: *takes,
                yields: if *takes { case.usage_yields } else { case.looker_yields },
                tape: tapes[u].clone(),
                acts: acts.iter().filter(|a| a.actor as usize == u).map(|a| (format!("r{}g", a.on), a.target as usize, a.late)).collect(),
                ctl: ctl.clone(),
            });
            ctl.guards.lock().push(Some(g));
        }
        let taker = case.taker();
        settle().await;

        // ---- the script
        for (i, ev) in case.events.iter().enumerate() {
            step.store(i + 1, Ordering::Relaxed);
            match ev {
                Ev::Req { idx, gen } => {
                    let m = method_name(case.methods[*idx as usize]);
                    let bytes = peer_request(&case, &ids, m, case.cseq_of(*idx) as u32, &req_marker(*idx, *gen), None);
                    inject(&endpoint, &tp, peer, &bytes);
                }
                Ev::Near { kind, idx, id } => {
                    let m = METHODS[(*id as usize + *idx as usize) % METHODS.len()];
                    let bytes = peer_request(&case, &ids, m, case.near_cseq(*idx), &near_marker(*id), Some(*kind));
                    inject(&endpoint, &tp, peer, &bytes);
                }
                Ev::Ack { id } => {
                    let bytes = peer_request(&case, &ids, "ACK", case.k, &ack_marker(*id), None);
                    inject(&endpoint, &tp, peer, &bytes);
                }
                Ev::DropGuard | Ev::DropGuardOf { .. } => {
                    let target = match ev {
                        Ev::DropGuardOf { usage } => Some(*usage as usize),
                        _ => taker,
                    };
                    if let Some(t) = target {
                        if ctl.drop_guard(t) {
                            obs.usage_counts.push((i, endpoint[dkey].verif_counts().2));
                        }
                    }
                }
                Ev::Wait { ms } => clock.advance(*ms as u64).await,
                Ev::Join => {}
            }
            // back-to-back arrivals: nothing runs between the two injections
            let joined = *ev == Ev::Join || case.events.get(i + 1) == Some(&Ev::Join);
            if !joined {
                settle().await;
                settle().await;
                // the peer ACKs every 3xx-6xx answer to a re-INVITE as soon as it sees it (unless it never does)
                while !case.no_ack {
                    let todo: Vec<WireRec> = attempts
                        .lock()
                        .iter()
                        .filter(|w| !w.failed && w.status >= 300 && w.method == "INVITE" && w.marker.starts_with('r') && !obs.acked.contains(&w.marker))
                        .cloned()
                        .collect();
                    let Some(w) = todo.first() else { break };
                    obs.acked.push(w.marker.clone());
                    let ack = request_text(
                        "ACK",
                        "sip:ezk@10.0.0.1:5060",
                        &[format!("SIP/2.0/UDP {PEER};branch={BRANCH_PREFIX}{}", w.marker)],
                        &format!("<sip:peer@192.0.2.9:5060>;tag={PEER_TAG}"),
                        &format!("<sip:ezk@10.0.0.1:5060>;tag={}", ids.local_tag),
                        &ids.call_id,
                        w.cseq,
                        "ACK",
                        &[format!("X-Seq: t{}", w.marker)],
                        b"",
                    );
                    inject(&endpoint, &tp, peer, &ack);
                    settle().await;
                    settle().await;
                }
            }
        }
        obs.backlog_end = endpoint[dkey].verif_counts().1;
        obs.usages_end = endpoint[dkey].verif_counts().2;
        // ---- late step: let every transaction run out; nothing may be delivered any more
        obs.late_step = case.events.len() + 1;
        step.store(obs.late_step, Ordering::Relaxed);
        // (a re-INVITE whose default 404 is never ACKed keeps its server transaction for 64*T1, checked on the
        // retransmission raster: 35.5 s)
        clock.advance(33_000 + if case.no_ack { 36_000 * case.invites() as u64 } else { 0 }).await;
        settle().await;
        settle().await;

        obs.views = tapes.iter().map(|t| t.snapshot()).collect();
        obs.drops = ctl.drops.lock().clone();
        obs.catchall = catch_tape.snapshot();
        let mut answered: HashSet<String> = HashSet::new();
        for w in attempts.lock().iter() {
            if answered.insert(w.marker.clone()) {
                // (further attempts are retransmitted responses)
                obs.finals.push(w.clone());
            }
        }
        // (taken out first: dropping a guard locks the dialog table, never while `guards` is locked)
        let guards: Vec<Option<UsageGuard>> = std::mem::take(&mut *ctl.guards.lock());
        drop(guards);
        drop(dialog);
        drop(keep_accepted);
        drop(keep_client_tsx);
        drop(keep_invite);
        obs
    })
}

// ------------------------------------------------------------------------------------------------
// oracle

/// what the views must show for one group of events (a single event, or arrivals joined back to back)
#[derive(Debug, Default, Clone)]
struct Expect {
    /// first / last event index of the group
    first: usize,
    last: usize,
    /// CSeq numbers the dialog's usages must see in this step, in this order
    release: Vec<u64>,
    /// positions in `release` that are the arriving request itself (the others were held before)
    arriving: Vec<usize>,
    /// markers of requests the statement is silent about (CSeq not above the last one handed on)
    optional: Vec<String>,
    /// ACKs that must be passed through
    ack: Vec<String>,
    /// markers that must show up in the layer behind the DialogLayer, in this order
    catchall: Vec<String>,
    /// numbers the model holds before, during or after the group (classification of failures only)
    held: BTreeSet<u64>,
    /// copy of the case's usage_yields (classification of failures only)
    usage_yields: u8,
    /// per usage: was its guard alive when the group began
    live_at_start: Vec<bool>,
    /// per usage: the positions of `release` it must be offered (roster walk)
    offered: Vec<Vec<usize>>,
    /// the positions of `release` no usage takes: they get the stack's default answer
    unclaimed: Vec<usize>,
    /// per usage: the ACKs of the group it must be offered
    ack_for: Vec<Vec<String>>,
    /// no taking usage is registered when the group ends: the default answers on the wire are a view
    taker_gone: bool,
    /// in-receive drops that the walk performs in this group: (actor, target, position in `release`, late)
    fired: Vec<(usize, usize, usize, bool)>,
    /// per position of `release`: an earlier request of the same released list was taken by no usage and the
    /// stack's default answer to it ended with an error (send refused, or re-INVITE answer never ACKed)
    after_err: Vec<bool>,
    /// per position of `release`: the virtual time (sum of the script's waits) between the arrival of the
    /// request and the arrival that released it (0 for the arriving request itself)
    hold_ms: Vec<u64>,
    /// the group of the late step (the requests of a list that was stuck behind an un-ACKed default answer)
    late: bool,
    /// how many requests of the last released list of this group are stuck behind its last request (a re-INVITE
    /// nobody took whose default answer is never ACKed): they follow in the late group
    deferred: usize,
}

impl Expect {
    /// the expectation of one view: only the given positions of `release`, only the given ACKs
    fn restricted(&self, keep: &[usize], acks: Vec<String>) -> Expect {
        let mut xx = self.clone();
        xx.release = keep.iter().map(|p| self.release[*p]).collect();
        xx.arriving = self.arriving.iter().filter_map(|a| keep.iter().position(|p| p == a)).collect();
        xx.after_err = keep.iter().map(|p| self.after_err.get(*p).copied().unwrap_or(false)).collect();
        xx.hold_ms = keep.iter().map(|p| self.hold_ms.get(*p).copied().unwrap_or(0)).collect();
        xx.ack = acks;
        xx
    }
}

struct Plan {
    groups: Vec<Expect>,
    /// CSeq numbers that arrive with more than one branch (out of the statement's domain: accepted either way)
    multi: BTreeSet<u64>,
    gap_at_end: bool,
    inversion: bool,
    duplicate: bool,
    near: bool,
    /// registered usages after each event / when the script has ended
    live_after: Vec<usize>,
    live_end: usize,
    /// a list is released while an earlier one is still stuck behind an un-ACKed default answer to a re-INVITE
    /// (the two deliveries would overlap: not generated)
    overlap_blocked: bool,
}

/// the roster walk for one released request: it is offered to the usages whose guard is alive when it is their
/// turn, in registration order, until one takes it. Returns whether a usage took it.
fn offer(case: &Case, usages: &[bool], acts: &[Act], live: &mut [bool], x: &mut Expect, c: u64, after_err: bool, hold_ms: u64) -> bool {
    let pos = x.release.len();
    x.release.push(c);
    x.after_err.push(after_err);
    x.hold_ms.push(hold_ms);
    for u in 0..usages.len() {
        if !live[u] {
            continue;
        }
        x.offered[u].push(pos);
        for a in acts.iter().filter(|a| a.actor as usize == u && case.cseq_of(a.on) == c) {
            if live[a.target as usize] {
                live[a.target as usize] = false;
                x.fired.push((u, a.target as usize, pos, a.late));
            }
        }
        if usages[u] {
            return true;
        }
    }
    x.unclaimed.push(pos);
    false
}

fn plan(case: &Case) -> Plan {
    let mut model = Reorder::new(match case.role {
        Role::Uas => Some(case.k as u64),
        Role::Uac => None,
    });
    let mut branches: BTreeMap<u64, BTreeSet<u8>> = BTreeMap::new();
    for e in &case.events {
        if let Ev::Req { idx, gen } = e {
            branches.entry(case.cseq_of(*idx)).or_default().insert(*gen);
        }
    }
    let multi: BTreeSet<u64> = branches.iter().filter(|(_, g)| g.len() > 1).map(|(c, _)| *c).collect();
    let mut arrived_cseq: BTreeSet<u64> = BTreeSet::new();
    let mut arrived_branch: BTreeSet<(u8, u8)> = BTreeSet::new();
    let mut first_arrivals: Vec<u64> = vec![];
    // the roster: who takes, whose guard is alive, which in-receive drops are scripted
    let usages = case.usages();
    let m = usages.len();
    let acts = case.all_acts();
    let mut live = vec![true; m];
    let mut p = Plan {
        groups: vec![],
        multi,
        gap_at_end: false,
        inversion: false,
        duplicate: false,
        near: false,
        live_after: vec![],
        live_end: m,
        overlap_blocked: false,
    };
    // the rest of a released list that is stuck behind the default answer to a re-INVITE the peer never ACKs
    let mut stuck: Option<Vec<u64>> = None;
    let mut cur: Option<Expect> = None;
    // virtual time: the sum of the script's waits so far; when each number arrived first
    let mut now_ms = 0u64;
    let mut arrived_at: BTreeMap<u64, u64> = BTreeMap::new();
    for (i, e) in case.events.iter().enumerate() {
        let continues = *e == Ev::Join || (i > 0 && case.events[i - 1] == Ev::Join);
        if !continues {
            if let Some(g) = cur.take() {
                p.groups.push(g);
            }
        }
        let x = cur.get_or_insert_with(|| Expect {
            first: i,
            usage_yields: case.usage_yields,
            live_at_start: live.clone(),
            offered: vec![vec![]; m],
            ack_for: vec![vec![]; m],
            ..Default::default()
        });
        x.last = i;
        x.held.extend(model.held.iter().copied());
        match e {
            Ev::Req { idx, gen } => {
                let c = case.cseq_of(*idx);
                let new_branch = arrived_branch.insert((*idx, *gen));
                if arrived_cseq.insert(c) {
                    first_arrivals.push(c);
                    arrived_at.insert(c, now_ms);
                    match model.arrive(c) {
                        Arrival::Released(list) => {
                            x.arriving.push(x.release.len());
                            // roster walk (`offer`) for each released request, in order. What no usage takes gets
                            // the stack's default answer; the next request of the list follows when that is done:
                            // at once, or - re-INVITE whose 404 the peer never ACKs - when the INVITE server
                            // transaction has given up (the late step).
                            if stuck.as_ref().map_or(false, |rest| !rest.is_empty()) {
                                p.overlap_blocked = true;
                            }
                            let mut after_err = false;
                            let mut list = list.into_iter();
                            while let Some(c) = list.next() {
                                let hold = now_ms - arrived_at.get(&c).copied().unwrap_or(now_ms);
                                let taken = offer(case, &usages, &acts, &mut live, x, c, after_err, hold);
                                if !taken && case.default_answer_errs(c) {
                                    after_err = true;
                                }
                                if !taken && case.default_answer_blocks(c) {
                                    let rest: Vec<u64> = list.collect();
                                    x.deferred = rest.len();
                                    stuck = Some(rest);
                                    break;
                                }
                            }
                        }
                        Arrival::Held => {}
                        Arrival::Lower => x.optional.push(req_marker(*idx, *gen)),
                    }
                } else {
                    p.duplicate = true;
                    if model.is_held(c) {
                        // another copy of a number that waits for a gap: still ahead of the gap, not shown
                    } else if new_branch || p.multi.contains(&c) {
                        // re-sent copy of a number that was already handed on: statement silent
                        x.optional.push(req_marker(*idx, *gen));
                    } else {
                        // retransmission of the only copy: absorbed by its server transaction
                    }
                }
            }
            Ev::Near { id, .. } => {
                p.near = true;
                x.catchall.push(near_marker(*id));
            }
            Ev::Ack { id } => {
                x.ack.push(ack_marker(*id));
                for u in 0..m {
                    if live[u] {
                        x.ack_for[u].push(ack_marker(*id));
                        if usages[u] {
                            break;
                        }
                    }
                }
            }
            Ev::DropGuard => {
                if let Some(t) = case.taker() {
                    live[t] = false;
                }
            }
            Ev::DropGuardOf { usage } => live[*usage as usize] = false,
            Ev::Wait { ms } => now_ms += *ms as u64,
            Ev::Join => {}
        }
        x.held.extend(model.held.iter().copied());
        x.taker_gone = !(0..m).any(|u| live[u] && usages[u]);
        p.live_after.push(live.iter().filter(|l| **l).count());
    }
    p.live_end = live.iter().filter(|l| **l).count();
    if let Some(g) = cur.take() {
        p.groups.push(g);
    }
    if let Some(rest) = stuck.filter(|r| !r.is_empty()) {
        // the late step: the server transaction of the un-ACKed answer gives up, the rest of the list follows
        let n = case.events.len();
        let mut x = Expect {
            first: n,
            last: n,
            usage_yields: case.usage_yields,
            live_at_start: live.clone(),
            offered: vec![vec![]; m],
            ack_for: vec![vec![]; m],
            late: true,
            ..Default::default()
        };
        for c in rest {
            let hold = now_ms - arrived_at.get(&c).copied().unwrap_or(now_ms);
            offer(case, &usages, &acts, &mut live, &mut x, c, true, hold);
        }
        x.taker_gone = !(0..m).any(|u| live[u] && usages[u]);
        p.groups.push(x);
    }
    p.gap_at_end = !model.held.is_empty();
    p.inversion = first_arrivals.windows(2).any(|w| w[0] > w[1]);
    p
}

/// compare what one view saw in one group with the expectation; the first divergence is returned.
///
/// * a marker is never shown twice;
/// * every CSeq of `release` that arrives with a single branch is shown exactly once, in the order of
///   `release`; nothing else of that kind is shown (unless listed in `optional`);
/// * a CSeq that arrives with several branches (outside "consecutive CSeq numbers") must be shown at least
///   once when it is in `release`, and no copy may be shown while the number is still held; the position
///   of such copies is not asserted;
/// * every ACK of the group is shown.
fn match_view(
    seen: &[(u64, String)],
    x: &Expect,
    multi: &BTreeSet<u64>,
    seen_before: &HashSet<String>,
) -> Option<(&'static str, String)> {
    let yields = x.usage_yields;
    let describe = |what: String| {
        format!("{what}; shown {:?}, expected: release {:?} optional {:?} ack {:?}", seen, x.release, x.optional, x.ack)
    };
    // the single-branch numbers of the release list, in order
    let singles: Vec<u64> = x.release.iter().copied().filter(|c| !multi.contains(c)).collect();
    let mut next_single = 0usize;
    let mut multi_shown: BTreeSet<u64> = BTreeSet::new();
    let mut ack_used: HashSet<&str> = HashSet::new();
    let mut here: HashSet<&str> = HashSet::new();
    for (cseq, marker) in seen {
        let m = marker.as_str();
        if seen_before.contains(marker) || !here.insert(m) {
            return Some(("once/shown-twice", describe(format!("request {marker} (CSeq {cseq}) was shown a second time"))));
        }
        if x.ack.iter().any(|a| a == m) {
            ack_used.insert(m);
            continue;
        }
        let is_req = marker.starts_with('r');
        if is_req && multi.contains(cseq) {
            if x.release.contains(cseq) {
                multi_shown.insert(*cseq);
                continue;
            }
            if x.optional.iter().any(|o| o == m) {
                continue;
            }
        } else if is_req {
            if singles.get(next_single) == Some(cseq) {
                next_single += 1;
                continue;
            }
            if x.optional.iter().any(|o| o == m) {
                continue;
            }
        }
        let locus = if !is_req {
            "match/foreign-request-shown"
        } else if x.release.contains(cseq) {
            // Narrow class "overlapping arrivals": nothing is lost, and the list each single arrival released is
            // shown in its own order - only the lists of *different* arrivals of one burst are interleaved
            // (what concurrent receive tasks produce). Anything else (a request missing, one arrival's own
            // list out of order) is not this class.
            let shown: Vec<u64> = seen.iter().filter(|(_, m)| m.starts_with('r')).map(|(c, _)| *c).collect();
            let mut bounds: Vec<usize> = x.arriving.clone();
            bounds.push(x.release.len());
            let each_list_in_order = bounds.windows(2).all(|w| {
                // the arrival's own list is a subsequence of what was shown
                let mut it = shown.iter();
                x.release[w[0]..w[1]].iter().all(|c| it.any(|s| s == c))
            });
            if x.last > x.first && x.arriving.len() >= 2 && each_list_in_order && yields > 0 {
                // only reachable when arrivals overlap (back-to-back arrivals and a usage that yields)
                "order/overlapping-arrivals-interleaved"
            } else {
                "order/not-increasing"
            }
        } else if x.held.contains(cseq) {
            "order/shown-ahead-of-gap"
        } else {
            "order/unexpected"
        };
        return Some((locus, describe(format!("request {marker} (CSeq {cseq}) shown out of place"))));
    }
    if let Some(a) = x.ack.iter().find(|a| !ack_used.contains(a.as_str())) {
        return Some(("ack/not-passed", describe(format!("ACK {a} with the INVITE's CSeq was not shown"))));
    }
    let missing = x
        .release
        .iter()
        .enumerate()
        .find(|(_, c)| if multi.contains(c) { !multi_shown.contains(c) } else { !singles[..next_single].contains(c) });
    if let Some((i, c)) = missing {
        return Some(if x.after_err.get(i) == Some(&true) {
            (
                "order/not-offered-after-failed-default-answer",
                describe(format!("CSeq {c} was released together with a lower request that no usage took and whose default answer could not be completed (send refused / never ACKed), and was never offered")),
            )
        } else if x.arriving.contains(&i) {
            ("order/in-order-not-shown", describe(format!("CSeq {c} is the next expected number but was not shown in the step it arrived")))
        } else if x.hold_ms.get(i).map_or(false, |h| *h >= LONG_HOLD_MS) {
            (
                "order/held-not-released-after-long-hold",
                describe(format!(
                    "CSeq {c} was held for {} ms (64*T1 or longer) until the gap was filled, and was not released in that step (hold times of the list: {:?})",
                    x.hold_ms[i], x.hold_ms
                )),
            )
        } else {
            ("order/held-not-released", describe(format!("CSeq {c} was held and the gap was filled, but it was not released in that step")))
        });
    }
    None
}

pub fn check(case: &Case, out: &mut CaseOut) {
    if !case.valid() {
        out.class("invalid-case");
        return;
    }
    let pl = plan(case);
    let obs = run(case);

    out.class(if case.role == Role::Uas { "role-uas" } else { "role-uac" });
    if case.k as u64 + case.n() as u64 == u32::MAX as u64 {
        out.class("last-cseq=u32::MAX");
    }
    {
        let usages = case.usages();
        if usages.len() >= 2 {
            out.class("with-observer");
        }
        out.class(match (usages.len(), usages.contains(&true)) {
            (1, true) => "roster: taker",
            (2, true) => "roster: looker, taker",
            (_, true) => "roster: looker, looker, taker",
            (1, false) => "roster: looker",
            (2, false) => "roster: looker, looker",
            (_, false) => "roster: looker, looker, looker",
        });
    }
    for (sig, msg) in &obs.problems {
        out.fail(format!("c10.setup/{sig}"), msg.clone());
    }
    if !obs.problems.is_empty() {
        return;
    }

    // records of the steps lo..=hi (step = event index + 1)
    let in_steps = |recs: &[Rec], lo: usize, hi: usize| -> Vec<(u64, String)> {
        recs.iter().filter(|r| r.step >= lo && r.step <= hi).map(|r| (r.cseq as u64, r.marker.clone())).collect()
    };
    let usages = case.usages();
    let m = usages.len();
    let view_name = |u: usize| format!("usage #{u} ({})", if usages[u] { "taking" } else { "looking" });

    // setup step: nothing but the INVITE (UAS) may have been seen anywhere
    if obs.views.iter().any(|v| !in_steps(v, 0, 0).is_empty()) {
        out.fail("c10.setup/usage-saw-setup", "a usage saw a request before any in-dialog request was sent");
    }

    // when each usage's guard was dropped (position in the world's sequence of entries and drops)
    let drop_seq: Vec<Option<usize>> = (0..m).map(|u| obs.drops.iter().find(|(t, _)| *t == u).map(|(_, s)| *s)).collect();

    let mut diverged = false;
    let mut seen_usage: Vec<HashSet<String>> = vec![HashSet::new(); m];
    let mut seen_default: HashSet<String> = HashSet::new();
    let mut reported: BTreeSet<String> = BTreeSet::new();
    let mut fail_once = |out: &mut CaseOut, sig: String, msg: String| {
        if reported.insert(sig.clone()) {
            out.fail(sig, msg);
        }
    };
    let mut max_release = 0usize;
    let mut optional_shown = 0usize;
    let mut optional_total = 0usize;
    let mut default_404 = 0usize;
    let mut overlap_release = false;

    for x in pl.groups.iter() {
        let (lo, hi) = (x.first + 1, x.last + 1);
        let evs: &[Ev] = if x.late { &[] } else { &case.events[x.first..=x.last] };
        let seen: Vec<Vec<(u64, String)>> = obs.views.iter().map(|v| in_steps(v, lo, hi)).collect();
        let catchall = in_steps(&obs.catchall, lo, hi);
        max_release = max_release.max(x.release.len());
        if x.last > x.first && x.release.len() >= 2 && case.usage_yields > 0 {
            overlap_release = true;
        }

        // -- interception (independent of the ordering state)
        let got_catch: Vec<String> = catchall.iter().map(|(_, m)| m.clone()).collect();
        if got_catch != x.catchall {
            if got_catch.iter().any(|m| m.starts_with('r') || m.starts_with('a')) {
                fail_once(out, "c10.match/in-dialog-not-intercepted".into(), format!("steps {lo}..={hi} {evs:?}: the layer behind the DialogLayer saw {got_catch:?}"));
            } else {
                fail_once(out, "c10.match/other-dialog-intercepted".into(), format!("steps {lo}..={hi} {evs:?}: the layer behind the DialogLayer saw {got_catch:?}, expected {:?}", x.catchall));
            }
        }

        // -- guard: no entry into a usage's `receive` after the drop of its guard. Decided on the recorded
        //    sequence of entries and drops alone (not on the roster walk, not on the offer order).
        let mut stale_inside_group = false;
        for u in 0..m {
            let Some(ds) = drop_seq[u] else { continue };
            let after: Vec<(u32, String)> = obs.views[u]
                .iter()
                .filter(|r| r.step >= lo && r.step <= hi && r.seq > ds)
                .map(|r| (r.cseq, r.marker.clone()))
                .collect();
            if after.is_empty() {
                continue;
            }
            let how = match x.fired.iter().find(|f| f.1 == u) {
                Some((actor, _, pos, late)) if *actor == u => {
                    format!("it dropped its own guard inside receive when it was offered CSeq {}{}", x.release[*pos], if *late { " (after an await)" } else { "" })
                }
                Some((actor, _, pos, late)) => format!(
                    "{} dropped that guard inside receive while it handled CSeq {}{}",
                    view_name(*actor),
                    x.release[*pos],
                    if *late { " (after an await)" } else { "" }
                ),
                None => "the application dropped that guard in an earlier step".to_string(),
            };
            fail_once(
                out,
                "c10.guard/shown-after-drop".into(),
                format!("steps {lo}..={hi} {evs:?}: {} was offered {after:?} after its guard was gone: {how}; all it saw in these steps: {:?}", view_name(u), seen[u]),
            );
            if x.live_at_start[u] {
                // (the same observation would also fail the views of this step: the model has diverged)
                stale_inside_group = true;
            }
        }

        if diverged {
            continue;
        }
        if stale_inside_group {
            diverged = true;
            continue;
        }
        // -- ordering, per view
        let defaults: Vec<(u64, String)> = obs
            .finals
            .iter()
            .filter(|w| w.step >= lo && w.step <= hi && w.marker.starts_with('r') && !(200..300).contains(&w.status))
            .map(|w| (w.cseq as u64, w.marker.clone()))
            .collect();
        let mut views: Vec<(String, &Vec<(u64, String)>, Expect, &mut HashSet<String>)> = vec![];
        for (u, before) in seen_usage.iter_mut().enumerate() {
            // (a usage whose guard was gone before the group began has no view: whatever it saw is reported above)
            if x.live_at_start[u] {
                views.push((view_name(u), &seen[u], x.restricted(&x.offered[u], x.ack_for[u].clone()), before));
            }
        }
        if x.taker_gone {
            // what no usage takes is observed through the stack's default answers (an ACK is never answered)
            default_404 += obs.finals.iter().filter(|w| w.step >= lo && w.step <= hi && w.marker.starts_with('r') && w.status == 404).count();
            views.push(("default answers of the stack (sent, or refused by the transport)".to_string(), &defaults, x.restricted(&x.unclaimed, vec![]), &mut seen_default));
        }
        for (name, seen, xx, before) in views {
            if let Some((locus, msg)) = match_view(seen, &xx, &pl.multi, before) {
                diverged = true;
                fail_once(out, format!("c10.{locus}"), format!("steps {lo}..={hi} {evs:?}, {name}: {msg}"));
            }
            for (_, m) in seen.iter() {
                before.insert(m.clone());
            }
        }
        for o in &x.optional {
            optional_total += 1;
            if seen.iter().flatten().chain(defaults.iter()).any(|(_, m)| m == o) {
                optional_shown += 1;
            }
        }
    }

    // -- late step and end state
    let late = obs.late_step;
    // (with a list stuck behind an un-ACKed default answer the usages' late step is a group of the plan, above)
    let has_late_group = pl.groups.iter().any(|x| x.late);
    let late_seen: Vec<String> = obs
        .views
        .iter()
        .flatten()
        .filter(|_| !has_late_group)
        .chain(obs.catchall.iter())
        .filter(|r| r.step >= late)
        .map(|r| r.marker.clone())
        .collect();
    if !late_seen.is_empty() && !diverged {
        fail_once(out, "c10.end/late-delivery".into(), format!("requests {late_seen:?} were shown only after the script ended"));
    }
    if !diverged && !pl.gap_at_end && obs.backlog_end != 0 {
        fail_once(out, "c10.end/backlog-not-empty".into(), format!("no gap remains but the dialog layer still holds {} requests", obs.backlog_end));
    }
    for (i, u) in &obs.usage_counts {
        let want = pl.live_after[*i];
        if !diverged && *u != want {
            fail_once(out, "c10.guard/usage-not-removed".into(), format!("{u} usages registered after the guard drop of event {i}, expected {want}"));
        }
    }
    if !diverged && obs.usages_end != pl.live_end {
        fail_once(out, "c10.guard/usage-not-removed".into(), format!("{} usages registered when the script ended, expected {}", obs.usages_end, pl.live_end));
    }

    // -- classes / non-triviality
    if pl.inversion {
        out.class("arrival-inversion");
    }
    if max_release >= 2 {
        out.class("gap-filled-releases-held");
    }
    if max_release >= 3 {
        out.class("gap-filled-releases>=2-held");
    }
    if pl.gap_at_end {
        out.class("gap-at-end");
    }
    // time that passes while requests are held
    if case.events.iter().any(|e| matches!(e, Ev::Wait { ms } if *ms as u64 >= 5_000)) {
        out.class("long-wait(>=5s)-in-script");
    }
    let mut long_hold = false;
    for x in pl.groups.iter() {
        let held: Vec<u64> = (0..x.release.len()).filter(|i| !x.arriving.contains(i) || x.late).map(|i| x.hold_ms[i]).collect();
        for h in &held {
            out.class(match *h {
                0..=4_999 => "held-request-released-after <5s",
                5_000..=31_999 => "held-request-released-after 5s..64*T1",
                32_000..=63_999 => "held-request-released-after 64*T1..2*64*T1",
                64_000..=599_999 => "held-request-released-after 2*64*T1..10min",
                _ => "held-request-released-after >=10min",
            });
        }
        if held.iter().any(|h| *h >= LONG_HOLD_MS) {
            long_hold = true;
            if held.iter().any(|h| *h < LONG_HOLD_MS) {
                out.class("release-list-mixes-requests-held-longer-and-shorter-than-64*T1");
            }
            if x.live_at_start.iter().zip(usages.iter()).any(|(l, t)| *l && *t) {
                out.class("long-held-request-released-to-a-taking-usage");
            } else {
                out.class("long-held-request-released-with-no-taking-usage(default answer)");
            }
        }
    }
    if long_hold && pl.duplicate {
        out.class("long-held-request-in-script-with-copies");
    }
    if case.usage_yields > 0 {
        out.class("usage-yields");
    }
    // in-receive guard drops, as the roster walk performs them
    let fired: Vec<(&Expect, &(usize, usize, usize, bool))> = pl.groups.iter().flat_map(|x| x.fired.iter().map(move |f| (x, f))).collect();
    if !case.all_acts().is_empty() && fired.is_empty() {
        out.class("in-receive-drop-scripted-but-never-due");
    }
    for (x, (actor, target, pos, late)) in &fired {
        let taker = usages[*target];
        out.class(match actor.cmp(target) {
            std::cmp::Ordering::Equal if taker => "usage-ends-itself",
            std::cmp::Ordering::Equal => "in-receive-drop: looking usage ends itself",
            // the target has not been offered the current request yet and must not be any more
            std::cmp::Ordering::Less if taker => "in-receive-drop: earlier usage ends the LATER taking usage (current request goes unclaimed)",
            std::cmp::Ordering::Less => "in-receive-drop: earlier usage ends a LATER looking usage (must skip the current request)",
            // the target has already been offered the current request
            std::cmp::Ordering::Greater => "in-receive-drop: later usage ends an EARLIER usage (already offered the current request)",
        });
        if *late {
            out.class("in-receive-drop-after-an-await");
        }
        if actor == target && taker && pos + 1 < x.release.len() {
            out.class("usage-ends-itself-inside-a-release-list");
        }
        if x.release.len() >= 2 {
            out.class(if pos + 1 < x.release.len() {
                "in-receive-drop-inside-a-release-list(not at its end)"
            } else {
                "in-receive-drop-on-the-last-request-of-a-release-list"
            });
        }
    }
    if fired.len() >= 2 {
        out.class("two-in-receive-drops");
    }
    if case.looker_yields > 0 {
        out.class("looking-usage-yields");
    }
    // requests nobody takes, and default answers that cannot be completed
    let mut err_inside_list = false;
    for x in pl.groups.iter() {
        for pos in &x.unclaimed {
            let c = x.release[*pos];
            let idx = case.idx_of(c);
            let inside = pos + 1 < x.release.len() || x.deferred > 0;
            if inside {
                out.class("unclaimed-request-inside-a-release-list(held requests follow)");
            }
            if case.fail_answer.contains(&idx) {
                out.class(if inside { "default-answer-send-refused: held requests follow in the list" } else { "default-answer-send-refused: last/only request of the list" });
            } else if case.is_invite(idx) {
                out.class(match (case.no_ack, inside) {
                    (true, true) => "re-invite-default-404-never-acked: held requests follow in the list (late step)",
                    (true, false) => "re-invite-default-404-never-acked: last/only request of the list",
                    (false, true) => "re-invite-default-404-acked: held requests follow in the list",
                    (false, false) => "re-invite-default-404-acked: last/only request of the list",
                });
            }
            if inside && case.default_answer_errs(c) {
                err_inside_list = true;
            }
        }
    }
    if case.invites() > 0 {
        out.class("re-invite-in-dialog");
    }
    if obs.finals.iter().any(|w| w.failed && (200..300).contains(&w.status)) {
        out.class("answer-of-the-taking-usage-send-refused");
    }
    if !case.fail_answer.is_empty() && !obs.finals.iter().any(|w| w.failed) {
        out.class("send-refusal-scripted-but-never-due");
    }
    if overlap_release {
        out.class("back-to-back-arrivals-with-release-and-yielding-usage");
    }
    let mut branches_seen: BTreeSet<(u8, u8)> = BTreeSet::new();
    let mut idx_seen: BTreeSet<u8> = BTreeSet::new();
    for e in &case.events {
        match e {
            Ev::Req { idx, gen } => {
                if !branches_seen.insert((*idx, *gen)) {
                    out.class("retransmission-same-branch");
                } else if !idx_seen.insert(*idx) {
                    out.class("resent-new-branch");
                }
            }
            Ev::Near { kind, .. } => out.class(match kind {
                Near::CallId => "near-miss-call-id",
                Near::FromTag => "near-miss-from-tag",
                Near::ToTag => "near-miss-to-tag",
                Near::NoToTag => "no-to-tag",
                Near::NoFromTag => "no-from-tag",
                Near::Swapped => "tags-swapped",
            }),
            Ev::Ack { .. } => out.class("ack-with-invite-cseq"),
            Ev::DropGuard => out.class("guard-dropped"),
            Ev::DropGuardOf { usage } => out.class(if usages[*usage as usize] { "guard-dropped" } else { "guard-of-looking-usage-dropped" }),
            Ev::Join => out.class("back-to-back-arrivals"),
            Ev::Wait { .. } => {}
        }
    }
    if pl.groups.iter().any(|x| x.live_at_start.iter().any(|l| !*l) && !x.release.is_empty()) {
        out.class("release-after-guard-drop");
    }
    if default_404 > 0 {
        out.class("default-404-after-drop");
    }
    if optional_total > 0 {
        out.class("lower-cseq(not asserted)");
        if optional_shown > 0 {
            out.class("lower-cseq-forwarded");
        }
        if optional_shown < optional_total {
            out.class("lower-cseq-not-forwarded");
        }
    }
    out.note = Some(format!(
        "usages={:?} drops(usage,seq)={:?} catchall={:?} finals={:?} backlog_end={}",
        obs.views
            .iter()
            .enumerate()
            .map(|(u, v)| format!("#{u}{}: {:?}", if usages[u] { "T" } else { "L" }, v.iter().map(|r| format!("{}:{}@{}#{}", r.step, r.marker, r.cseq, r.seq)).collect::<Vec<_>>()))
            .collect::<Vec<_>>(),
        obs.drops,
        obs.catchall.iter().map(|r| format!("{}:{}", r.step, r.marker)).collect::<Vec<_>>(),
        obs.finals.iter().map(|w| format!("{}:{}={}", w.step, w.marker, w.status)).collect::<Vec<_>>(),
        obs.backlog_end
    ));
    if pl.inversion || pl.duplicate || pl.near || !fired.is_empty() || err_inside_list {
        out.nontrivial(case);
    }
}

pub fn property() -> Property {
    Property {
        fuzz: vec![],
        id: "C10",
        rule: "case = role (UAS: dialog from a peer INVITE via Dialog::new_server; UAC: ClientDialogBuilder + real INVITE client transaction answered 200 by the peer) x start CSeq x n<=7 in-dialog requests with consecutive CSeq k+1..k+n (methods INFO/UPDATE/MESSAGE/BYE/OPTIONS/NOTIFY/REFER, tags and Call-ID as the peer derives them, unique X-Seq marker and branch per copy) in an arrival order, with retransmissions (same branch), re-sent copies (new branch), near-miss requests (Call-ID / From-tag / To-tag differing, no To-tag, no From-tag, tags swapped), ACKs with the INVITE's CSeq, a drop of one usage's guard by the application between two events, short waits (1..700 ms), back-to-back arrivals (no scheduling point in between) and - three scripts in eight - one or two long waits (5 s .. 1 h of virtual time: 5, 17, 31, 31.999, 32.001, 33, 40, 64.5, 100 s, 10 min, 1 h; i.e. requests stay held for less than, about, or far more than 64*T1 = 32 s before the gap is filled; same-branch copies follow the first one within 20 s) interleaved; x roster of 1..3 usages in registration order (0..3 that only look, at most one that takes and answers, registered last) x guard drops INSIDE Usage::receive (usage `actor`, while it handles request `on`, drops the guard of usage `target` = itself / an earlier / a later usage, right after looking or after its awaits); the usages yield 0..3 times inside receive; x answers that go wrong: the transport refuses every send of a final answer to the requests in `fail_answer` (the stack's default 404 for a request nobody took, or the taking usage's 200), a request may be a re-INVITE (method 8 of 8) whose default 404 the peer ACKs at once or never (`no_ack`, INVITE server transaction gives up after 64*T1); such requests arrive at most once, in scripts without back-to-back arrivals. Non-trivial = the first arrivals are not in CSeq order (>=1 inversion), or a CSeq arrives more than once, or a near-miss request is present, or a guard is dropped inside receive, or a request nobody takes whose default answer fails is followed by held requests in its released list; distinct by hash of the case.",
        assumptions: vec![
            "requests with a CSeq not above the last one handed on (re-sent copies, UAC-role numbers below the first arrival) are not asserted either way; they are counted as class lower-cseq",
            "a CSeq that arrives with two different branches is outside 'consecutive CSeq numbers': at least one copy must be shown at the release step, further copies are accepted",
            "same-branch retransmissions arrive within 64*T1 of the original (the server transaction still exists): generated as 'every copy of (request, branch) follows the first one by less than 20 s of virtual time' - the original is then either still held (its pending transaction absorbs the copy) or was answered less than 20 s ago",
            "the statement has no time limit for a held request: it is released when the gap is filled, however much (virtual) time has passed - also when the peer's own transaction for it has timed out long ago (64*T1); time is only the sum of the script's waits (paused clock), it never enters the expectation, only the class labels and the locus of a failure (held-not-released vs held-not-released-after-long-hold)",
            "scripts with a peer that never ACKs a default 404 have no long waits (total below 20 s: the INVITE server transaction must give up in the late step, not inside the script)",
            "after the taking usage's guard is dropped the in-order stream is observed through the non-2xx default answers the stack hands to the transport (sent, or refused by the send-fault plan)",
            "UAC role: the first in-dialog request that arrives defines the expected number (RFC 3261 sec. 12.2.2 empty remote sequence number)",
            "a request counts as offered to a usage at the moment Usage::receive is entered; back-to-back arrivals reach the dialog layer in injection order (single-threaded cooperative schedule, FIFO task queue)",
            "a usage has stopped receiving when its guard's drop has returned: an entry into its receive after that instant (one counter numbers entries and drops) is a violation, whoever dropped the guard - the application between two requests, the usage itself, or another usage of the dialog that is handling the very same request",
            "usages are offered a request in registration order (no usage is registered after a guard was dropped, so the usage table is never re-filled out of order); only the last registered usage takes requests, nothing is asserted about usages behind one that took the request",
            "the requests of one released list are offered one after the other, the next one when the previous one is done (taken by a usage, or answered by the stack's default handling): behind a re-INVITE nobody took whose 404 the peer never ACKs the rest of the list is expected only when the INVITE server transaction has given up (64*T1 on the retransmission raster = 35.5 s, observed in the late step after the script); no list is released while another one is stuck like that (generator restriction: such a script gets a peer that ACKs)",
            "a failed default answer (transport refuses the send / no ACK) is the peer's and the transport's business: it changes nothing about which requests are offered to which usage",
            "re-INVITEs and requests whose answer the transport refuses arrive at most once (their server transaction does not outlive the answer, a copy would be a new request with a CSeq not above the last one handed on)",
            "a guard drop inside receive is tied to a request that arrives exactly once and that the reference model hands on; scripts with such drops have no back-to-back arrivals (the interleaving of overlapping deliveries is the recorded open finding)",
        ],
        explanation: "permutations: every arrival order of n consecutive requests, n<=4 (thorough: n<=5 both roles, n=6 UAS) x both roles x start in {1, crossing 2^31, last=u32::MAX}, plus INVITE CSeq = u32::MAX; guard_drop: every permutation n<=3 (thorough 4) x every drop position x observer x roles; concurrent: every permutation n<=3 (thorough 4) arriving back to back in one or two bursts with a usage that yields; self_drop: every permutation n<=3 (thorough 4) x the taking usage ends itself on each request; usage_drop: rosters {L, LL, LT, LLL, LLT} x every (actor, target) pair x early/late x every permutation n<=3 (thorough 4) x every request the drop can be tied to x both roles, plus every position of an application-side drop of each looking usage's guard; unwanted: every permutation n=2..3 (thorough 4) x both roles x who is left {L, LL, nobody (taker ended), L (taker behind it ended)} x every request j x {answer to j refused by the transport, j = re-INVITE never ACKed, j = re-INVITE ACKed at once, j = re-INVITE and answer refused}; held_long: every permutation n=2..3 (thorough 4) x both roles x roster {T / LT legacy, L, LT} x (one wait of {31 s, 33 s, 70 s, 10 min} at every position between two neighbouring arrivals, or 17 s between every two neighbouring arrivals without / with a retransmission of the first arrival); wide_backlog: w in {63, 64, 65, 66, 100, 200} (thorough also 31..33, 127..129, 255) requests held behind one missing number, arriving ascending / descending / riffled, both roles, then the gap is filled; random: sampled scripts with duplicates, near-misses, gaps left open, ACKs, guard drop of any usage, bursts, rosters, one or two in-receive drops, one case in four with a re-INVITE (ACKed / never ACKed), one in four with one or two refused answers (three in four of those with a roster of looking usages only), three in eight with one or two long waits (5 s .. 1 h) at random positions",
        subs: vec![
            enum_sub("permutations", perm_cases, check),
            enum_sub("guard_drop", drop_cases, check),
            enum_sub("concurrent", concurrent_cases, check),
            enum_sub("self_drop", self_drop_cases, check),
            enum_sub("usage_drop", usage_drop_cases, check),
            enum_sub("unwanted", unwanted_cases, check),
            enum_sub("held_long", held_long_cases, check),
            enum_sub("wide_backlog", wide_backlog_cases, check),
            prop_sub("random", strategy, 3000, 40000, check),
        ],
    }
}
