//! `ref_sip` — a small, independent reader for SIP text, written from RFC 3261 (sections 7, 7.3.1,
//! 7.3.3, 19.1.1, 25.1). It shares no code with ezk and is deliberately *lenient and structural*:
//! it splits, it does not validate. It is used
//!
//! * as the second opinion in the round-trip checks (C01), and
//! * by the simulation to read ezk's wire log (branches, tags, CSeq numbers, header lists).
//!
//! Contents: message splitter (`split_message`), start line (`parse_start_line`), header-name
//! canonicalisation incl. the compact-form table (`canonical_name`), top-level comma splitter
//! (`split_commas`), generic `;name=value` parameter splitter (`split_semi_params`), SIP-URI
//! splitter (`split_uri`), strict percent-decoder (`percent_decode`), name-addr splitter
//! (`split_name_addr`).

use std::fmt;

// ------------------------------------------------------------------------------------------
// message

#[derive(Debug, Clone, PartialEq, Eq)]
pub struct RefMessage {
    /// first line without line end
    pub start_line: String,
    /// header fields in wire order: (name as written, unfolded + trimmed value)
    pub headers: Vec<(String, String)>,
    /// body: `Content-Length` bytes if that header is present and numeric, else everything after the head
    pub body: Vec<u8>,
    /// number of input bytes that belong to this message (head + body)
    pub consumed: usize,
    /// value of the Content-Length header if present and numeric
    pub content_length: Option<usize>,
}

#[derive(Debug, Clone, PartialEq, Eq)]
pub struct RefError(pub String);

impl fmt::Display for RefError {
    fn fmt(&self, f: &mut fmt::Formatter<'_>) -> fmt::Result {
        f.write_str(&self.0)
    }
}

fn err<T>(s: impl Into<String>) -> Result<T, RefError> {
    Err(RefError(s.into()))
}

/// One physical line: returns (line without terminator, index after terminator). Terminator is CRLF or LF.
fn take_line(buf: &[u8], from: usize) -> Option<(&[u8], usize)> {
    let rel = buf[from..].iter().position(|&b| b == b'\n')?;
    let end = from + rel;
    let line_end = if end > from && buf[end - 1] == b'\r' { end - 1 } else { end };
    Some((&buf[from..line_end], end + 1))
}

/// Split one SIP message (request or response) from the beginning of `buf`.
///
/// RFC 3261 section 7: start-line CRLF *(message-header CRLF) CRLF [message-body]; 7.3.1: a header
/// field value may be folded onto several lines when the continuation starts with SP / HTAB
/// (folding is equivalent to a single SP); bare LF is tolerated as line end.
pub fn split_message(buf: &[u8]) -> Result<RefMessage, RefError> {
    let mut pos = 0usize;
    // RFC 3261 7.5: leading CRLFs before the start line are ignored
    loop {
        match take_line(buf, pos) {
            Some((l, next)) if l.is_empty() => pos = next,
            _ => break,
        }
    }
    let Some((start, mut pos)) = take_line(buf, pos) else {
        return err("no complete start line");
    };
    let start_line = String::from_utf8_lossy(start).into_owned();

    let mut logical: Vec<Vec<u8>> = vec![];
    let head_end;
    loop {
        let Some((line, next)) = take_line(buf, pos) else {
            return err("message head not terminated by an empty line");
        };
        pos = next;
        if line.is_empty() {
            head_end = pos;
            break;
        }
        if (line[0] == b' ' || line[0] == b'\t') && !logical.is_empty() {
            // continuation line: unfold to one SP
            let last = logical.last_mut().unwrap();
            while matches!(last.last(), Some(b' ') | Some(b'\t')) {
                last.pop();
            }
            let trimmed: &[u8] = {
                let mut s = line;
                while let [b' ' | b'\t', rest @ ..] = s {
                    s = rest;
                }
                s
            };
            last.push(b' ');
            last.extend_from_slice(trimmed);
        } else {
            logical.push(line.to_vec());
        }
    }

    let mut headers = vec![];
    for l in logical {
        let text = String::from_utf8_lossy(&l).into_owned();
        let Some(colon) = text.find(':') else {
            return err(format!("header line without colon: {text:?}"));
        };
        let name = text[..colon].trim_matches(|c| c == ' ' || c == '\t').to_string();
        let value = text[colon + 1..]
            .trim_matches(|c| c == ' ' || c == '\t' || c == '\r' || c == '\n')
            .to_string();
        headers.push((name, value));
    }

    let content_length = headers
        .iter()
        .find(|(n, _)| canonical_name(n) == "content-length")
        .and_then(|(_, v)| v.trim().parse::<usize>().ok());

    let (body, consumed) = match content_length {
        Some(n) => {
            if buf.len() < head_end + n {
                return err(format!(
                    "body shorter than Content-Length ({} < {})",
                    buf.len() - head_end,
                    n
                ));
            }
            (buf[head_end..head_end + n].to_vec(), head_end + n)
        }
        None => (buf[head_end..].to_vec(), buf.len()),
    };

    Ok(RefMessage {
        start_line,
        headers,
        body,
        consumed,
        content_length,
    })
}

impl RefMessage {
    /// all values (wire order) of the header with this canonical name; comma lists are NOT split
    pub fn values(&self, name: &str) -> Vec<&str> {
        let want = canonical_name(name);
        self.headers
            .iter()
            .filter(|(n, _)| canonical_name(n) == want)
            .map(|(_, v)| v.as_str())
            .collect()
    }

    /// first value of the header
    pub fn first(&self, name: &str) -> Option<&str> {
        self.values(name).into_iter().next()
    }

    /// all values with top-level comma lists split (Via, Route, Contact, Allow, Supported, ...)
    pub fn items(&self, name: &str) -> Vec<String> {
        self.values(name).into_iter().flat_map(split_commas).collect()
    }

    pub fn start(&self) -> Result<StartLine, RefError> {
        parse_start_line(&self.start_line)
    }

    /// distinct canonical header names in order of first appearance
    pub fn names(&self) -> Vec<String> {
        let mut out: Vec<String> = vec![];
        for (n, _) in &self.headers {
            let c = canonical_name(n);
            if !out.contains(&c) {
                out.push(c);
            }
        }
        out
    }
}

/// RFC 3261 section 7.3.3 / 20 and the extension RFCs: compact header forms.
pub const COMPACT_FORMS: &[(&str, &str)] = &[
    ("i", "call-id"),
    ("m", "contact"),
    ("e", "content-encoding"),
    ("l", "content-length"),
    ("c", "content-type"),
    ("f", "from"),
    ("s", "subject"),
    ("k", "supported"),
    ("t", "to"),
    ("v", "via"),
    ("o", "event"),            // RFC 6665
    ("u", "allow-events"),     // RFC 6665
    ("r", "refer-to"),         // RFC 3515
    ("b", "referred-by"),      // RFC 3892
    ("x", "session-expires"),  // RFC 4028
    ("a", "accept-contact"),   // RFC 3841
    ("j", "reject-contact"),   // RFC 3841
    ("d", "request-disposition"), // RFC 3841
    ("y", "identity"),         // RFC 4474
    ("n", "identity-info"),    // RFC 4474
];

/// lower-cased long form of a header name (header names are case-insensitive, RFC 3261 7.3.1)
pub fn canonical_name(name: &str) -> String {
    let lower = name.trim().to_ascii_lowercase();
    for (c, long) in COMPACT_FORMS {
        if lower == *c {
            return (*long).to_string();
        }
    }
    lower
}

// ------------------------------------------------------------------------------------------
// start line

#[derive(Debug, Clone, PartialEq, Eq)]
pub enum StartLine {
    Request {
        method: String,
        uri: String,
        version: String,
    },
    Response {
        version: String,
        code: u16,
        reason: String,
    },
}

/// Request-Line = Method SP Request-URI SP SIP-Version; Status-Line = SIP-Version SP Status-Code SP Reason-Phrase
pub fn parse_start_line(line: &str) -> Result<StartLine, RefError> {
    let line = line.trim_end_matches(['\r', '\n']);
    if line.len() >= 4 && line[..4].eq_ignore_ascii_case("SIP/") {
        let mut it = line.splitn(3, ' ');
        let version = it.next().unwrap_or("").to_string();
        let code_s = it.next().unwrap_or("");
        let Ok(code) = code_s.parse::<u16>() else {
            return err(format!("status code not numeric: {code_s:?}"));
        };
        let reason = it.next().unwrap_or("").to_string();
        Ok(StartLine::Response { version, code, reason })
    } else {
        let Some(sp1) = line.find(' ') else {
            return err("request line without SP");
        };
        let Some(sp2) = line.rfind(' ') else {
            return err("request line without SP");
        };
        if sp2 <= sp1 {
            return err("request line with fewer than three parts");
        }
        Ok(StartLine::Request {
            method: line[..sp1].to_string(),
            uri: line[sp1 + 1..sp2].trim().to_string(),
            version: line[sp2 + 1..].to_string(),
        })
    }
}

// ------------------------------------------------------------------------------------------
// lists and parameters

/// Split at top-level commas: commas inside a quoted string or inside `<...>` do not separate.
/// Items are trimmed; empty items are dropped.
pub fn split_commas(value: &str) -> Vec<String> {
    let mut out = vec![];
    let mut cur = String::new();
    let mut in_q = false;
    let mut in_angle = false;
    let mut esc = false;
    for ch in value.chars() {
        if in_q {
            cur.push(ch);
            if esc {
                esc = false;
            } else if ch == '\\' {
                esc = true;
            } else if ch == '"' {
                in_q = false;
            }
            continue;
        }
        match ch {
            '"' => {
                in_q = true;
                cur.push(ch)
            }
            '<' => {
                in_angle = true;
                cur.push(ch)
            }
            '>' => {
                in_angle = false;
                cur.push(ch)
            }
            ',' if !in_angle => {
                let t = cur.trim();
                if !t.is_empty() {
                    out.push(t.to_string());
                }
                cur.clear();
            }
            _ => cur.push(ch),
        }
    }
    let t = cur.trim();
    if !t.is_empty() {
        out.push(t.to_string());
    }
    out
}

/// Split `first;name=value;flag` at top-level semicolons (not inside quotes or `<...>`).
/// Returns (part before the first ';', raw parameter list). Names/values are trimmed, raw (no unquoting,
/// no unescaping).
pub fn split_semi_params(text: &str) -> (String, Vec<(String, Option<String>)>) {
    let mut parts: Vec<String> = vec![];
    let mut cur = String::new();
    let mut in_q = false;
    let mut in_angle = false;
    let mut esc = false;
    for ch in text.chars() {
        if in_q {
            cur.push(ch);
            if esc {
                esc = false;
            } else if ch == '\\' {
                esc = true;
            } else if ch == '"' {
                in_q = false;
            }
            continue;
        }
        match ch {
            '"' => {
                in_q = true;
                cur.push(ch)
            }
            '<' => {
                in_angle = true;
                cur.push(ch)
            }
            '>' => {
                in_angle = false;
                cur.push(ch)
            }
            ';' if !in_angle => {
                parts.push(std::mem::take(&mut cur));
            }
            _ => cur.push(ch),
        }
    }
    parts.push(cur);
    let mut it = parts.into_iter();
    let first = it.next().unwrap_or_default().trim().to_string();
    let params = it.map(|p| split_pair(p.trim())).collect();
    (first, params)
}

fn split_pair(p: &str) -> (String, Option<String>) {
    match p.find('=') {
        Some(i) => (p[..i].trim().to_string(), Some(p[i + 1..].trim().to_string())),
        None => (p.trim().to_string(), None),
    }
}

/// find a parameter by (ASCII case-insensitive) name in a raw parameter list
pub fn param<'a>(params: &'a [(String, Option<String>)], name: &str) -> Option<&'a (String, Option<String>)> {
    params.iter().find(|(n, _)| n.eq_ignore_ascii_case(name))
}

/// remove one level of double quotes and backslash escapes, if the text is a quoted-string
pub fn unquote(s: &str) -> String {
    let t = s.trim();
    if t.len() >= 2 && t.starts_with('"') && t.ends_with('"') {
        let inner = &t[1..t.len() - 1];
        let mut out = String::new();
        let mut esc = false;
        for ch in inner.chars() {
            if esc {
                out.push(ch);
                esc = false;
            } else if ch == '\\' {
                esc = true;
            } else {
                out.push(ch);
            }
        }
        out
    } else {
        t.to_string()
    }
}

// ------------------------------------------------------------------------------------------
// name-addr

#[derive(Debug, Clone, PartialEq, Eq)]
pub struct RefNameAddr {
    /// display name, raw (including quotes when quoted); None if absent
    pub display: Option<String>,
    /// text between `<` and `>`, or the bare addr-spec
    pub uri: String,
    /// header parameters after the `>` (or after the addr-spec when no brackets are used)
    pub params: Vec<(String, Option<String>)>,
}

/// name-addr / addr-spec with trailing header parameters (From, To, Contact, Route, ...)
pub fn split_name_addr(text: &str) -> Result<RefNameAddr, RefError> {
    let t = text.trim();
    // find the '<' that is not inside a quoted display name
    let mut in_q = false;
    let mut esc = false;
    let mut lt = None;
    for (i, ch) in t.char_indices() {
        if in_q {
            if esc {
                esc = false;
            } else if ch == '\\' {
                esc = true;
            } else if ch == '"' {
                in_q = false;
            }
            continue;
        }
        if ch == '"' {
            in_q = true;
        } else if ch == '<' {
            lt = Some(i);
            break;
        }
    }
    match lt {
        Some(lt) => {
            let Some(gt_rel) = t[lt..].find('>') else {
                return err("'<' without '>'");
            };
            let gt = lt + gt_rel;
            let display = t[..lt].trim();
            let (_, params) = split_semi_params(&t[gt + 1..]);
            Ok(RefNameAddr {
                display: if display.is_empty() { None } else { Some(display.to_string()) },
                uri: t[lt + 1..gt].to_string(),
                params,
            })
        }
        None => {
            // addr-spec form: every ';' belongs to the header (RFC 3261 20.10)
            let (uri, params) = split_semi_params(t);
            Ok(RefNameAddr { display: None, uri, params })
        }
    }
}

// ------------------------------------------------------------------------------------------
// SIP-URI

#[derive(Debug, Clone, PartialEq, Eq)]
pub struct RefUri {
    /// lower-cased scheme without ':'
    pub scheme: String,
    /// raw userinfo (without '@'), None if there is no '@'
    pub userinfo: Option<String>,
    /// raw user (escaped form)
    pub user: Option<String>,
    /// raw password
    pub password: Option<String>,
    /// raw hostport
    pub hostport: String,
    /// host (IPv6 references keep their brackets)
    pub host: String,
    /// raw port text (after ':'), None if absent
    pub port: Option<String>,
    /// raw `;name[=value]` uri-parameters in order
    pub params: Vec<(String, Option<String>)>,
    /// raw `?name[=value]&...` headers in order
    pub headers: Vec<(String, Option<String>)>,
}

/// SIP-URI = "sip:" [ userinfo ] hostport uri-parameters [ headers ]   (RFC 3261 section 25.1)
///
/// Purely structural: the first '@' ends the userinfo (an unescaped '@' is not allowed anywhere
/// else), the hostport ends at the first ';' or '?', parameters end at the first '?'.
pub fn split_uri(text: &str) -> Result<RefUri, RefError> {
    let Some(colon) = text.find(':') else {
        return err("uri without scheme");
    };
    let scheme = text[..colon].to_ascii_lowercase();
    if scheme != "sip" && scheme != "sips" {
        return err(format!("not a sip/sips uri: scheme {scheme:?}"));
    }
    let rest = &text[colon + 1..];
    let (userinfo, rest) = match rest.find('@') {
        Some(at) => (Some(rest[..at].to_string()), &rest[at + 1..]),
        None => (None, rest),
    };
    let (user, password) = match &userinfo {
        None => (None, None),
        Some(ui) => match ui.find(':') {
            Some(c) => (Some(ui[..c].to_string()), Some(ui[c + 1..].to_string())),
            None => (Some(ui.clone()), None),
        },
    };
    let hp_end = rest.find([';', '?']).unwrap_or(rest.len());
    let hostport = rest[..hp_end].to_string();
    let (host, port) = if hostport.starts_with('[') {
        match hostport.find(']') {
            Some(close) => {
                let after = &hostport[close + 1..];
                let port = after.strip_prefix(':').map(|p| p.to_string());
                if port.is_none() && !after.is_empty() {
                    return err(format!("garbage after IPv6 reference: {after:?}"));
                }
                (hostport[..=close].to_string(), port)
            }
            None => return err("'[' without ']' in hostport"),
        }
    } else {
        match hostport.rfind(':') {
            Some(c) => (hostport[..c].to_string(), Some(hostport[c + 1..].to_string())),
            None => (hostport.clone(), None),
        }
    };
    let rest = &rest[hp_end..];
    let (param_text, header_text) = match rest.find('?') {
        Some(q) => (&rest[..q], Some(&rest[q + 1..])),
        None => (rest, None),
    };
    let mut params = vec![];
    if !param_text.is_empty() {
        // param_text starts with ';'
        for p in param_text[1..].split(';') {
            params.push(split_pair_raw(p));
        }
    }
    let mut headers = vec![];
    if let Some(h) = header_text {
        for p in h.split('&') {
            headers.push(split_pair_raw(p));
        }
    }
    Ok(RefUri {
        scheme,
        userinfo,
        user,
        password,
        hostport,
        host,
        port,
        params,
        headers,
    })
}

fn split_pair_raw(p: &str) -> (String, Option<String>) {
    match p.find('=') {
        Some(i) => (p[..i].to_string(), Some(p[i + 1..].to_string())),
        None => (p.to_string(), None),
    }
}

/// Strict percent-decoder (RFC 3261 25.1: escaped = "%" HEXDIG HEXDIG): every '%' must be followed
/// by two hex digits; the result is returned as bytes.
pub fn percent_decode_bytes(raw: &str) -> Result<Vec<u8>, RefError> {
    let b = raw.as_bytes();
    let mut out = Vec::with_capacity(b.len());
    let mut i = 0;
    while i < b.len() {
        if b[i] == b'%' {
            if i + 2 >= b.len() {
                // fewer than two characters follow
                return err(format!("truncated escape at byte {i} in {raw:?}"));
            }
            let (Some(h), Some(l)) = (hex_val(b[i + 1]), hex_val(b[i + 2])) else {
                return err(format!("'%' not followed by two hex digits at byte {i} in {raw:?}"));
            };
            out.push(h * 16 + l);
            i += 3;
        } else {
            out.push(b[i]);
            i += 1;
        }
    }
    Ok(out)
}

fn hex_val(b: u8) -> Option<u8> {
    match b {
        b'0'..=b'9' => Some(b - b'0'),
        b'a'..=b'f' => Some(b - b'a' + 10),
        b'A'..=b'F' => Some(b - b'A' + 10),
        _ => None,
    }
}

/// strict percent-decoding to UTF-8 text
pub fn percent_decode(raw: &str) -> Result<String, RefError> {
    let bytes = percent_decode_bytes(raw)?;
    String::from_utf8(bytes).map_err(|_| RefError(format!("escaped text is not UTF-8: {raw:?}")))
}

// --- RFC 3261 character classes (section 25.1) -----------------------------------------------

pub fn is_unreserved(c: char) -> bool {
    c.is_ascii_alphanumeric() || matches!(c, '-' | '_' | '.' | '!' | '~' | '*' | '\'' | '(' | ')')
}

/// reserved = ";" / "/" / "?" / ":" / "@" / "&" / "=" / "+" / "$" / ","
pub fn is_reserved(c: char) -> bool {
    matches!(c, ';' | '/' | '?' | ':' | '@' | '&' | '=' | '+' | '$' | ',')
}

/// user-unreserved = "&" / "=" / "+" / "$" / "," / ";" / "?" / "/"
pub fn is_user_char(c: char) -> bool {
    is_unreserved(c) || matches!(c, '&' | '=' | '+' | '$' | ',' | ';' | '?' | '/')
}

/// password = *( unreserved / escaped / "&" / "=" / "+" / "$" / "," )
pub fn is_password_char(c: char) -> bool {
    is_unreserved(c) || matches!(c, '&' | '=' | '+' | '$' | ',')
}

/// param-unreserved = "[" / "]" / "/" / ":" / "&" / "+" / "$"
pub fn is_param_char(c: char) -> bool {
    is_unreserved(c) || matches!(c, '[' | ']' | '/' | ':' | '&' | '+' | '$')
}

/// hnv-unreserved = "[" / "]" / "/" / "?" / ":" / "+" / "$"
pub fn is_header_char(c: char) -> bool {
    is_unreserved(c) || matches!(c, '[' | ']' | '/' | '?' | ':' | '+' | '$')
}

/// token = 1*(alphanum / "-" / "." / "!" / "%" / "*" / "_" / "+" / "`" / "'" / "~")
pub fn is_token_char(c: char) -> bool {
    c.is_ascii_alphanumeric() || matches!(c, '-' | '.' | '!' | '%' | '*' | '_' | '+' | '`' | '\'' | '~')
}

pub fn is_token(s: &str) -> bool {
    !s.is_empty() && s.chars().all(is_token_char)
}

/// Every '%' in `raw` starts a well-formed escape
pub fn escapes_well_formed(raw: &str) -> bool {
    percent_decode_bytes(raw).is_ok()
}

/// Characters of an escaped URI component that appear raw (i.e. outside `%HH` escapes) and
/// violate `allowed`. Malformed escapes report '%'.
pub fn raw_chars_outside(raw: &str, allowed: fn(char) -> bool) -> Vec<char> {
    let chars: Vec<char> = raw.chars().collect();
    let mut bad = vec![];
    let mut i = 0;
    while i < chars.len() {
        let c = chars[i];
        if c == '%' {
            let ok = chars.get(i + 1).map_or(false, |c| c.is_ascii_hexdigit())
                && chars.get(i + 2).map_or(false, |c| c.is_ascii_hexdigit());
            if ok {
                i += 3;
                continue;
            }
            if !bad.contains(&'%') {
                bad.push('%');
            }
        } else if !allowed(c) && !bad.contains(&c) {
            bad.push(c);
        }
        i += 1;
    }
    bad
}

#[cfg(test)]
mod tests {
    use super::*;

    #[test]
    fn message_basic() {
        let input: &[u8] =
            b"INVITE sip:bob@example.com SIP/2.0\r\nVia: SIP/2.0/UDP a;branch=z9\r\nv: SIP/2.0/TCP b\r\nSubject: a\r\n b\r\nl: 3\r\n\r\nabcXYZ";
        let m = split_message(input).unwrap();
        assert_eq!(m.body, b"abc");
        assert_eq!(m.values("via"), vec!["SIP/2.0/UDP a;branch=z9", "SIP/2.0/TCP b"]);
        assert_eq!(m.first("subject"), Some("a b"));
        assert_eq!(m.consumed, input.len() - 3);
        match m.start().unwrap() {
            StartLine::Request { method, uri, version } => {
                assert_eq!((method.as_str(), uri.as_str(), version.as_str()), ("INVITE", "sip:bob@example.com", "SIP/2.0"))
            }
            _ => panic!(),
        }
    }

    #[test]
    fn uri_basic() {
        let u = split_uri("sips:a%41:pw@[::1]:5061;lr;maddr=1.2.3.4?x=y&z").unwrap();
        assert_eq!(u.scheme, "sips");
        assert_eq!(u.user.as_deref(), Some("a%41"));
        assert_eq!(u.password.as_deref(), Some("pw"));
        assert_eq!(u.host, "[::1]");
        assert_eq!(u.port.as_deref(), Some("5061"));
        assert_eq!(u.params.len(), 2);
        assert_eq!(u.headers, vec![("x".into(), Some("y".into())), ("z".into(), None)]);
        assert_eq!(percent_decode("a%41%c3%a4").unwrap(), "aAä");
        assert!(percent_decode("a%4").is_err());
        assert!(percent_decode("a%").is_err());
        assert!(percent_decode("%zz").is_err());
        assert_eq!(raw_chars_outside("a%41@b%", is_user_char), vec!['@', '%']);
    }

    #[test]
    fn lists() {
        assert_eq!(split_commas("\"a,b\" <sip:x,y@h>;p=1, <sip:z>"), vec!["\"a,b\" <sip:x,y@h>;p=1", "<sip:z>"]);
        let na = split_name_addr("\"A;B\" <sip:h;lr>;tag=1;x").unwrap();
        assert_eq!(na.uri, "sip:h;lr");
        assert_eq!(na.params, vec![("tag".into(), Some("1".into())), ("x".into(), None)]);
    }
}
