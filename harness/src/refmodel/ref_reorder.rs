//! Reference reorder buffer for C10 (written from RFC 3261 §12.2.2 and the property statement,
//! independent of ezk's dialog layer).
//!
//! Sequence numbers are kept as `u64`, so nothing here can overflow for any `u32` CSeq.
//!
//! * `last`: the highest sequence number that has been handed on in order (`None` = the remote
//!   sequence number is still empty: the first arrival defines it, §12.2.2).
//! * `held`: numbers that arrived ahead of a missing lower number.

use std::collections::BTreeSet;

#[derive(Debug, Clone, PartialEq, Eq)]
pub enum Arrival {
    /// the number is not above the last one handed on (the statement is silent about these)
    Lower,
    /// handed on now, in this order (the arriving number first, then every consecutive held one)
    Released(Vec<u64>),
    /// ahead of a missing lower number: kept
    Held,
}

#[derive(Debug, Clone, Default)]
pub struct Reorder {
    pub last: Option<u64>,
    pub held: BTreeSet<u64>,
}

impl Reorder {
    /// `last` = sequence number of the dialog-creating request when the peer sent it, else None
    pub fn new(last: Option<u64>) -> Self {
        Self {
            last,
            held: BTreeSet::new(),
        }
    }

    /// is `n` at or below the last number handed on
    pub fn is_lower(&self, n: u64) -> bool {
        matches!(self.last, Some(l) if n <= l)
    }

    pub fn is_held(&self, n: u64) -> bool {
        self.held.contains(&n)
    }

    /// a request with a sequence number that has not arrived before
    pub fn arrive(&mut self, n: u64) -> Arrival {
        match self.last {
            Some(l) if n <= l => Arrival::Lower,
            Some(l) if n > l + 1 => {
                self.held.insert(n);
                Arrival::Held
            }
            _ => {
                // n == last + 1, or the remote sequence number was empty
                let mut out = vec![n];
                let mut cur = n;
                while self.held.remove(&(cur + 1)) {
                    cur += 1;
                    out.push(cur);
                }
                self.last = Some(cur);
                Arrival::Released(out)
            }
        }
    }
}

#[cfg(test)]
mod tests {
    use super::*;

    #[test]
    fn gap_fill() {
        let mut r = Reorder::new(Some(10));
        assert_eq!(r.arrive(13), Arrival::Held);
        assert_eq!(r.arrive(11), Arrival::Released(vec![11]));
        assert_eq!(r.arrive(12), Arrival::Released(vec![12, 13]));
        assert_eq!(r.arrive(12), Arrival::Lower);
        assert!(r.held.is_empty());
    }

    #[test]
    fn empty_remote_seq() {
        let mut r = Reorder::new(None);
        assert_eq!(r.arrive(7), Arrival::Released(vec![7]));
        assert_eq!(r.arrive(5), Arrival::Lower);
        assert_eq!(r.arrive(9), Arrival::Held);
        assert_eq!(r.arrive(8), Arrival::Released(vec![8, 9]));
    }
}
