//! Reference SDP printer and line scanner for C19, written from RFC 8866 (SDP), RFC 8839 (ICE
//! attributes), RFC 3605 (a=rtcp), RFC 4568 (a=crypto). Shares no code with `ezk-sdp-types`.

use crate::gen::sdp::*;
use std::collections::BTreeMap;
use std::net::{Ipv4Addr, Ipv6Addr};

pub use crate::gen::sdp::{MEDIA_TYPE_NAMES, PROTO_NAMES, SUITE_NAMES};

pub fn media_type_token(m: MediaTypeC) -> &'static str {
    match m {
        MediaTypeC::Audio => "audio",
        MediaTypeC::Video => "video",
        MediaTypeC::Text => "text",
        MediaTypeC::App => "application",
    }
}

pub fn proto_token(p: &ProtoC) -> &str {
    match p {
        ProtoC::Udp => "udp",
        ProtoC::RtpAvp => "RTP/AVP",
        ProtoC::RtpSavp => "RTP/SAVP",
        ProtoC::RtpSavpf => "RTP/SAVPF",
        ProtoC::Other(s) => s,
    }
}

pub fn suite_token(s: &SuiteC) -> &str {
    match s {
        SuiteC::Known(i) => SUITE_NAMES[*i as usize % SUITE_NAMES.len()],
        SuiteC::Ext(s) => s,
    }
}

pub fn dir_token(d: DirC) -> &'static str {
    match d {
        DirC::SendRecv => "sendrecv",
        DirC::RecvOnly => "recvonly",
        DirC::SendOnly => "sendonly",
        DirC::Inactive => "inactive",
    }
}

fn ip4_text(b: &[u8; 4]) -> String {
    Ipv4Addr::new(b[0], b[1], b[2], b[3]).to_string()
}

fn ip6_text(s: &[u16; 8]) -> String {
    // std's RFC 5952 formatter (not part of the code under test)
    Ipv6Addr::new(s[0], s[1], s[2], s[3], s[4], s[5], s[6], s[7]).to_string()
}

pub fn tagged_text(t: &TaggedC) -> String {
    match t {
        TaggedC::Ip4(b) => format!("IN IP4 {}", ip4_text(b)),
        TaggedC::Ip4Fqdn(h) => format!("IN IP4 {h}"),
        TaggedC::Ip6(s) => format!("IN IP6 {}", ip6_text(s)),
        TaggedC::Ip6Fqdn(h) => format!("IN IP6 {h}"),
    }
}

pub fn untagged_text(t: &UntaggedC) -> String {
    match t {
        UntaggedC::V4(b) => ip4_text(b),
        UntaggedC::V6(s) => ip6_text(s),
        UntaggedC::Fqdn(h) => h.clone(),
    }
}

fn conn_line(c: &ConnC) -> String {
    let mut s = format!("c={}", tagged_text(&c.address));
    match c.address {
        TaggedC::Ip4(_) | TaggedC::Ip4Fqdn(_) => {
            if let Some(ttl) = c.ttl {
                s.push_str(&format!("/{ttl}"));
                if let Some(n) = c.num {
                    s.push_str(&format!("/{n}"));
                }
            }
        }
        TaggedC::Ip6(_) | TaggedC::Ip6Fqdn(_) => {
            if let Some(n) = c.num {
                s.push_str(&format!("/{n}"));
            }
        }
    }
    s
}

fn attr_line(a: &AttrC) -> String {
    match &a.value {
        None => format!("a={}", a.name),
        Some(v) => format!("a={}:{}", a.name, v),
    }
}

/// `m=<media> <port>[/<n>] <proto> <fmt>*` with explicit tokens (so that a caller can print a token
/// that is not representable in the mirror type)
pub fn media_line(m: &MediaC, type_tok: &str, proto_tok: &str) -> String {
    let mut s = format!("m={type_tok} {}", m.port);
    if let Some(n) = m.ports_num {
        s.push_str(&format!("/{n}"));
    }
    s.push(' ');
    s.push_str(proto_tok);
    for f in &m.fmts {
        s.push_str(&format!(" {f}"));
    }
    s
}

fn key_text(k: &KeyC) -> String {
    let mut s = format!("inline:{}", k.key_and_salt);
    if let Some(l) = k.lifetime {
        // RFC 4568 9.2: lifetime = ["2^"] 1*(DIGIT); both spellings are legal, use the
        // power-of-two form whenever it is exact (as SDES implementations do)
        if l != 0 && l & (l - 1) == 0 {
            s.push_str(&format!("|2^{}", l.trailing_zeros()));
        } else {
            s.push_str(&format!("|{l}"));
        }
    }
    if let Some((a, b)) = k.mki {
        s.push_str(&format!("|{a}:{b}"));
    }
    s
}

fn keys_text(ks: &[KeyC]) -> String {
    ks.iter().map(key_text).collect::<Vec<_>>().join(";")
}

fn param_text(p: &ParamC) -> String {
    match p {
        ParamC::Kdr(v) => format!("KDR={v}"),
        ParamC::UnencryptedSrtp => "UNENCRYPTED_SRTP".into(),
        ParamC::UnencryptedSrtcp => "UNENCRYPTED_SRTCP".into(),
        ParamC::UnauthenticatedSrtp => "UNAUTHENTICATED_SRTP".into(),
        ParamC::FecOrderFecSrtp => "FEC_ORDER=FEC_SRTP".into(),
        ParamC::FecOrderSrtpFec => "FEC_ORDER=SRTP_FEC".into(),
        ParamC::FecKey(ks) => format!("FEC_KEY={}", keys_text(ks)),
        ParamC::Wsh(v) => format!("WSH={v}"),
        ParamC::Ext(s) => s.clone(),
    }
}

pub fn crypto_line(c: &CryptoC, suite_tok: &str) -> String {
    let mut s = format!("a=crypto:{} {} {}", c.tag, suite_tok, keys_text(&c.keys));
    for p in &c.params {
        s.push(' ');
        s.push_str(&param_text(p));
    }
    s
}

fn candidate_line(c: &CandC) -> String {
    let mut s = format!(
        "a=candidate:{} {} {} {} {} {} typ {}",
        c.foundation,
        c.component,
        c.transport,
        c.priority,
        untagged_text(&c.address),
        c.port,
        c.typ
    );
    if let Some(a) = &c.rel_addr {
        s.push_str(&format!(" raddr {}", untagged_text(a)));
    }
    if let Some(p) = c.rel_port {
        s.push_str(&format!(" rport {p}"));
    }
    for (k, v) in &c.unknown {
        s.push_str(&format!(" {k} {v}"));
    }
    s
}

/// One printed line: `section` 0 = session level, i+1 = media section i
#[derive(Clone, Debug)]
pub struct RefLine {
    pub section: usize,
    pub kind: &'static str,
    /// index of the item inside its list (crypto line k of the section …)
    pub index: usize,
    pub text: String,
}

/// The reference rendering, RFC 8866 section 5 field order
pub fn ref_lines(c: &SdpCase) -> Vec<RefLine> {
    let mut v: Vec<RefLine> = vec![];
    let mut push = |section: usize, kind: &'static str, index: usize, text: String| {
        v.push(RefLine {
            section,
            kind,
            index,
            text,
        })
    };
    push(0, "v", 0, "v=0".into());
    push(
        0,
        "o",
        0,
        format!(
            "o={} {} {} {}",
            c.origin.username,
            c.origin.session_id,
            c.origin.session_version,
            tagged_text(&c.origin.address)
        ),
    );
    push(0, "s", 0, format!("s={}", c.name));
    if let Some(conn) = &c.connection {
        push(0, "c", 0, conn_line(conn));
    }
    for (i, b) in c.bandwidth.iter().enumerate() {
        push(0, "b", i, format!("b={}:{}", b.type_, b.bandwidth));
    }
    push(0, "t", 0, format!("t={} {}", c.time.0, c.time.1));
    push(0, "direction", 0, format!("a={}", dir_token(c.direction)));
    if !c.ice_options.is_empty() {
        // RFC 8839 5.6: ice-options = "ice-options:" ice-option-tag *(SP ice-option-tag)
        push(0, "ice-options", 0, format!("a=ice-options:{}", c.ice_options.join(" ")));
    }
    if c.ice_lite {
        push(0, "ice-lite", 0, "a=ice-lite".into());
    }
    if let Some(u) = &c.ice_ufrag {
        push(0, "ice-ufrag", 0, format!("a=ice-ufrag:{u}"));
    }
    if let Some(p) = &c.ice_pwd {
        push(0, "ice-pwd", 0, format!("a=ice-pwd:{p}"));
    }
    for (i, a) in c.attributes.iter().enumerate() {
        push(0, "attr", i, attr_line(a));
    }
    for (mi, m) in c.media.iter().enumerate() {
        let s = mi + 1;
        push(
            s,
            "m",
            0,
            media_line(m, media_type_token(m.media_type), proto_token(&m.proto)),
        );
        if let Some(conn) = &m.connection {
            push(s, "c", 0, conn_line(conn));
        }
        for (i, b) in m.bandwidth.iter().enumerate() {
            push(s, "b", i, format!("b={}:{}", b.type_, b.bandwidth));
        }
        push(s, "direction", 0, format!("a={}", dir_token(m.direction)));
        if let Some(r) = &m.rtcp {
            let mut t = format!("a=rtcp:{}", r.port);
            if let Some(a) = &r.address {
                t.push(' ');
                t.push_str(&tagged_text(a));
            }
            push(s, "rtcp", 0, t);
        }
        for (i, r) in m.rtpmaps.iter().enumerate() {
            let mut t = format!("a=rtpmap:{} {}/{}", r.payload, r.encoding, r.clock_rate);
            if let Some(p) = &r.params {
                t.push('/');
                t.push_str(p);
            }
            push(s, "rtpmap", i, t);
        }
        for (i, f) in m.fmtps.iter().enumerate() {
            push(s, "fmtp", i, format!("a=fmtp:{} {}", f.format, f.params));
        }
        if let Some(u) = &m.ice_ufrag {
            push(s, "ice-ufrag", 0, format!("a=ice-ufrag:{u}"));
        }
        if let Some(p) = &m.ice_pwd {
            push(s, "ice-pwd", 0, format!("a=ice-pwd:{p}"));
        }
        for (i, cand) in m.candidates.iter().enumerate() {
            push(s, "candidate", i, candidate_line(cand));
        }
        if m.end_of_candidates {
            push(s, "eoc", 0, "a=end-of-candidates".into());
        }
        for (i, cr) in m.crypto.iter().enumerate() {
            push(s, "crypto", i, crypto_line(cr, suite_token(&cr.suite)));
        }
        for (i, a) in m.attributes.iter().enumerate() {
            push(s, "attr", i, attr_line(a));
        }
    }
    v
}

pub fn join_lines(lines: &[RefLine]) -> String {
    let mut s = String::new();
    for l in lines {
        s.push_str(&l.text);
        s.push_str("\r\n");
    }
    s
}

pub fn ref_print(c: &SdpCase) -> String {
    join_lines(&ref_lines(c))
}

// ---------------------------------------------------------------------------------------------
// line scanner
// ---------------------------------------------------------------------------------------------

fn upto_blank(s: &str) -> String {
    s.split(' ').next().unwrap_or("").to_string()
}

/// classify a printed line by its type and a format-independent key
pub fn classify(line: &str) -> (&'static str, String) {
    let two = line.get(..2).unwrap_or("");
    match two {
        "v=" => return ("v", String::new()),
        "o=" => return ("o", String::new()),
        "s=" => return ("s", String::new()),
        "t=" => return ("t", String::new()),
        "m=" => return ("m", String::new()),
        "c=" => return ("c", String::new()),
        "b=" => return ("b", line[2..].to_string()),
        "a=" => {}
        _ => return ("other", line.to_string()),
    }
    let a = &line[2..];
    for (prefix, kind) in [
        ("rtpmap:", "rtpmap"),
        ("fmtp:", "fmtp"),
        ("rtcp:", "rtcp"),
        ("candidate:", "candidate"),
        ("crypto:", "crypto"),
    ] {
        if let Some(rest) = a.strip_prefix(prefix) {
            return (kind, upto_blank(rest));
        }
    }
    if let Some(rest) = a.strip_prefix("ice-ufrag:") {
        return ("ice-ufrag", rest.to_string());
    }
    if let Some(rest) = a.strip_prefix("ice-pwd:") {
        return ("ice-pwd", rest.to_string());
    }
    if a.starts_with("ice-options:") {
        return ("ice-options", String::new());
    }
    match a {
        "ice-lite" => ("ice-lite", String::new()),
        "end-of-candidates" => ("eoc", String::new()),
        "sendrecv" | "recvonly" | "sendonly" | "inactive" => ("direction", a.to_string()),
        _ => ("attr", line.to_string()),
    }
}

/// the (kind,key) items the case allows in each segment (0 = before the first `m=`)
pub fn expected_items(c: &SdpCase) -> Vec<BTreeMap<(&'static str, String), usize>> {
    let mut segs = vec![];
    let mut s: BTreeMap<(&'static str, String), usize> = BTreeMap::new();
    let add = |s: &mut BTreeMap<(&'static str, String), usize>, k: &'static str, key: String| {
        *s.entry((k, key)).or_default() += 1;
    };
    for k in ["v", "o", "s", "t"] {
        add(&mut s, k, String::new());
    }
    if c.connection.is_some() {
        add(&mut s, "c", String::new());
    }
    for b in &c.bandwidth {
        add(&mut s, "b", format!("{}:{}", b.type_, b.bandwidth));
    }
    // the session-level direction may or may not be printed
    add(&mut s, "direction", dir_token(c.direction).to_string());
    if !c.ice_options.is_empty() {
        add(&mut s, "ice-options", String::new());
    }
    if c.ice_lite {
        add(&mut s, "ice-lite", String::new());
    }
    if let Some(u) = &c.ice_ufrag {
        add(&mut s, "ice-ufrag", u.clone());
    }
    if let Some(p) = &c.ice_pwd {
        add(&mut s, "ice-pwd", p.clone());
    }
    for a in &c.attributes {
        add(&mut s, "attr", attr_line(a));
    }
    segs.push(s);
    for m in &c.media {
        let mut s = BTreeMap::new();
        add(&mut s, "m", String::new());
        if m.connection.is_some() {
            add(&mut s, "c", String::new());
        }
        for b in &m.bandwidth {
            add(&mut s, "b", format!("{}:{}", b.type_, b.bandwidth));
        }
        add(&mut s, "direction", dir_token(m.direction).to_string());
        if let Some(r) = &m.rtcp {
            add(&mut s, "rtcp", r.port.to_string());
        }
        for r in &m.rtpmaps {
            add(&mut s, "rtpmap", r.payload.to_string());
        }
        for f in &m.fmtps {
            add(&mut s, "fmtp", f.format.to_string());
        }
        if let Some(u) = &m.ice_ufrag {
            add(&mut s, "ice-ufrag", u.clone());
        }
        if let Some(p) = &m.ice_pwd {
            add(&mut s, "ice-pwd", p.clone());
        }
        for cand in &m.candidates {
            add(&mut s, "candidate", cand.foundation.clone());
        }
        if m.end_of_candidates {
            add(&mut s, "eoc", String::new());
        }
        for cr in &m.crypto {
            add(&mut s, "crypto", cr.tag.to_string());
        }
        for a in &m.attributes {
            add(&mut s, "attr", attr_line(a));
        }
        segs.push(s);
    }
    segs
}

/// Scan printed SDP: every line found between `m=` line i and `m=` line i+1 (segment i+1; segment 0
/// is the session part) must be an item the case has in exactly that section. Returns the kinds of
/// misplaced / surplus lines as `(segment, kind, line)`. Lines that are *missing* are not the
/// scanner's business (the field-wise round trip reports those).
pub fn scan_placement(c: &SdpCase, printed: &str) -> Vec<(usize, &'static str, String)> {
    let expected = expected_items(c);
    let mut bad = vec![];
    let mut seg = 0usize;
    let mut seen: Vec<BTreeMap<(&'static str, String), usize>> = vec![BTreeMap::new()];
    for line in printed.split("\r\n") {
        if line.is_empty() {
            continue;
        }
        let (kind, key) = classify(line);
        if kind == "m" {
            seg += 1;
            seen.push(BTreeMap::new());
        }
        let n = seen[seg].entry((kind, key.clone())).or_default();
        *n += 1;
        let allowed = expected
            .get(seg)
            .and_then(|e| e.get(&(kind, key)))
            .copied()
            .unwrap_or(0);
        if *n > allowed {
            bad.push((seg, kind, line.to_string()));
        }
    }
    bad
}
