//! Reference model of an RFC 3261 section 12 dialog, built from the *texts* of the dialog-creating
//! request and response as they appeared on the wire (`world::WireMsg`), for both roles, plus the
//! section 12.2.1.1 template every request created inside the dialog has to follow.
//!
//! Shares no code or types with ezk.  Everything is text in / text out:
//!
//! * 12.1.1 (UAS): route set = Record-Route of the request, order preserved; remote target = URI of the
//!   request's Contact; remote seq = the request's CSeq; local seq empty; Call-ID of the request;
//!   local tag = To-tag of the response, remote tag = From-tag of the request; remote URI = From URI,
//!   local URI = To URI.
//! * 12.1.2 (UAC): route set = Record-Route of the response, order REVERSED; remote target = URI of the
//!   response's Contact; local seq = the request's CSeq; remote seq empty; Call-ID of the request;
//!   local tag = From-tag of the request, remote tag = To-tag of the response; remote URI = To URI,
//!   local URI = From URI.
//! * 12.2.1.1: To = remote URI + remote tag, From = local URI + local tag, Call-ID = the dialog's,
//!   CSeq strictly monotonically increasing (local seq + 1 when not empty; ACK carries the number of
//!   the INVITE it acknowledges; local seq of a UAC = the number of the INVITE the dialog-creating
//!   response answers, which need not be the first INVITE the application sent for that call),
//!   Request-URI = remote target and Route = route set in order when the
//!   route set is empty (no Route at all) or starts with a loose router (`lr`).  When the first route
//!   lacks `lr` the strict-routing rewrite applies (Request-URI = first route, Route = rest + remote
//!   target); the model offers that form as an *alternative* (`Template::strict`), because the property
//!   does not assert the rewrite.  The route set is a LIST: entries that repeat or resemble a neighbour
//!   (a spiral, the double Record-Route of RFC 5658) count like any other.  A Route that deviates is named
//!   `route-order` (the reversed list), `route-entries-missing` / `route-entries-added` (a sub- / super-sequence
//!   of the route set), `route-missing`, `route-not-absent`, else `route-values`.
//!
//! URI comparison (`uri_equal`) is structural: scheme and host case-insensitively, user part and port
//! literally, parameters as a set with case-insensitive names/values.  In `UriCtx::FromTo` the
//! components RFC 3261 Table 1 forbids in From/To (port, maddr, ttl, transport, lr, method, headers)
//! are removed from both sides first, so that a printer applying those omissions is not blamed.

use crate::world::wire::split_top_commas;
use crate::world::WireMsg;
use std::collections::BTreeMap;

#[derive(Clone, Copy, Debug, PartialEq, Eq, Hash)]
pub enum Role {
    Uac,
    Uas,
}

impl Role {
    pub fn name(self) -> &'static str {
        match self {
            Role::Uac => "uac",
            Role::Uas => "uas",
        }
    }
}

/// `[display-name] <addr-spec> *(;param)` or `addr-spec *(;param)` split into its parts
#[derive(Clone, Debug, PartialEq, Eq)]
pub struct NameAddr {
    pub display: Option<String>,
    pub uri: String,
    /// header parameters (those after `>`; without `<>` everything after the first `;`), names lowercased
    pub params: Vec<(String, Option<String>)>,
}

impl NameAddr {
    pub fn param(&self, name: &str) -> Option<&str> {
        self.params
            .iter()
            .find(|(n, _)| n.eq_ignore_ascii_case(name))
            .map(|(_, v)| v.as_deref().unwrap_or(""))
    }
}

fn parse_params(tail: &str) -> Vec<(String, Option<String>)> {
    // split at ';' outside quoted strings
    let mut parts: Vec<String> = vec![];
    let mut cur = String::new();
    let mut in_q = false;
    let mut esc = false;
    for c in tail.chars() {
        if in_q {
            cur.push(c);
            if esc {
                esc = false;
            } else if c == '\\' {
                esc = true;
            } else if c == '"' {
                in_q = false;
            }
            continue;
        }
        match c {
            '"' => {
                in_q = true;
                cur.push(c);
            }
            ';' => {
                parts.push(std::mem::take(&mut cur));
            }
            _ => cur.push(c),
        }
    }
    parts.push(cur);
    parts
        .into_iter()
        .map(|p| p.trim().to_string())
        .filter(|p| !p.is_empty())
        .map(|p| match p.find('=') {
            Some(i) => (
                p[..i].trim().to_ascii_lowercase(),
                Some(p[i + 1..].trim().to_string()),
            ),
            None => (p.to_ascii_lowercase(), None),
        })
        .collect()
}

/// RFC 3261 section 20.10 / 25.1 `name-addr / addr-spec` reader
pub fn parse_name_addr(value: &str) -> Option<NameAddr> {
    let v = value.trim();
    let bytes: Vec<char> = v.chars().collect();
    let mut i = 0;
    let mut display: Option<String> = None;
    if bytes.first() == Some(&'"') {
        // quoted display name
        let mut s = String::new();
        i = 1;
        let mut closed = false;
        while i < bytes.len() {
            let c = bytes[i];
            if c == '\\' && i + 1 < bytes.len() {
                s.push(bytes[i + 1]);
                i += 2;
                continue;
            }
            if c == '"' {
                closed = true;
                i += 1;
                break;
            }
            s.push(c);
            i += 1;
        }
        if !closed {
            return None;
        }
        display = Some(s);
        while i < bytes.len() && (bytes[i] == ' ' || bytes[i] == '\t') {
            i += 1;
        }
        if bytes.get(i) != Some(&'<') {
            return None;
        }
    } else if let Some(lt) = bytes
        .iter()
        // display-name = *(token LWS): a ':' before any '<' means the value starts with the addr-spec itself
        .position(|c| *c == '<' || *c == ':')
        .filter(|p| bytes[*p] == '<')
    {
        let d: String = bytes[..lt].iter().collect();
        let d = d.trim();
        if !d.is_empty() {
            display = Some(d.to_string());
        }
        i = lt;
    }
    if bytes.get(i) == Some(&'<') {
        let rest: String = bytes[i + 1..].iter().collect();
        let gt = rest.find('>')?;
        let uri = rest[..gt].trim().to_string();
        let tail = &rest[gt + 1..];
        Some(NameAddr {
            display,
            uri,
            params: parse_params(tail),
        })
    } else {
        // addr-spec form: every ';' after the URI starts a HEADER parameter (section 20)
        let rest: String = bytes.iter().collect();
        let (uri, tail) = match rest.find(';') {
            Some(p) => (rest[..p].trim().to_string(), rest[p..].to_string()),
            None => (rest.trim().to_string(), String::new()),
        };
        if uri.is_empty() {
            return None;
        }
        Some(NameAddr {
            display: None,
            uri,
            params: parse_params(&tail),
        })
    }
}

/// components of a sip:/sips: URI
#[derive(Clone, Debug, PartialEq, Eq)]
pub struct UriParts {
    pub scheme: String,
    pub user: Option<String>,
    pub host: String,
    pub port: Option<String>,
    pub params: BTreeMap<String, Option<String>>,
    pub headers: Option<String>,
}

pub fn split_uri(uri: &str) -> Option<UriParts> {
    let colon = uri.find(':')?;
    let scheme = uri[..colon].to_ascii_lowercase();
    let mut rest = &uri[colon + 1..];
    let mut headers = None;
    if let Some(q) = rest.find('?') {
        headers = Some(rest[q + 1..].to_string());
        rest = &rest[..q];
    }
    let (user, hostpart) = match rest.rfind('@') {
        Some(at) => (Some(rest[..at].to_string()), &rest[at + 1..]),
        None => (None, rest),
    };
    let (hostport, paramtext) = match hostpart.find(';') {
        Some(p) => (&hostpart[..p], &hostpart[p..]),
        None => (hostpart, ""),
    };
    let (host, port) = if hostport.starts_with('[') {
        let close = hostport.find(']')?;
        let h = &hostport[..=close];
        let after = &hostport[close + 1..];
        (h.to_string(), after.strip_prefix(':').map(|p| p.to_string()))
    } else {
        match hostport.rfind(':') {
            Some(c) => (hostport[..c].to_string(), Some(hostport[c + 1..].to_string())),
            None => (hostport.to_string(), None),
        }
    };
    if host.is_empty() {
        return None;
    }
    let mut params = BTreeMap::new();
    for (n, v) in parse_params(paramtext) {
        params.insert(n, v.map(|v| v.to_ascii_lowercase()));
    }
    Some(UriParts {
        scheme,
        user,
        host: host.to_ascii_lowercase(),
        port,
        params,
        headers,
    })
}

#[derive(Clone, Copy, Debug, PartialEq, Eq)]
pub enum UriCtx {
    /// all components count
    Full,
    /// modulo the components RFC 3261 Table 1 does not allow in From/To
    FromTo,
}

pub fn uri_equal(a: &str, b: &str, ctx: UriCtx) -> bool {
    let (Some(mut a), Some(mut b)) = (split_uri(a), split_uri(b)) else {
        return a == b;
    };
    if ctx == UriCtx::FromTo {
        for u in [&mut a, &mut b] {
            u.port = None;
            u.headers = None;
            for p in ["maddr", "ttl", "transport", "lr", "method"] {
                u.params.remove(p);
            }
        }
    }
    a == b
}

/// `%HH` sequences replaced by the byte they denote (used only to classify a failure)
pub fn percent_decoded(s: &str) -> String {
    let b = s.as_bytes();
    let mut out = vec![];
    let mut i = 0;
    while i < b.len() {
        if b[i] == b'%' && i + 2 < b.len() && s.is_char_boundary(i + 1) && s.is_char_boundary(i + 3) {
            if let Ok(v) = u8::from_str_radix(&s[i + 1..i + 3], 16) {
                out.push(v);
                i += 3;
                continue;
            }
        }
        out.push(b[i]);
        i += 1;
    }
    String::from_utf8_lossy(&out).into_owned()
}

/// true when the URI carries the `lr` parameter
pub fn is_loose(uri: &str) -> bool {
    split_uri(uri).map_or(false, |u| u.params.contains_key("lr"))
}

/// two Route / Record-Route values denote the same entry: same URI (all components) and the same
/// header parameters; display names are not compared
pub fn route_value_equal(a: &str, b: &str) -> bool {
    let (Some(a), Some(b)) = (parse_name_addr(a), parse_name_addr(b)) else {
        return a.trim() == b.trim();
    };
    let norm = |p: &Vec<(String, Option<String>)>| {
        let mut v: Vec<(String, Option<String>)> = p.clone();
        v.sort();
        v
    };
    uri_equal(&a.uri, &b.uri, UriCtx::Full) && norm(&a.params) == norm(&b.params)
}

/// `short` can be obtained from `long` by leaving entries out (order kept)
pub fn is_subsequence(short: &[String], long: &[String]) -> bool {
    let mut it = long.iter();
    short.iter().all(|s| it.any(|l| route_value_equal(s, l)))
}

pub fn route_list_equal(a: &[String], b: &[String]) -> bool {
    a.len() == b.len() && a.iter().zip(b).all(|(x, y)| route_value_equal(x, y))
}

/// dialog state of RFC 3261 section 12.1
#[derive(Clone, Debug)]
pub struct RefDialog {
    pub role: Role,
    pub call_id: String,
    pub local_uri: String,
    pub local_tag: Option<String>,
    pub remote_uri: String,
    pub remote_tag: Option<String>,
    pub remote_target: String,
    /// Route values (name-addr with parameters) in the order they go into a request
    pub route_set: Vec<String>,
    /// UAC: the CSeq number of the dialog-creating request; UAS: empty
    pub local_seq: Option<u32>,
    /// UAS: the CSeq number of the dialog-creating request
    pub remote_seq: Option<u32>,
}

/// what section 12.2.1.1 prescribes for a new request (CSeq is checked by `CSeqTracker`)
#[derive(Clone, Debug)]
pub struct Template {
    pub request_uri: String,
    pub route: Vec<String>,
    pub call_id: String,
    pub from_uri: String,
    pub from_tag: Option<String>,
    pub to_uri: String,
    pub to_tag: Option<String>,
    /// the strict-routing form (Request-URI, Route) when the first route has no `lr`
    pub strict: Option<(String, Vec<String>)>,
}

impl RefDialog {
    /// Build the dialog state from the dialog-creating request and the response that established it.
    pub fn from_wire(role: Role, request: &WireMsg, response: &WireMsg) -> Result<RefDialog, String> {
        let from = parse_name_addr(request.header("from").ok_or("request without From")?)
            .ok_or("unreadable From")?;
        // the To URI is taken from the request; the tag from the response
        let to = parse_name_addr(request.header("to").ok_or("request without To")?)
            .ok_or("unreadable To")?;
        let resp_to = parse_name_addr(response.header("to").ok_or("response without To")?)
            .ok_or("unreadable To in response")?;
        let call_id = request.call_id().ok_or("request without Call-ID")?.trim().to_string();
        let cseq = request.cseq().ok_or("request without CSeq")?.0;
        let from_tag = from.param("tag").map(str::to_string);
        let to_tag = resp_to.param("tag").map(str::to_string);
        let contact_of = |m: &WireMsg| -> Result<String, String> {
            let c = m.list_values("contact");
            let first = c.first().ok_or("no Contact")?;
            Ok(parse_name_addr(first).ok_or("unreadable Contact")?.uri)
        };
        Ok(match role {
            Role::Uas => RefDialog {
                role,
                call_id,
                local_uri: to.uri,
                local_tag: to_tag,
                remote_uri: from.uri,
                remote_tag: from_tag,
                remote_target: contact_of(request)?,
                route_set: request.list_values("record-route"),
                local_seq: None,
                remote_seq: Some(cseq),
            },
            Role::Uac => {
                let mut route_set = response.list_values("record-route");
                route_set.reverse();
                RefDialog {
                    role,
                    call_id,
                    local_uri: from.uri,
                    local_tag: from_tag,
                    remote_uri: to.uri,
                    remote_tag: to_tag,
                    remote_target: contact_of(response)?,
                    route_set,
                    local_seq: Some(cseq),
                    remote_seq: None,
                }
            }
        })
    }

    pub fn template(&self) -> Template {
        let strict = match self.route_set.first() {
            Some(first) if !parse_name_addr(first).map_or(true, |r| is_loose(&r.uri)) => {
                let first_uri = parse_name_addr(first).map(|r| r.uri).unwrap_or_default();
                let mut rest: Vec<String> = self.route_set[1..].to_vec();
                rest.push(format!("<{}>", self.remote_target));
                Some((first_uri, rest))
            }
            _ => None,
        };
        Template {
            request_uri: self.remote_target.clone(),
            route: self.route_set.clone(),
            call_id: self.call_id.clone(),
            from_uri: self.local_uri.clone(),
            from_tag: self.local_tag.clone(),
            to_uri: self.remote_uri.clone(),
            to_tag: self.remote_tag.clone(),
            strict,
        }
    }

    /// Compare one request created inside the dialog with the template.  Returns `(locus, detail)`
    /// per deviation; CSeq is not looked at here.
    pub fn check_request(&self, msg: &WireMsg) -> Vec<(&'static str, String)> {
        let t = self.template();
        let mut bad: Vec<(&'static str, String)> = vec![];

        // Call-ID
        let cids = msg.headers_named("call-id");
        if cids.len() != 1 || cids[0].trim() != t.call_id {
            bad.push(("call-id", format!("Call-ID {:?}, dialog has {:?}", cids, t.call_id)));
        }

        // From = local URI + local tag
        match msg.headers_named("from").as_slice() {
            [f] => match parse_name_addr(f) {
                Some(na) => {
                    if !uri_equal(&na.uri, &t.from_uri, UriCtx::FromTo) {
                        bad.push(("from-uri", format!("From URI {:?}, local URI is {:?}", na.uri, t.from_uri)));
                    }
                    if na.param("tag").map(str::to_string) != t.from_tag {
                        bad.push(("from-tag", format!("From tag {:?}, local tag is {:?}", na.param("tag"), t.from_tag)));
                    }
                }
                None => bad.push(("from-uri", format!("unreadable From {f:?}"))),
            },
            other => bad.push(("from-uri", format!("{} From headers", other.len()))),
        }

        // To = remote URI + remote tag
        match msg.headers_named("to").as_slice() {
            [f] => match parse_name_addr(f) {
                Some(na) => {
                    if !uri_equal(&na.uri, &t.to_uri, UriCtx::FromTo) {
                        bad.push(("to-uri", format!("To URI {:?}, remote URI is {:?}", na.uri, t.to_uri)));
                    }
                    if na.param("tag").map(str::to_string) != t.to_tag {
                        // a tag is a token and '%' is a token character: "a%41" and "aA" are different tags.
                        // An implementation that percent-decodes header parameters is a root cause of its own.
                        let decoded = t.to_tag.as_deref().map(percent_decoded);
                        let locus = if t.to_tag.as_deref().map_or(false, |x| x.contains('%'))
                            && na.param("tag").map(str::to_string) == decoded
                        {
                            "to-tag-percent-decoded"
                        } else {
                            "to-tag"
                        };
                        bad.push((locus, format!("To tag {:?}, remote tag is {:?}", na.param("tag"), t.to_tag)));
                    }
                }
                None => bad.push(("to-uri", format!("unreadable To {f:?}"))),
            },
            other => bad.push(("to-uri", format!("{} To headers", other.len()))),
        }

        // Max-Forwards present (a number)
        match msg.headers_named("max-forwards").as_slice() {
            [v] if v.trim().parse::<u32>().is_ok() => {}
            other => bad.push(("max-forwards", format!("Max-Forwards headers: {other:?}"))),
        }

        // Request-URI and Route
        let ruri = msg.request_uri().unwrap_or("").to_string();
        let route = msg.list_values("route");
        let loose_ok = uri_equal(&ruri, &t.request_uri, UriCtx::Full) && route_list_equal(&route, &t.route);
        let strict_ok = t.strict.as_ref().map_or(false, |(u, r)| {
            // the rewrite strips parameters that are not allowed in a Request-URI: compare host part only
            let same_first = match (split_uri(&ruri), split_uri(u)) {
                (Some(a), Some(b)) => a.scheme == b.scheme && a.user == b.user && a.host == b.host && a.port == b.port,
                _ => false,
            };
            same_first && route_list_equal(&route, r)
        });
        if !(loose_ok || strict_ok) {
            if !uri_equal(&ruri, &t.request_uri, UriCtx::Full) && t.strict.is_none() {
                // the remote target under the other scheme (sip <-> sips), everything else equal: a root cause of
                // its own (the scheme is part of the URI: sips:x is not the peer's Contact sip:x)
                let scheme_only = match (split_uri(&ruri), split_uri(&t.request_uri)) {
                    (Some(mut a), Some(b)) if a.scheme != b.scheme => {
                        a.scheme = b.scheme.clone();
                        a == b
                    }
                    _ => false,
                };
                let locus = if scheme_only { "request-uri-scheme-differs-from-remote-target" } else { "request-uri" };
                bad.push((locus, format!("Request-URI {:?}, remote target is {:?}", ruri, t.request_uri)));
            }
            if !route_list_equal(&route, &t.route) || t.strict.is_some() {
                let locus = if t.route.is_empty() {
                    "route-not-absent"
                } else if route.is_empty() {
                    "route-missing"
                } else {
                    let mut rev = t.route.clone();
                    rev.reverse();
                    if t.route.len() > 1 && route_list_equal(&route, &rev) {
                        "route-order"
                    } else if route.len() < t.route.len() && is_subsequence(&route, &t.route) {
                        // every Route value is an entry of the route set, in order, but entries were left out
                        "route-entries-missing"
                    } else if route.len() > t.route.len() && is_subsequence(&t.route, &route) {
                        "route-entries-added"
                    } else {
                        "route-values"
                    }
                };
                bad.push((locus, format!("Route {:?}, route set is {:?} (Request-URI {:?})", route, t.route, ruri)));
            }
        }
        if t.route.is_empty() && !msg.headers_named("route").is_empty() && !bad.iter().any(|b| b.0 == "route-not-absent") {
            bad.push(("route-not-absent", "Route header present although the route set is empty".into()));
        }
        bad
    }
}

/// Names a number `n` that fails to be above `last` when it is what a counter yields that was cut off at a power of
/// two just now: `n` = the successor of `last` modulo 2^k (k = 8, 16, 24, 31, 32), at most 64 numbers behind the
/// edge (the judged sequence may skip numbers: requests that never reached the wire, other threads' numbers).
/// Only the NAME of the failure depends on this; a number that is not above its predecessor fails either way.
pub fn wrap_locus(last: u32, n: u32) -> Option<&'static str> {
    if n > last {
        return None;
    }
    [(8u32, "wrapped-at-2^8"), (16, "wrapped-at-2^16"), (24, "wrapped-at-2^24"), (31, "wrapped-at-2^31"), (32, "wrapped-at-2^32")]
        .iter()
        .rev() // the widest edge that explains the number names it (0 after 2^31-1 is a wrap at 2^31, not at 2^8)
        .find(|(k, _)| last as u64 + 1 >= 1u64 << k && n < 64 && n as u64 == (last as u64 + 1) & ((1u64 << k) - 1))
        .map(|(_, l)| *l)
}

/// CSeq rule of section 12.2.1.1 over the requests of one dialog, in creation order
#[derive(Clone, Debug)]
pub struct CSeqTracker {
    /// number of the dialog-creating INVITE when this side sent it (UAC)
    pub floor: Option<u32>,
    pub last: Option<u32>,
    /// numbers of the INVITEs created inside the dialog (an ACK may reuse one of them)
    pub invites: Vec<u32>,
    /// UAC: CSeq numbers of earlier, rejected attempts of the same INVITE (sent before the dialog existed).
    /// They are NOT part of the rule (the floor is the INVITE that created the dialog); they only name the
    /// failure: when an earlier attempt carried another number than the creating INVITE, a first request
    /// that is not above the floor is reported as `first-not-above-renumbered-invite`.
    pub earlier_attempts: Vec<u32>,
}

impl CSeqTracker {
    pub fn new(dialog: &RefDialog) -> Self {
        CSeqTracker {
            floor: dialog.local_seq,
            last: dialog.local_seq,
            invites: dialog.local_seq.into_iter().collect(),
            earlier_attempts: vec![],
        }
    }

    /// locus for "a request directly after the dialog-creating INVITE is not above that INVITE's number"
    pub fn floor_locus(&self) -> &'static str {
        match self.floor {
            Some(f) if self.earlier_attempts.iter().any(|e| *e != f) => "first-not-above-renumbered-invite",
            _ => "first-not-above-invite",
        }
    }

    /// Feed the next created request. `ack_for` = the CSeq number of the INVITE whose 2xx this ACK answers.
    pub fn next(&mut self, msg: &WireMsg, ack_for: Option<u32>) -> Vec<(&'static str, String)> {
        let mut bad = vec![];
        let cseqs = msg.headers_named("cseq");
        let Some((n, m)) = msg.cseq().filter(|_| cseqs.len() == 1) else {
            bad.push(("cseq-unreadable", format!("CSeq headers {cseqs:?}")));
            return bad;
        };
        if Some(m.as_str()) != msg.method() {
            bad.push(("cseq-method", format!("CSeq method {m:?} in a {:?} request", msg.method())));
        }
        if msg.method() == Some("ACK") {
            if let Some(inv) = ack_for {
                if n != inv {
                    bad.push(("ack-number", format!("ACK carries CSeq {n}, the INVITE it acknowledges had {inv}")));
                }
            }
            return bad;
        }
        if let Some(last) = self.last {
            if n <= last {
                if let Some(locus) = wrap_locus(last, n) {
                    // (the judged sequence goes on from the wrapped number: one root cause, one signature)
                    bad.push((locus, format!("CSeq {n} follows {last}: the dialog's sequence numbers are not increasing")));
                    self.last = Some(n);
                    self.floor = None;
                    if msg.method() == Some("INVITE") {
                        self.invites.push(n);
                    }
                    return bad;
                } else if self.floor == Some(last) {
                    let earlier = if self.earlier_attempts.is_empty() {
                        String::new()
                    } else {
                        format!(" (earlier, rejected attempts of that INVITE had {:?})", self.earlier_attempts)
                    };
                    bad.push((
                        self.floor_locus(),
                        format!("first request in the dialog has CSeq {n}, the INVITE that created it had {last}{earlier}"),
                    ));
                } else {
                    bad.push(("not-increasing", format!("CSeq {n} follows {last}")));
                }
            }
        }
        self.last = Some(self.last.map_or(n, |l| l.max(n)));
        if msg.method() == Some("INVITE") {
            self.invites.push(n);
        }
        bad
    }
}

/// Checks on a response the UAS generated for the dialog-creating request.
/// `local_tag` = the tag the dialog uses as its local tag (read back from the implementation).
pub fn check_response(request: &WireMsg, response: &WireMsg, local_tag: Option<&str>) -> Vec<(&'static str, String)> {
    let mut bad = vec![];
    let Some(code) = response.status() else {
        bad.push(("unreadable", "no status code".to_string()));
        return bad;
    };
    if code > 100 {
        let tag = response.header("to").and_then(parse_name_addr).and_then(|n| n.param("tag").map(str::to_string));
        let locus = if (200..300).contains(&code) { "to-tag-2xx" } else { "to-tag-non-2xx" };
        match (&tag, local_tag) {
            (None, _) => bad.push((locus, format!("{code} response carries no To-tag (To: {:?})", response.header("to")))),
            (Some(t), Some(l)) if t != l => {
                bad.push((locus, format!("{code} response carries To-tag {t:?}, the dialog's local tag is {l:?}")))
            }
            _ => {}
        }
    }
    if (101..300).contains(&code) {
        let contacts = response.list_values("contact");
        let ok = contacts.len() == 1
            && parse_name_addr(&contacts[0]).map_or(false, |c| split_uri(&c.uri).is_some());
        if !ok {
            bad.push(("contact", format!("{code} response Contact values: {contacts:?}")));
        }
        let want = request.list_values("record-route");
        let got = response.list_values("record-route");
        if !route_list_equal(&got, &want) {
            bad.push(("record-route", format!("{code} response Record-Route {got:?}, request had {want:?}")));
        }
    }
    bad
}

/// helper for generators/tests: split a comma list the same way the wire reader does
pub fn split_list(v: &str) -> Vec<String> {
    split_top_commas(v)
}

#[cfg(test)]
mod tests {
    use super::*;

    #[test]
    fn name_addr_forms() {
        let n = parse_name_addr("\"A, <B>;x\" <sip:a@h.example;lr>;tag=1;x").unwrap();
        assert_eq!(n.display.as_deref(), Some("A, <B>;x"));
        assert_eq!(n.uri, "sip:a@h.example;lr");
        assert_eq!(n.param("tag"), Some("1"));
        let n = parse_name_addr("sip:a@h.example;tag=9").unwrap();
        assert_eq!(n.uri, "sip:a@h.example");
        assert_eq!(n.param("tag"), Some("9"));
        let n = parse_name_addr("Bob <sips:b@[2001:db8::1]:5061;transport=tls>").unwrap();
        assert_eq!(n.display.as_deref(), Some("Bob"));
        let u = split_uri(&n.uri).unwrap();
        assert_eq!(u.host, "[2001:db8::1]");
        assert_eq!(u.port.as_deref(), Some("5061"));
    }

    #[test]
    fn uri_compare() {
        assert!(uri_equal("sip:a@H.example;x=1;lr", "SIP:a@h.example;lr;X=1", UriCtx::Full));
        assert!(!uri_equal("sip:a@h.example", "sip:a@h.example:5060", UriCtx::Full));
        assert!(uri_equal("sip:a@h.example", "sip:a@h.example:5060;transport=tcp", UriCtx::FromTo));
        assert!(!uri_equal("sip:a@h.example", "sip:A@h.example", UriCtx::Full));
    }

    #[test]
    fn roles() {
        let req = WireMsg::parse(b"INVITE sip:b@h SIP/2.0\r\nFrom: <sip:a@x>;tag=f\r\nTo: <sip:b@y>\r\nCall-ID: c\r\nCSeq: 7 INVITE\r\nContact: <sip:a@1.1.1.1>\r\nRecord-Route: <sip:p1;lr>, <sip:p2;lr>\r\n\r\n").unwrap();
        let resp = WireMsg::parse(b"SIP/2.0 200 OK\r\nFrom: <sip:a@x>;tag=f\r\nTo: <sip:b@y>;tag=t\r\nCall-ID: c\r\nCSeq: 7 INVITE\r\nContact: <sip:b@2.2.2.2>\r\nRecord-Route: <sip:p1;lr>, <sip:p2;lr>\r\n\r\n").unwrap();
        let uas = RefDialog::from_wire(Role::Uas, &req, &resp).unwrap();
        assert_eq!(uas.route_set, vec!["<sip:p1;lr>", "<sip:p2;lr>"]);
        assert_eq!(uas.remote_target, "sip:a@1.1.1.1");
        assert_eq!(uas.local_tag.as_deref(), Some("t"));
        let uac = RefDialog::from_wire(Role::Uac, &req, &resp).unwrap();
        assert_eq!(uac.route_set, vec!["<sip:p2;lr>", "<sip:p1;lr>"]);
        assert_eq!(uac.remote_target, "sip:b@2.2.2.2");
        assert_eq!(uac.local_seq, Some(7));
    }
}
