//! Reference model for C09, written from RFC 3261 (sec. 7, 8.2.6, 18.2.1, 18.2.2, 20, 21, 25.1) and
//! RFC 3581. Shares no code with ezk:
//!
//! * `response_destination` — the sec. 18.2.2 / RFC 3581 sec. 4 decision table for unreliable
//!   (datagram) transports,
//! * `top_via_stamp` — what sec. 18.2.1 / RFC 3581 sec. 4 make a server write into the top Via,
//! * `rfc3261_reason` / `extension_reason` — reason phrase tables (sec. 21 titles and sec. 25.1 ABNF
//!   spellings; IANA registered extension codes),
//! * small readers for a Via value and a From/To value as they appear on the wire.

use std::net::{IpAddr, Ipv4Addr, Ipv6Addr, SocketAddr};

// ------------------------------------------------------------------------------------------------
// sec. 18.2.2 destination table

/// `maddr` of the top Via as far as the decision table is concerned
#[derive(Clone, Copy, Debug, PartialEq, Eq)]
pub enum Maddr {
    Absent,
    /// an IPv4address / IPv6reference
    Literal(IpAddr),
    /// a host name (would need a DNS lookup; not asserted by C09)
    HostName,
}

#[derive(Clone, Debug, PartialEq, Eq)]
pub enum Destination {
    /// exactly this address (several when the default port admits two readings)
    OneOf(Vec<SocketAddr>),
    /// the statement does not say (host-name maddr)
    NotAsserted,
}

/// RFC 3261 sec. 18.2.2 bullets 2-4 combined with RFC 3581 sec. 4 for a datagram transport:
/// maddr -> (maddr, port of sent-by or default port); else, if the request's top Via carried an
/// `rport` parameter (with or without value) -> (source ip, source port); else the `received`
/// address, which is the packet source. `secure_default` = the Via's transport token names a
/// transport whose default port is 5061 (TLS): the property statement says 5060, the RFC says
/// "default port for the transport", both are accepted.
pub fn response_destination(
    maddr: Maddr,
    sent_by_port: Option<u16>,
    rport_requested: bool,
    source: SocketAddr,
    secure_default: bool,
) -> Destination {
    match maddr {
        Maddr::Literal(ip) => match sent_by_port {
            Some(p) => Destination::OneOf(vec![SocketAddr::new(ip, p)]),
            None => {
                let mut v = vec![SocketAddr::new(ip, 5060)];
                if secure_default {
                    v.push(SocketAddr::new(ip, 5061));
                }
                Destination::OneOf(v)
            }
        },
        Maddr::HostName => Destination::NotAsserted,
        Maddr::Absent => {
            if rport_requested {
                Destination::OneOf(vec![SocketAddr::new(source.ip(), source.port())])
            } else {
                // "packet source" (the statement); the sent-by port reading of sec. 18.2.2 is listed as
                // not asserted in DESIGN.md, the statement says packet source
                Destination::OneOf(vec![source])
            }
        }
    }
}

/// host of a sent-by / maddr as written
#[derive(Clone, Debug, PartialEq, Eq)]
pub enum RefHost {
    Ip(IpAddr),
    Name(String),
}

impl RefHost {
    pub fn same_as(&self, other: &RefHost) -> bool {
        match (self, other) {
            (RefHost::Ip(a), RefHost::Ip(b)) => a == b,
            (RefHost::Name(a), RefHost::Name(b)) => a.eq_ignore_ascii_case(b),
            _ => false,
        }
    }
}

/// sec. 18.2.1: `received` MUST be added when the sent-by host is a domain name or differs from the
/// packet source address. Returns true when the stamp is required.
pub fn received_required(sent_by: &RefHost, source_ip: IpAddr) -> bool {
    match sent_by {
        RefHost::Name(_) => true,
        RefHost::Ip(ip) => *ip != source_ip,
    }
}

// ------------------------------------------------------------------------------------------------
// reason phrases

/// RFC 3261 status codes: sec. 21 section titles first, sec. 25.1 ABNF spellings after them where
/// the two differ. Comparison is ASCII-case-insensitive.
pub fn rfc3261_reason(code: u16) -> Option<&'static [&'static str]> {
    Some(match code {
        100 => &["Trying"],
        180 => &["Ringing"],
        181 => &["Call Is Being Forwarded"],
        182 => &["Queued"],
        183 => &["Session Progress"],
        200 => &["OK"],
        300 => &["Multiple Choices"],
        301 => &["Moved Permanently"],
        302 => &["Moved Temporarily"],
        305 => &["Use Proxy"],
        380 => &["Alternative Service"],
        400 => &["Bad Request"],
        401 => &["Unauthorized"],
        402 => &["Payment Required"],
        403 => &["Forbidden"],
        404 => &["Not Found"],
        405 => &["Method Not Allowed"],
        406 => &["Not Acceptable"],
        407 => &["Proxy Authentication Required"],
        408 => &["Request Timeout", "Request Time-out"],
        410 => &["Gone"],
        413 => &["Request Entity Too Large"],
        414 => &["Request-URI Too Long", "Request-URI Too Large"],
        415 => &["Unsupported Media Type"],
        416 => &["Unsupported URI Scheme"],
        420 => &["Bad Extension"],
        421 => &["Extension Required"],
        423 => &["Interval Too Brief"],
        480 => &["Temporarily Unavailable", "Temporarily not available"],
        481 => &[
            "Call/Transaction Does Not Exist",
            "Call Leg/Transaction Does Not Exist",
        ],
        482 => &["Loop Detected"],
        483 => &["Too Many Hops"],
        484 => &["Address Incomplete"],
        485 => &["Ambiguous"],
        486 => &["Busy Here"],
        487 => &["Request Terminated"],
        488 => &["Not Acceptable Here"],
        491 => &["Request Pending"],
        493 => &["Undecipherable"],
        500 => &["Server Internal Error", "Internal Server Error"],
        501 => &["Not Implemented"],
        502 => &["Bad Gateway"],
        503 => &["Service Unavailable"],
        504 => &["Server Time-out", "Server Timeout"],
        505 => &["Version Not Supported", "SIP Version not supported"],
        513 => &["Message Too Large"],
        600 => &["Busy Everywhere"],
        603 => &["Decline"],
        604 => &["Does Not Exist Anywhere", "Does not exist anywhere"],
        606 => &["Not Acceptable"],
        _ => return None,
    })
}

/// IANA "SIP Response Codes" registered by later RFCs. A stack need not know them (nothing is asserted
/// when no phrase is printed), but a phrase printed by default for one of them must be the registered one.
pub fn extension_reason(code: u16) -> Option<&'static [&'static str]> {
    Some(match code {
        199 => &["Early Dialog Terminated"],
        202 => &["Accepted"],
        204 => &["No Notification"],
        412 => &["Conditional Request Failed"],
        417 => &["Unknown Resource-Priority"],
        422 => &["Session Interval Too Small"],
        424 => &["Bad Location Information"],
        425 => &["Bad Alert Message"],
        428 => &["Use Identity Header"],
        429 => &["Provide Referrer Identity"],
        430 => &["Flow Failed"],
        433 => &["Anonymity Disallowed"],
        436 => &["Bad Identity-Info", "Bad Identity Info"],
        437 => &["Unsupported Certificate", "Unsupported Credential"],
        438 => &["Invalid Identity Header"],
        439 => &["First Hop Lacks Outbound Support"],
        440 => &["Max-Breadth Exceeded"],
        469 => &["Bad Info Package"],
        470 => &["Consent Needed"],
        489 => &["Bad Event"],
        494 => &["Security Agreement Required"],
        555 => &["Push Notification Service Not Supported"],
        580 => &["Precondition Failure"],
        607 => &["Unwanted"],
        608 => &["Rejected"],
        _ => return None,
    })
}

// ------------------------------------------------------------------------------------------------
// wire readers

pub fn is_token_char(c: char) -> bool {
    c.is_ascii_alphanumeric() || "-.!%*_+`'~".contains(c)
}

pub fn is_token(s: &str) -> bool {
    !s.is_empty() && s.chars().all(is_token_char)
}

/// split at `sep` outside double quotes (backslash escapes inside quotes respected)
pub fn split_outside_quotes(s: &str, sep: char) -> Vec<String> {
    let mut out = vec![];
    let mut cur = String::new();
    let mut in_q = false;
    let mut esc = false;
    for c in s.chars() {
        if in_q {
            cur.push(c);
            if esc {
                esc = false;
            } else if c == '\\' {
                esc = true;
            } else if c == '"' {
                in_q = false;
            }
        } else if c == '"' {
            in_q = true;
            cur.push(c);
        } else if c == sep {
            out.push(std::mem::take(&mut cur));
        } else {
            cur.push(c);
        }
    }
    out.push(cur);
    out
}

/// `;name[=value]` list (text after the first element was removed); value kept as written (quotes included)
pub fn parse_params(parts: &[String]) -> Vec<(String, Option<String>)> {
    let mut out = vec![];
    for p in parts {
        let p = p.trim();
        if p.is_empty() {
            continue;
        }
        let kv = split_outside_quotes(p, '=');
        if kv.len() == 1 {
            out.push((kv[0].trim().to_string(), None));
        } else {
            let name = kv[0].trim().to_string();
            let value = kv[1..].join("=").trim().to_string();
            out.push((name, Some(value)));
        }
    }
    out
}

/// content of a quoted-string with the quotes removed and `\x` pairs resolved; None when not quoted
pub fn unquote(s: &str) -> Option<String> {
    let s = s.trim();
    if s.len() >= 2 && s.starts_with('"') && s.ends_with('"') {
        let inner = &s[1..s.len() - 1];
        let mut out = String::new();
        let mut esc = false;
        for c in inner.chars() {
            if esc {
                out.push(c);
                esc = false;
            } else if c == '\\' {
                esc = true;
            } else {
                out.push(c);
            }
        }
        Some(out)
    } else {
        None
    }
}

pub fn parse_host(s: &str) -> Option<RefHost> {
    let s = s.trim();
    if s.is_empty() {
        return None;
    }
    if let Some(inner) = s.strip_prefix('[') {
        let inner = inner.strip_suffix(']')?;
        return inner.parse::<Ipv6Addr>().ok().map(|a| RefHost::Ip(IpAddr::V6(a)));
    }
    if let Ok(a) = s.parse::<Ipv4Addr>() {
        return Some(RefHost::Ip(IpAddr::V4(a)));
    }
    Some(RefHost::Name(s.to_string()))
}

/// an IP address written as IPv4address, IPv6address or IPv6reference (for `received` / `maddr`)
pub fn parse_ip_lenient(s: &str) -> Option<IpAddr> {
    let s = s.trim();
    let s = s.strip_prefix('[').and_then(|x| x.strip_suffix(']')).unwrap_or(s);
    s.parse::<IpAddr>().ok()
}

pub fn parse_host_port(s: &str) -> Option<(RefHost, Option<u16>)> {
    let s = s.trim();
    if s.starts_with('[') {
        let end = s.find(']')?;
        let host = parse_host(&s[..=end])?;
        let rest = s[end + 1..].trim();
        if rest.is_empty() {
            return Some((host, None));
        }
        let port = rest.strip_prefix(':')?.trim().parse::<u16>().ok()?;
        return Some((host, Some(port)));
    }
    match s.rfind(':') {
        Some(i) => {
            let port = s[i + 1..].trim().parse::<u16>().ok()?;
            Some((parse_host(&s[..i])?, Some(port)))
        }
        None => Some((parse_host(s)?, None)),
    }
}

#[derive(Clone, Debug, PartialEq, Eq)]
pub struct RefVia {
    pub transport: String,
    pub host: RefHost,
    pub port: Option<u16>,
    pub params: Vec<(String, Option<String>)>,
}

/// via-parm = "SIP" SLASH "2.0" SLASH transport LWS sent-by *( SEMI via-params )
pub fn parse_via(value: &str) -> Option<RefVia> {
    let parts = split_outside_quotes(value, ';');
    let head = parts[0].trim();
    let mut it = head.splitn(3, '/');
    let name = it.next()?.trim();
    let version = it.next()?.trim();
    let rest = it.next()?.trim();
    if !name.eq_ignore_ascii_case("SIP") || version != "2.0" {
        return None;
    }
    let ws = rest.find(|c: char| c == ' ' || c == '\t')?;
    let transport = rest[..ws].to_string();
    let (host, port) = parse_host_port(&rest[ws..])?;
    Some(RefVia {
        transport,
        host,
        port,
        params: parse_params(&parts[1..]),
    })
}

#[derive(Clone, Debug, PartialEq, Eq)]
pub struct RefNameAddr {
    /// display name with quotes removed (None: absent or empty)
    pub display: Option<String>,
    /// addr-spec as written
    pub uri: String,
    /// header parameters (after the '>' or, without angle brackets, after the first ';')
    pub params: Vec<(String, Option<String>)>,
}

/// From / To value: ( name-addr / addr-spec ) *( SEMI param )
pub fn parse_name_addr(value: &str) -> Option<RefNameAddr> {
    // find '<' outside quotes
    let mut in_q = false;
    let mut esc = false;
    let mut lt = None;
    for (i, c) in value.char_indices() {
        if in_q {
            if esc {
                esc = false;
            } else if c == '\\' {
                esc = true;
            } else if c == '"' {
                in_q = false;
            }
        } else if c == '"' {
            in_q = true;
        } else if c == '<' {
            lt = Some(i);
            break;
        }
    }
    match lt {
        Some(i) => {
            let gt = i + value[i..].find('>')?;
            let disp = value[..i].trim();
            let display = if disp.is_empty() {
                None
            } else {
                Some(unquote(disp).unwrap_or_else(|| disp.to_string()))
            };
            let display = display.filter(|d| !d.is_empty());
            let tail = &value[gt + 1..];
            let parts = split_outside_quotes(tail, ';');
            if !parts[0].trim().is_empty() {
                return None;
            }
            Some(RefNameAddr {
                display,
                uri: value[i + 1..gt].trim().to_string(),
                params: parse_params(&parts[1..]),
            })
        }
        None => {
            let parts = split_outside_quotes(value, ';');
            Some(RefNameAddr {
                display: None,
                uri: parts[0].trim().to_string(),
                params: parse_params(&parts[1..]),
            })
        }
    }
}

#[cfg(test)]
mod tests {
    use super::*;

    #[test]
    fn via_reader() {
        let v = parse_via("SIP / 2.0 / UDP  [2001:DB8::1]:5070 ;branch=z9hG4bKx ; rport;x=\"a;b\"").unwrap();
        assert_eq!(v.transport, "UDP");
        assert_eq!(v.host, RefHost::Ip("2001:db8::1".parse().unwrap()));
        assert_eq!(v.port, Some(5070));
        assert_eq!(v.params.len(), 3);
        assert_eq!(v.params[1], ("rport".into(), None));
        assert_eq!(v.params[2], ("x".into(), Some("\"a;b\"".into())));
        let v = parse_via("SIP/2.0/TCP host.example.com;received=2001:db8::9").unwrap();
        assert_eq!(v.host, RefHost::Name("host.example.com".into()));
        assert_eq!(v.port, None);
        assert_eq!(v.params[0].1.as_deref(), Some("2001:db8::9"));
    }

    #[test]
    fn name_addr_reader() {
        let n = parse_name_addr("\"A <b>; c\" <sip:a@h;user=phone>;tag=1;x").unwrap();
        assert_eq!(n.display.as_deref(), Some("A <b>; c"));
        assert_eq!(n.uri, "sip:a@h;user=phone");
        assert_eq!(n.params, vec![("tag".into(), Some("1".into())), ("x".into(), None)]);
        let n = parse_name_addr("sip:a@h;tag=1").unwrap();
        assert_eq!(n.uri, "sip:a@h");
        assert_eq!(n.params.len(), 1);
    }

    #[test]
    fn table() {
        let src: SocketAddr = "192.0.2.1:4444".parse().unwrap();
        let m: IpAddr = "224.0.1.75".parse().unwrap();
        assert_eq!(
            response_destination(Maddr::Literal(m), None, true, src, false),
            Destination::OneOf(vec![SocketAddr::new(m, 5060)])
        );
        assert_eq!(
            response_destination(Maddr::Literal(m), Some(7), false, src, false),
            Destination::OneOf(vec![SocketAddr::new(m, 7)])
        );
        assert_eq!(response_destination(Maddr::Absent, Some(7), true, src, false), Destination::OneOf(vec![src]));
        assert_eq!(response_destination(Maddr::HostName, Some(7), true, src, false), Destination::NotAsserted);
    }
}
