//! RFC 3261 §17 timer arithmetic, written from the RFC (T1 = 500 ms, T2 = 4 s, T4 = 5 s).

pub const T1: u64 = 500;
pub const T2: u64 = 4000;
pub const T4: u64 = 5000;
pub const TIMEOUT: u64 = 64 * T1;

/// Instants (ms after the first send) at which an unreliable client transaction transmits the
/// request while no response has arrived: Timer A doubles without cap (INVITE), Timer E doubles
/// and is capped at T2 (non-INVITE); both stop when Timer B/F fires at 64*T1.
pub fn client_send_schedule(invite: bool) -> Vec<u64> {
    let mut out = vec![0];
    let mut t = 0;
    let mut interval = T1;
    loop {
        t += interval;
        if t >= TIMEOUT {
            break;
        }
        out.push(t);
        interval *= 2;
        if !invite {
            interval = interval.min(T2);
        }
    }
    out
}

/// Instants (ms after the first transmission of the response) at which an INVITE server
/// transaction (unreliable) re-sends a 3xx-6xx by timer G: T1 doubling capped at T2, until
/// timer H at 64*T1.
pub fn server_inv_timer_g_schedule() -> Vec<u64> {
    let mut out = vec![];
    let mut t = 0;
    let mut interval = T1;
    loop {
        t += interval;
        if t >= TIMEOUT {
            break;
        }
        out.push(t);
        interval = (interval * 2).min(T2);
    }
    out
}

/// RFC 3262 reliable provisional: gaps T1, 2*T1, 4*T1 ... (doubling, no cap) for 64*T1
pub fn rel1xx_schedule() -> Vec<u64> {
    client_send_schedule(true)
}

#[cfg(test)]
mod t {
    use super::*;
    #[test]
    fn schedules() {
        assert_eq!(
            client_send_schedule(true),
            vec![0, 500, 1500, 3500, 7500, 15500, 31500]
        );
        assert_eq!(
            client_send_schedule(false),
            vec![0, 500, 1500, 3500, 7500, 11500, 15500, 19500, 23500, 27500, 31500]
        );
        assert_eq!(
            server_inv_timer_g_schedule(),
            vec![500, 1500, 3500, 7500, 11500, 15500, 19500, 23500, 27500, 31500]
        );
    }
}
