//! Independent RFC 8489 (STUN) / RFC 8656 (TURN attributes) encoder, decoder and verifier.
//!
//! Written from the RFC text only; shares no code with `ezk-stun-types`. Primitives used:
//! `hmac`, `sha1`, `sha2`, `md5`. CRC-32 is implemented here bit by bit.
//!
//! Wire format recap (RFC 8489 §5, §14):
//!   header  = type(2, top two bits 0) | length(2, bytes after the header) | cookie 0x2112A442 | tid(12)
//!   attr    = type(2) | length(2, value length BEFORE padding) | value | 0..3 padding bytes
//!   type    = M11..M7 C1 M6..M4 C0 M3..M0

use hmac::{Hmac, Mac};
use serde::{Deserialize, Serialize};
use sha1::Sha1;
use sha2::{Digest, Sha256};

pub const COOKIE: [u8; 4] = [0x21, 0x12, 0xA4, 0x42];

// attribute type codes (IANA registry)
pub const T_MAPPED_ADDRESS: u16 = 0x0001;
pub const T_USERNAME: u16 = 0x0006;
pub const T_MESSAGE_INTEGRITY: u16 = 0x0008;
pub const T_ERROR_CODE: u16 = 0x0009;
pub const T_UNKNOWN_ATTRIBUTES: u16 = 0x000A;
pub const T_CHANNEL_NUMBER: u16 = 0x000C;
pub const T_LIFETIME: u16 = 0x000D;
pub const T_XOR_PEER_ADDRESS: u16 = 0x0012;
pub const T_DATA: u16 = 0x0013;
pub const T_REALM: u16 = 0x0014;
pub const T_NONCE: u16 = 0x0015;
pub const T_XOR_RELAYED_ADDRESS: u16 = 0x0016;
pub const T_EVEN_PORT: u16 = 0x0018;
pub const T_REQUESTED_TRANSPORT: u16 = 0x0019;
pub const T_DONT_FRAGMENT: u16 = 0x001A;
pub const T_MESSAGE_INTEGRITY_SHA256: u16 = 0x001C;
pub const T_PASSWORD_ALGORITHM: u16 = 0x001D;
pub const T_USERHASH: u16 = 0x001E;
pub const T_XOR_MAPPED_ADDRESS: u16 = 0x0020;
pub const T_RESERVATION_TOKEN: u16 = 0x0022;
pub const T_PASSWORD_ALGORITHMS: u16 = 0x8002;
pub const T_ALTERNATE_DOMAIN: u16 = 0x8003;
pub const T_SOFTWARE: u16 = 0x8022;
pub const T_ALTERNATE_SERVER: u16 = 0x8023;
pub const T_FINGERPRINT: u16 = 0x8028;

/// message class, RFC 8489 §5: 0b00 request, 0b01 indication, 0b10 success, 0b11 error
#[derive(Clone, Copy, Debug, PartialEq, Eq, Hash, Serialize, Deserialize)]
pub enum RClass {
    Request,
    Indication,
    Success,
    Error,
}

impl RClass {
    pub fn bits(self) -> u16 {
        match self {
            RClass::Request => 0,
            RClass::Indication => 1,
            RClass::Success => 2,
            RClass::Error => 3,
        }
    }
    pub fn from_bits(b: u16) -> RClass {
        match b & 3 {
            0 => RClass::Request,
            1 => RClass::Indication,
            2 => RClass::Success,
            _ => RClass::Error,
        }
    }
}

#[derive(Clone, Copy, Debug, PartialEq, Eq, Hash, Serialize, Deserialize)]
pub enum RAddr {
    V4 { ip: [u8; 4], port: u16 },
    V6 { ip: [u8; 16], port: u16 },
}

impl RAddr {
    pub fn to_std(self) -> std::net::SocketAddr {
        match self {
            RAddr::V4 { ip, port } => std::net::SocketAddr::from((ip, port)),
            RAddr::V6 { ip, port } => std::net::SocketAddr::from((ip, port)),
        }
    }
    pub fn from_std(a: std::net::SocketAddr) -> RAddr {
        match a {
            std::net::SocketAddr::V4(a) => RAddr::V4 { ip: a.ip().octets(), port: a.port() },
            std::net::SocketAddr::V6(a) => RAddr::V6 { ip: a.ip().octets(), port: a.port() },
        }
    }
}

#[derive(Clone, Debug, PartialEq, Eq, Hash, Serialize, Deserialize)]
pub enum RAttr {
    MappedAddress(RAddr),
    XorMappedAddress(RAddr),
    AlternateServer(RAddr),
    XorPeerAddress(RAddr),
    XorRelayedAddress(RAddr),
    Username(String),
    Realm(String),
    Software(String),
    Nonce(Vec<u8>),
    Data(Vec<u8>),
    AlternateDomain(Vec<u8>),
    ErrorCode { code: u16, reason: String },
    UnknownAttributes(Vec<u16>),
    PasswordAlgorithm { alg: u16, params: Vec<u8> },
    PasswordAlgorithms(Vec<(u16, Vec<u8>)>),
    UserHash(Vec<u8>), // always 32 bytes
    Lifetime(u32),
    ChannelNumber(u16),
    RequestedTransport(u8),
    EvenPort(bool),
    DontFragment,
    ReservationToken(Vec<u8>), // always 8 bytes
}

impl RAttr {
    pub fn typ(&self) -> u16 {
        match self {
            RAttr::MappedAddress(_) => T_MAPPED_ADDRESS,
            RAttr::XorMappedAddress(_) => T_XOR_MAPPED_ADDRESS,
            RAttr::AlternateServer(_) => T_ALTERNATE_SERVER,
            RAttr::XorPeerAddress(_) => T_XOR_PEER_ADDRESS,
            RAttr::XorRelayedAddress(_) => T_XOR_RELAYED_ADDRESS,
            RAttr::Username(_) => T_USERNAME,
            RAttr::Realm(_) => T_REALM,
            RAttr::Software(_) => T_SOFTWARE,
            RAttr::Nonce(_) => T_NONCE,
            RAttr::Data(_) => T_DATA,
            RAttr::AlternateDomain(_) => T_ALTERNATE_DOMAIN,
            RAttr::ErrorCode { .. } => T_ERROR_CODE,
            RAttr::UnknownAttributes(_) => T_UNKNOWN_ATTRIBUTES,
            RAttr::PasswordAlgorithm { .. } => T_PASSWORD_ALGORITHM,
            RAttr::PasswordAlgorithms(_) => T_PASSWORD_ALGORITHMS,
            RAttr::UserHash(_) => T_USERHASH,
            RAttr::Lifetime(_) => T_LIFETIME,
            RAttr::ChannelNumber(_) => T_CHANNEL_NUMBER,
            RAttr::RequestedTransport(_) => T_REQUESTED_TRANSPORT,
            RAttr::EvenPort(_) => T_EVEN_PORT,
            RAttr::DontFragment => T_DONT_FRAGMENT,
            RAttr::ReservationToken(_) => T_RESERVATION_TOKEN,
        }
    }

    pub fn is_address(&self) -> bool {
        matches!(
            self,
            RAttr::MappedAddress(_)
                | RAttr::XorMappedAddress(_)
                | RAttr::AlternateServer(_)
                | RAttr::XorPeerAddress(_)
                | RAttr::XorRelayedAddress(_)
        )
    }
}

/// HMAC key material, RFC 8489 §9.1.1 / §9.2.2 / §18.5
#[derive(Clone, Debug, PartialEq, Eq, Hash, Serialize, Deserialize)]
pub enum RKey {
    ShortTerm { password: String },
    LongTermMd5 { user: String, realm: String, password: String },
    LongTermSha256 { user: String, realm: String, password: String },
    Raw(Vec<u8>),
}

impl RKey {
    /// short-term: key = password (OpaqueString-prepared; generators only produce strings that
    /// the profile leaves unchanged); long-term MD5: MD5(user ":" realm ":" pass);
    /// SHA-256: SHA-256(user ":" realm ":" pass)
    pub fn bytes(&self) -> Vec<u8> {
        match self {
            RKey::ShortTerm { password } => password.as_bytes().to_vec(),
            RKey::LongTermMd5 { user, realm, password } => {
                let mut v = Vec::new();
                v.extend_from_slice(user.as_bytes());
                v.push(b':');
                v.extend_from_slice(realm.as_bytes());
                v.push(b':');
                v.extend_from_slice(password.as_bytes());
                md5::compute(&v).0.to_vec()
            }
            RKey::LongTermSha256 { user, realm, password } => {
                let mut h = Sha256::new();
                h.update(user.as_bytes());
                h.update(b":");
                h.update(realm.as_bytes());
                h.update(b":");
                h.update(password.as_bytes());
                h.finalize().to_vec()
            }
            RKey::Raw(k) => k.clone(),
        }
    }
}

/// trailing protection attributes, in wire order
#[derive(Clone, Debug, PartialEq, Eq, Hash, Serialize, Deserialize)]
pub enum RTail {
    Integrity(RKey),
    IntegritySha256(RKey),
    Fingerprint,
}

#[derive(Clone, Debug, PartialEq, Eq, Hash, Serialize, Deserialize)]
pub struct RMsg {
    pub class: RClass,
    /// 12-bit method number (Binding = 1)
    pub method: u16,
    pub tid: [u8; 12],
    pub attrs: Vec<RAttr>,
    pub tail: Vec<RTail>,
}

pub fn message_type(class: RClass, method: u16) -> u16 {
    let m = method & 0x0FFF;
    let c = class.bits();
    (m & 0x000F) | ((m & 0x0070) << 1) | ((m & 0x0F80) << 2) | ((c & 1) << 4) | ((c & 2) << 7)
}

pub fn split_message_type(t: u16) -> (RClass, u16) {
    let c = ((t >> 4) & 1) | ((t >> 7) & 2);
    let m = (t & 0x000F) | ((t >> 1) & 0x0070) | ((t >> 2) & 0x0F80);
    (RClass::from_bits(c), m)
}

pub fn pad_len(n: usize) -> usize {
    (4 - (n & 3)) & 3
}

// --- CRC-32 (ISO 3309 / ITU-T V.42), bitwise, reflected polynomial 0xEDB88320 -------------------

pub fn crc32(data: &[u8]) -> u32 {
    let mut crc: u32 = 0xFFFF_FFFF;
    for &b in data {
        crc ^= b as u32;
        for _ in 0..8 {
            let lsb = crc & 1;
            crc >>= 1;
            if lsb != 0 {
                crc ^= 0xEDB8_8320;
            }
        }
    }
    !crc
}

pub fn hmac_sha1(key: &[u8], data: &[u8]) -> Vec<u8> {
    let mut m = <Hmac<Sha1> as Mac>::new_from_slice(key).expect("hmac accepts any key length");
    m.update(data);
    m.finalize().into_bytes().to_vec()
}

pub fn hmac_sha256(key: &[u8], data: &[u8]) -> Vec<u8> {
    let mut m = <Hmac<Sha256> as Mac>::new_from_slice(key).expect("hmac accepts any key length");
    m.update(data);
    m.finalize().into_bytes().to_vec()
}

/// USERHASH value: SHA-256(username ":" realm), RFC 8489 §14.4
pub fn userhash(user: &str, realm: &str) -> Vec<u8> {
    let mut h = Sha256::new();
    h.update(user.as_bytes());
    h.update(b":");
    h.update(realm.as_bytes());
    h.finalize().to_vec()
}

// --- value encoders --------------------------------------------------------------------------------

fn xor_pad(tid: &[u8; 12]) -> [u8; 16] {
    let mut x = [0u8; 16];
    x[..4].copy_from_slice(&COOKIE);
    x[4..].copy_from_slice(tid);
    x
}

fn enc_addr(a: &RAddr, xor: bool, tid: &[u8; 12]) -> Vec<u8> {
    let x = if xor { xor_pad(tid) } else { [0u8; 16] };
    let mut v = vec![0u8];
    match a {
        RAddr::V4 { ip, port } => {
            v.push(0x01);
            let p = port.to_be_bytes();
            v.push(p[0] ^ x[0]);
            v.push(p[1] ^ x[1]);
            for i in 0..4 {
                v.push(ip[i] ^ x[i]);
            }
        }
        RAddr::V6 { ip, port } => {
            v.push(0x02);
            let p = port.to_be_bytes();
            v.push(p[0] ^ x[0]);
            v.push(p[1] ^ x[1]);
            for i in 0..16 {
                v.push(ip[i] ^ x[i]);
            }
        }
    }
    v
}

fn dec_addr(v: &[u8], xor: bool, tid: &[u8; 12]) -> Result<RAddr, String> {
    let x = if xor { xor_pad(tid) } else { [0u8; 16] };
    if v.len() < 4 {
        return Err("address value too short".into());
    }
    let port = u16::from_be_bytes([v[2] ^ x[0], v[3] ^ x[1]]);
    match (v[1], v.len()) {
        (0x01, 8) => {
            let mut ip = [0u8; 4];
            for i in 0..4 {
                ip[i] = v[4 + i] ^ x[i];
            }
            Ok(RAddr::V4 { ip, port })
        }
        (0x02, 20) => {
            let mut ip = [0u8; 16];
            for i in 0..16 {
                ip[i] = v[4 + i] ^ x[i];
            }
            Ok(RAddr::V6 { ip, port })
        }
        (f, l) => Err(format!("bad address family {f:#x} / length {l}")),
    }
}

fn enc_pw_alg(alg: u16, params: &[u8], v: &mut Vec<u8>) {
    v.extend_from_slice(&alg.to_be_bytes());
    v.extend_from_slice(&(params.len() as u16).to_be_bytes());
    v.extend_from_slice(params);
    v.extend(std::iter::repeat(0u8).take(pad_len(params.len())));
}

/// the attribute value, unpadded
pub fn encode_value(a: &RAttr, tid: &[u8; 12]) -> Vec<u8> {
    match a {
        RAttr::MappedAddress(x) | RAttr::AlternateServer(x) => enc_addr(x, false, tid),
        RAttr::XorMappedAddress(x) | RAttr::XorPeerAddress(x) | RAttr::XorRelayedAddress(x) => {
            enc_addr(x, true, tid)
        }
        RAttr::Username(s) | RAttr::Realm(s) | RAttr::Software(s) => s.as_bytes().to_vec(),
        RAttr::Nonce(b) | RAttr::Data(b) | RAttr::AlternateDomain(b) => b.clone(),
        RAttr::ErrorCode { code, reason } => {
            // 21 reserved bits, 3 bits class (hundreds), 8 bits number (code mod 100)
            let mut v = vec![0u8, 0u8, (code / 100) as u8 & 0x07, (code % 100) as u8];
            v.extend_from_slice(reason.as_bytes());
            v
        }
        RAttr::UnknownAttributes(l) => l.iter().flat_map(|t| t.to_be_bytes()).collect(),
        RAttr::PasswordAlgorithm { alg, params } => {
            let mut v = vec![];
            enc_pw_alg(*alg, params, &mut v);
            v
        }
        RAttr::PasswordAlgorithms(l) => {
            let mut v = vec![];
            for (alg, params) in l {
                enc_pw_alg(*alg, params, &mut v);
            }
            v
        }
        RAttr::UserHash(h) => h.clone(),
        RAttr::Lifetime(s) => s.to_be_bytes().to_vec(),
        RAttr::ChannelNumber(n) => {
            let b = n.to_be_bytes();
            vec![b[0], b[1], 0, 0]
        }
        RAttr::RequestedTransport(p) => vec![*p, 0, 0, 0],
        // RFC 8656 §18.8: the R bit is the most significant bit of the single value byte
        RAttr::EvenPort(r) => vec![if *r { 0x80 } else { 0x00 }],
        RAttr::DontFragment => vec![],
        RAttr::ReservationToken(t) => t.clone(),
    }
}

fn put_attr(buf: &mut Vec<u8>, typ: u16, value: &[u8]) {
    buf.extend_from_slice(&typ.to_be_bytes());
    buf.extend_from_slice(&(value.len() as u16).to_be_bytes());
    buf.extend_from_slice(value);
    buf.extend(std::iter::repeat(0u8).take(pad_len(value.len())));
}

fn set_length(buf: &mut [u8], len: usize) {
    let l = (len as u16).to_be_bytes();
    buf[2] = l[0];
    buf[3] = l[1];
}

/// RFC 8489 encoder (length field = value length before padding)
pub fn encode(m: &RMsg) -> Vec<u8> {
    let mut buf = Vec::new();
    buf.extend_from_slice(&message_type(m.class, m.method).to_be_bytes());
    buf.extend_from_slice(&[0, 0]);
    buf.extend_from_slice(&COOKIE);
    buf.extend_from_slice(&m.tid);
    for a in &m.attrs {
        put_attr(&mut buf, a.typ(), &encode_value(a, &m.tid));
    }
    for t in &m.tail {
        match t {
            RTail::Integrity(k) => {
                // §14.5: text = message up to the attribute preceding MESSAGE-INTEGRITY, with the
                // header length pointing to the end of the MESSAGE-INTEGRITY attribute
                let end = buf.len() - 20 + 4 + 20;
                set_length(&mut buf, end);
                let mac = hmac_sha1(&k.bytes(), &buf);
                put_attr(&mut buf, T_MESSAGE_INTEGRITY, &mac);
            }
            RTail::IntegritySha256(k) => {
                let end = buf.len() - 20 + 4 + 32;
                set_length(&mut buf, end);
                let mac = hmac_sha256(&k.bytes(), &buf);
                put_attr(&mut buf, T_MESSAGE_INTEGRITY_SHA256, &mac);
            }
            RTail::Fingerprint => {
                // §14.7: CRC over the message up to (excluding) FINGERPRINT, header length
                // already covering the FINGERPRINT attribute
                let end = buf.len() - 20 + 8;
                set_length(&mut buf, end);
                let crc = crc32(&buf) ^ 0x5354_554e;
                put_attr(&mut buf, T_FINGERPRINT, &crc.to_be_bytes());
            }
        }
    }
    let total = buf.len() - 20;
    set_length(&mut buf, total);
    buf
}

// --- decoder -----------------------------------------------------------------------------------------

#[derive(Clone, Debug, PartialEq, Eq)]
pub struct RawAttr {
    pub typ: u16,
    /// offset of the attribute header in the message
    pub offset: usize,
    /// declared value length
    pub len: usize,
    pub value: Vec<u8>,
}

impl RawAttr {
    /// offset one past the padded end of the attribute
    pub fn end(&self) -> usize {
        self.offset + 4 + self.len + pad_len(self.len)
    }
}

#[derive(Clone, Debug, PartialEq, Eq)]
pub struct RDecoded {
    pub class: RClass,
    pub method: u16,
    pub tid: [u8; 12],
    pub length: usize,
    pub attrs: Vec<RawAttr>,
}

/// Decodes header and TLV structure (§5, §14). Accepts both RFC lengths and lengths that
/// already include the padding (they are multiples of 4 then and walk identically).
pub fn decode(bytes: &[u8]) -> Result<RDecoded, String> {
    if bytes.len() < 20 {
        return Err("shorter than a header".into());
    }
    if bytes[0] & 0xC0 != 0 {
        return Err("top two bits not zero".into());
    }
    if bytes[4..8] != COOKIE {
        return Err("magic cookie mismatch".into());
    }
    let (class, method) = split_message_type(u16::from_be_bytes([bytes[0], bytes[1]]));
    let length = u16::from_be_bytes([bytes[2], bytes[3]]) as usize;
    if length % 4 != 0 {
        return Err("length not a multiple of 4".into());
    }
    if bytes.len() != 20 + length {
        return Err(format!("length field {} but {} bytes follow the header", length, bytes.len() - 20));
    }
    let mut tid = [0u8; 12];
    tid.copy_from_slice(&bytes[8..20]);
    let mut attrs = vec![];
    let mut pos = 20;
    while pos < bytes.len() {
        if pos + 4 > bytes.len() {
            return Err("truncated attribute header".into());
        }
        let typ = u16::from_be_bytes([bytes[pos], bytes[pos + 1]]);
        let len = u16::from_be_bytes([bytes[pos + 2], bytes[pos + 3]]) as usize;
        let vend = pos + 4 + len;
        let pend = vend + pad_len(len);
        if pend > bytes.len() {
            return Err("attribute overruns the message".into());
        }
        attrs.push(RawAttr { typ, offset: pos, len, value: bytes[pos + 4..vend].to_vec() });
        pos = pend;
    }
    Ok(RDecoded { class, method, tid, length, attrs })
}

fn dec_pw_alg(v: &[u8]) -> Result<((u16, Vec<u8>), usize), String> {
    if v.len() < 4 {
        return Err("password algorithm shorter than 4".into());
    }
    let alg = u16::from_be_bytes([v[0], v[1]]);
    let len = u16::from_be_bytes([v[2], v[3]]) as usize;
    if v.len() < 4 + len {
        return Err("password algorithm parameters overrun".into());
    }
    let used = (4 + len + pad_len(len)).min(v.len());
    Ok(((alg, v[4..4 + len].to_vec()), used))
}

/// typed decode of one raw attribute (None: type not modelled here)
pub fn decode_attr(raw: &RawAttr, tid: &[u8; 12]) -> Option<Result<RAttr, String>> {
    let v = &raw.value[..];
    let text = |v: &[u8]| String::from_utf8(v.to_vec()).map_err(|e| e.to_string());
    Some(match raw.typ {
        T_MAPPED_ADDRESS => dec_addr(v, false, tid).map(RAttr::MappedAddress),
        T_ALTERNATE_SERVER => dec_addr(v, false, tid).map(RAttr::AlternateServer),
        T_XOR_MAPPED_ADDRESS => dec_addr(v, true, tid).map(RAttr::XorMappedAddress),
        T_XOR_PEER_ADDRESS => dec_addr(v, true, tid).map(RAttr::XorPeerAddress),
        T_XOR_RELAYED_ADDRESS => dec_addr(v, true, tid).map(RAttr::XorRelayedAddress),
        T_USERNAME => text(v).map(RAttr::Username),
        T_REALM => text(v).map(RAttr::Realm),
        T_SOFTWARE => text(v).map(RAttr::Software),
        T_NONCE => Ok(RAttr::Nonce(v.to_vec())),
        T_DATA => Ok(RAttr::Data(v.to_vec())),
        T_ALTERNATE_DOMAIN => Ok(RAttr::AlternateDomain(v.to_vec())),
        T_ERROR_CODE => {
            if v.len() < 4 {
                Err("error code shorter than 4".into())
            } else {
                let code = (v[2] & 0x07) as u16 * 100 + v[3] as u16;
                text(&v[4..]).map(|reason| RAttr::ErrorCode { code, reason })
            }
        }
        T_UNKNOWN_ATTRIBUTES => {
            if v.len() % 2 != 0 {
                Err("odd length".into())
            } else {
                Ok(RAttr::UnknownAttributes(
                    v.chunks(2).map(|c| u16::from_be_bytes([c[0], c[1]])).collect(),
                ))
            }
        }
        T_PASSWORD_ALGORITHM => dec_pw_alg(v).map(|((alg, params), _)| RAttr::PasswordAlgorithm { alg, params }),
        T_PASSWORD_ALGORITHMS => {
            let mut rest = v;
            let mut l = vec![];
            let mut err = None;
            while !rest.is_empty() {
                match dec_pw_alg(rest) {
                    Ok((a, used)) => {
                        l.push(a);
                        rest = &rest[used..];
                    }
                    Err(e) => {
                        err = Some(e);
                        break;
                    }
                }
            }
            match err {
                Some(e) => Err(e),
                None => Ok(RAttr::PasswordAlgorithms(l)),
            }
        }
        T_USERHASH => {
            if v.len() == 32 {
                Ok(RAttr::UserHash(v.to_vec()))
            } else {
                Err("userhash not 32 bytes".into())
            }
        }
        T_LIFETIME => {
            if v.len() == 4 {
                Ok(RAttr::Lifetime(u32::from_be_bytes([v[0], v[1], v[2], v[3]])))
            } else {
                Err("lifetime not 4 bytes".into())
            }
        }
        T_CHANNEL_NUMBER => {
            if v.len() == 4 {
                Ok(RAttr::ChannelNumber(u16::from_be_bytes([v[0], v[1]])))
            } else {
                Err("channel number not 4 bytes".into())
            }
        }
        T_REQUESTED_TRANSPORT => {
            if v.len() == 4 {
                Ok(RAttr::RequestedTransport(v[0]))
            } else {
                Err("requested transport not 4 bytes".into())
            }
        }
        T_EVEN_PORT => {
            if v.is_empty() {
                Err("even port empty".into())
            } else {
                Ok(RAttr::EvenPort(v[0] & 0x80 != 0))
            }
        }
        T_DONT_FRAGMENT => Ok(RAttr::DontFragment),
        T_RESERVATION_TOKEN => {
            if v.len() >= 8 {
                Ok(RAttr::ReservationToken(v[..8].to_vec()))
            } else {
                Err("reservation token shorter than 8".into())
            }
        }
        _ => return None,
    })
}

/// Verifies the first MESSAGE-INTEGRITY (sha256 = false) or MESSAGE-INTEGRITY-SHA256 attribute
/// of `bytes` with `key`. None: no such attribute / message undecodable.
pub fn verify_integrity(bytes: &[u8], key: &[u8], sha256: bool) -> Option<bool> {
    let d = decode_lenient(bytes)?;
    let typ = if sha256 { T_MESSAGE_INTEGRITY_SHA256 } else { T_MESSAGE_INTEGRITY };
    let a = d.iter().find(|a| a.typ == typ)?;
    let mut text = bytes[..a.offset].to_vec();
    set_length(&mut text, a.end() - 20);
    let mac = if sha256 { hmac_sha256(key, &text) } else { hmac_sha1(key, &text) };
    Some(mac == a.value)
}

/// Verifies the FINGERPRINT attribute (first one found).
pub fn verify_fingerprint(bytes: &[u8]) -> Option<bool> {
    let d = decode_lenient(bytes)?;
    let a = d.iter().find(|a| a.typ == T_FINGERPRINT)?;
    if a.value.len() != 4 {
        return Some(false);
    }
    let crc = crc32(&bytes[..a.offset]) ^ 0x5354_554e;
    Some(crc.to_be_bytes()[..] == a.value[..])
}

/// TLV walk only (no header length check) — used by the verifiers so that they can also be
/// applied to corrupted messages
fn decode_lenient(bytes: &[u8]) -> Option<Vec<RawAttr>> {
    if bytes.len() < 20 {
        return None;
    }
    let mut attrs = vec![];
    let mut pos = 20;
    while pos < bytes.len() {
        if pos + 4 > bytes.len() {
            return None;
        }
        let typ = u16::from_be_bytes([bytes[pos], bytes[pos + 1]]);
        let len = u16::from_be_bytes([bytes[pos + 2], bytes[pos + 3]]) as usize;
        let vend = pos + 4 + len;
        let pend = vend + pad_len(len);
        if pend > bytes.len() {
            return None;
        }
        attrs.push(RawAttr { typ, offset: pos, len, value: bytes[pos + 4..vend].to_vec() });
        pos = pend;
    }
    Some(attrs)
}

#[cfg(test)]
mod test {
    use super::*;

    fn hex(s: &str) -> Vec<u8> {
        let s: String = s.chars().filter(|c| c.is_ascii_hexdigit()).collect();
        (0..s.len() / 2).map(|i| u8::from_str_radix(&s[2 * i..2 * i + 2], 16).unwrap()).collect()
    }

    /// RFC 5769 §2.1 sample request (short-term, password "VOkJxbRl1RmTxUk/WvJxBt")
    #[test]
    fn rfc5769_request() {
        let b = hex(
            "0001 0058 2112a442 b7e7a701 bc34d686 fa87dfae \
             8022 0010 5354554e 20746573 7420636c 69656e74 \
             0024 0004 6e0001ff \
             8029 0008 932ff9b1 51263b36 \
             0006 0009 6576746a 3a68367659 202020 \
             0008 0014 9aeaa70c bfd8cb56 781ef2b5 b2d3f249 c1b571a2 \
             8028 0004 e57a3bcf",
        );
        assert_eq!(verify_integrity(&b, b"VOkJxbRl1RmTxUk/WvJxBt", false), Some(true));
        assert_eq!(verify_fingerprint(&b), Some(true));
        assert_eq!(crc32(b"123456789"), 0xCBF43926);
    }

    /// RFC 5769 §2.2 sample IPv4 response: XOR-MAPPED-ADDRESS 192.0.2.1:32853
    #[test]
    fn rfc5769_response_v4() {
        let m = RMsg {
            class: RClass::Success,
            method: 1,
            tid: [0xb7, 0xe7, 0xa7, 0x01, 0xbc, 0x34, 0xd6, 0x86, 0xfa, 0x87, 0xdf, 0xae],
            attrs: vec![
                RAttr::Software("test vector".into()),
                RAttr::XorMappedAddress(RAddr::V4 { ip: [192, 0, 2, 1], port: 32853 }),
            ],
            tail: vec![
                RTail::Integrity(RKey::ShortTerm { password: "VOkJxbRl1RmTxUk/WvJxBt".into() }),
                RTail::Fingerprint,
            ],
        };
        // the RFC sample pads SOFTWARE with 0x20; RFC 8489 allows any padding. Compare the parts
        // that do not depend on the padding byte: header, XOR-MAPPED-ADDRESS
        let b = encode(&m);
        assert_eq!(&b[..2], &[0x01, 0x01]);
        assert_eq!(&b[2..4], &[0x00, 0x3c]);
        assert_eq!(&b[36..48], &hex("0020 0008 0001a147 e112a643")[..]);
        assert_eq!(verify_fingerprint(&b), Some(true));
        assert_eq!(verify_integrity(&b, b"VOkJxbRl1RmTxUk/WvJxBt", false), Some(true));
    }

    /// RFC 5769 §2.3 sample IPv6 response and §2.4 long-term key
    #[test]
    fn rfc5769_v6_and_long_term() {
        let tid = [0xb7, 0xe7, 0xa7, 0x01, 0xbc, 0x34, 0xd6, 0x86, 0xfa, 0x87, 0xdf, 0xae];
        let ip = hex("20010db8 12344567 89ab cdef 0011 2233");
        let mut ip6 = [0u8; 16];
        ip6.copy_from_slice(&hex("2001 0db8 1234 5678 0011 2233 4455 6677"));
        let _ = ip;
        let v = encode_value(&RAttr::XorMappedAddress(RAddr::V6 { ip: ip6, port: 32853 }), &tid);
        assert_eq!(v, hex("0002a147 0113a9fa a5d3f179 bc25f4b5 bed2b9d9"));
        let k = RKey::LongTermMd5 { user: "user".into(), realm: "realm".into(), password: "pass".into() };
        assert_eq!(k.bytes(), hex("8493fbc53ba582fb4c044c456bdc40eb"));
    }
}
