//! Reference decision table for C14: which candidates may carry a request to a sip:/sips: target.
//!
//! Written from the property statement only (RFC 3261 section 19.1.2/26.2.2 port and sips rules); it
//! shares no code or types with ezk.  The table decides, per candidate, whether it is ELIGIBLE:
//!
//! | candidate                    | eligible iff                                                          |
//! |------------------------------|-----------------------------------------------------------------------|
//! | datagram transport           | bound family == destination family  AND (sips => reports secure)      |
//! | existing connection          | outbound AND remote == destination AND open AND (sips => secure)      |
//! | connection factory           | (sips => secure) AND its connect attempt succeeds                     |
//!
//! destination = (IP literal of the URI, URI port, else 5061 for sips, else 5060).
//!
//! `judge` compares one observed outcome with the table.  ezk keeps connections in a HashMap, so the
//! verdict is about MEMBERSHIP in the admissible set, plus the one ordering the statement gives:
//! a live outgoing connection is reused in preference to opening a new one.
//!
//! `judge_later` applies the per-transmission clauses of the statement (never in clear, destination/port
//! rule, datagram family, pinned transport + destination reused) to everything the transaction emits
//! AFTER the first transmission: retransmissions of the request and the ACK for a non-2xx final response
//! (both are requests to the same URI).  It does not demand that they use the transport of the first
//! transmission unless the caller pinned one: the statement does not say so.
//!
//! Requests that carry a (pre-loaded) `Route` header: the statement speaks of "a request to a sips: URI" and
//! of "the URI's port"; RFC 3261 8.1.2 lets the next hop of such a request be the topmost Route entry, with
//! the security requirement of a sips Request-URI carried over to it.  `readings` lists every reading of
//! "the target" the statement admits for such a request (the Request-URI as it stands; the topmost Route
//! entry as next hop, sips if either of the two URIs is sips), `judge_any` / `judge_later_any` accept an
//! observation that is clean under ANY of them.  No reading lets a request whose Request-URI is sips leave
//! over a transport that does not report itself secure.
//!
//! URIs that carry a `;transport=` or `;maddr=` uri parameter: the statement does not mention either.  A `Target`
//! records what the URI carries (`tparam`, `maddr`); `readings` resolves it into every reading the statement
//! admits: the parameter is ignored (what the pinned tree does), or it is honoured (RFC 3261 19.1.1 / RFC 3263
//! 4.1: `transport=` restricts the candidates to the named transport, `maddr=` replaces the host as the
//! address to contact).  How a honouring stack matches a candidate against the value is not specified either
//! (exact name; "TLS also answers to tcp", which is what ezk's `matches_transport_param` documents; RFC 3263:
//! tcp means TLS for sips and TCP for sip), so a honoured value gives TWO candidate sets: the candidates that
//! match under SOME interpretation (membership) and those that match under EVERY interpretation (what
//! liveness and the reuse preference may rely on).  No reading lets a sips target leave over a transport that
//! does not report itself secure: the parameter only ever narrows the table below.
//!
//! A request whose first `Transport::send` call was made to fail by the harness (`Observation::send_fault`)
//! may fail although candidates are eligible; everything that did leave is judged as usual.

use std::net::{IpAddr, SocketAddr};

/// Value class of a `;transport=` uri parameter (compared case-insensitively, RFC 3261 19.1.4)
#[derive(Clone, Copy, Debug, PartialEq, Eq, Hash)]
pub enum TParam {
    Udp,
    Tcp,
    Tls,
    /// a transport nothing in the harness provides (sctp, ws)
    Other,
}

#[derive(Clone, Debug)]
pub struct Target {
    pub sips: bool,
    pub ip: IpAddr,
    pub port: Option<u16>,
    /// the `;transport=` parameter: on a generated target what the URI carries, on a reading (an element of
    /// `readings`) `Some` = the reading honours it
    pub tparam: Option<TParam>,
    /// the `;maddr=` parameter the URI carries; always `None` on a reading (a reading that honours it has it
    /// as `ip`)
    pub maddr: Option<IpAddr>,
}

impl Target {
    /// a URI without `transport=` / `maddr=`
    pub fn plain(sips: bool, ip: IpAddr, port: Option<u16>) -> Target {
        Target {
            sips,
            ip,
            port,
            tparam: None,
            maddr: None,
        }
    }
}

/// Does a candidate (`stream`: connection / factory, else datagram transport; what it reports as `secure`)
/// answer to a honoured `transport=` value: (under every interpretation, under some interpretation)
fn tparam_match(p: TParam, stream: bool, secure: bool, sips: bool) -> (bool, bool) {
    match (p, stream) {
        // an insecure datagram transport is UDP; a secure one is UDP underneath but not named so
        (TParam::Udp, false) => (!secure, true),
        // TCP is tcp; TLS answers to tcp for a sips URI (RFC 3263 4.1), for a sip URI only by ezk's documented rule
        (TParam::Tcp, true) => (!secure || sips, true),
        (TParam::Tls, true) => (secure, secure),
        _ => (false, false),
    }
}

/// (port) rule of the statement; the host is the URI's host (`maddr` is resolved by `readings`)
pub fn destination(t: &Target) -> SocketAddr {
    let port = match t.port {
        Some(p) => p,
        None => {
            if t.sips {
                5061
            } else {
                5060
            }
        }
    };
    SocketAddr::new(t.ip, port)
}

#[derive(Clone, Debug)]
pub struct Dgram {
    pub key: usize,
    pub secure: bool,
    /// family of the socket address the transport reports as bound: the IPv6 wildcard `[::]` and IPv4-mapped
    /// IPv6 addresses are IPv6, `0.0.0.0` is IPv4 (the statement compares families, not reachability)
    pub bound_v6: bool,
}

#[derive(Clone, Copy, Debug, PartialEq, Eq)]
pub enum Life {
    /// open and referenced by a handle the application holds: reuse is demanded
    Held,
    /// open but currently unreferenced (ezk closes it 32 s later): reuse is allowed, not demanded
    Idle,
    /// closed
    Closed,
}

#[derive(Clone, Debug)]
pub struct Conn {
    pub key: usize,
    pub secure: bool,
    pub outbound: bool,
    pub remote: SocketAddr,
    pub life: Life,
}

#[derive(Clone, Debug)]
pub struct Factory {
    pub key: usize,
    pub secure: bool,
    /// whether a connect attempt made now succeeds
    pub connects: bool,
}

#[derive(Clone, Debug, Default)]
pub struct Config {
    pub dgrams: Vec<Dgram>,
    pub conns: Vec<Conn>,
    pub factories: Vec<Factory>,
}

/// What the caller pinned in its target info
#[derive(Clone, Debug)]
pub struct Pin {
    pub carrier: Carrier,
    pub secure: bool,
    pub dest: SocketAddr,
}

#[derive(Clone, Debug, PartialEq, Eq)]
pub enum Carrier {
    /// a configured datagram transport (key in `Config::dgrams`)
    Dgram(usize),
    /// a connection that existed before the request (key in `Config::conns`)
    Conn(usize),
    /// a connection opened during the request by factory `factory` towards `remote`
    NewConn {
        factory: usize,
        secure: bool,
        remote: SocketAddr,
    },
    /// a transport that is not part of the endpoint configuration (only reachable through a pin)
    External(usize),
    /// the harness could not attribute the send
    Unknown,
}

#[derive(Clone, Debug, Default)]
pub struct Eligible {
    pub dest: Option<SocketAddr>,
    pub dgrams: Vec<usize>,
    /// eligible connections whose reuse is demanded
    pub conns_held: Vec<usize>,
    /// eligible connections whose reuse is allowed
    pub conns_idle: Vec<usize>,
    /// eligible factories that would succeed
    pub factories: Vec<usize>,
    /// the subsets of `dgrams` / `conns_held` / `factories` that are eligible under EVERY interpretation of a
    /// honoured `transport=` value (equal to them when the reading has none): what liveness and the reuse
    /// preference are judged with
    pub sure_dgrams: Vec<usize>,
    pub sure_conns_held: Vec<usize>,
    pub sure_factories: Vec<usize>,
}

impl Eligible {
    /// liveness: the request must succeed
    pub fn must_succeed(&self) -> bool {
        !self.sure_dgrams.is_empty() || !self.sure_conns_held.is_empty() || !self.sure_factories.is_empty()
    }
    pub fn may_succeed(&self) -> bool {
        self.must_succeed() || !self.conns_idle.is_empty()
    }
    /// number of different paths (datagram / existing connection / factory) with an eligible candidate
    pub fn paths(&self) -> usize {
        (!self.dgrams.is_empty()) as usize
            + (!(self.conns_held.is_empty() && self.conns_idle.is_empty())) as usize
            + (!self.factories.is_empty()) as usize
    }
}

fn sec_ok(t: &Target, secure: bool) -> bool {
    !t.sips || secure
}

/// The decision table.
pub fn eligible(cfg: &Config, t: &Target) -> Eligible {
    let dest = destination(t);
    let mut e = Eligible {
        dest: Some(dest),
        ..Default::default()
    };
    let named = |stream: bool, secure: bool| match t.tparam {
        None => (true, true),
        Some(p) => tparam_match(p, stream, secure, t.sips),
    };
    for d in &cfg.dgrams {
        let (sure, some) = named(false, d.secure);
        if d.bound_v6 == dest.is_ipv6() && sec_ok(t, d.secure) && some {
            e.dgrams.push(d.key);
            if sure {
                e.sure_dgrams.push(d.key);
            }
        }
    }
    for c in &cfg.conns {
        let (sure, some) = named(true, c.secure);
        if c.outbound && c.remote == dest && sec_ok(t, c.secure) && some {
            match c.life {
                Life::Held => {
                    e.conns_held.push(c.key);
                    if sure {
                        e.sure_conns_held.push(c.key);
                    }
                }
                Life::Idle => e.conns_idle.push(c.key),
                Life::Closed => {}
            }
        }
    }
    for f in &cfg.factories {
        let (sure, some) = named(true, f.secure);
        if sec_ok(t, f.secure) && f.connects && some {
            e.factories.push(f.key);
            if sure {
                e.sure_factories.push(f.key);
            }
        }
    }
    e
}

/// presence of a candidate that must NOT be used for a sips target (non-triviality rule)
pub fn insecure_candidate_present(cfg: &Config) -> bool {
    cfg.dgrams.iter().any(|d| !d.secure)
        || cfg.conns.iter().any(|c| !c.secure && c.life != Life::Closed)
        || cfg.factories.iter().any(|f| !f.secure)
}

/// presence of an insecure candidate that would carry the request if the target were sip: instead of sips:
/// and the reading `t` (with whatever `transport=` it honours) were followed - the candidate a stack that
/// lets the parameter decide picks (non-triviality rule)
pub fn insecure_candidate_named(cfg: &Config, t: &Target) -> bool {
    let twin = Target {
        sips: false,
        ..t.clone()
    };
    let e = eligible(cfg, &twin);
    e.dgrams.iter().any(|k| cfg.dgrams.iter().any(|d| d.key == *k && !d.secure))
        || e
            .conns_held
            .iter()
            .chain(e.conns_idle.iter())
            .any(|k| cfg.conns.iter().any(|c| c.key == *k && !c.secure))
        || e.factories.iter().any(|k| cfg.factories.iter().any(|x| x.key == *k && !x.secure))
}

#[derive(Clone, Debug)]
pub struct Observation {
    /// `send_request` returned Ok
    pub success: bool,
    /// every transmission seen on the mocks during the request: (carrier, carrier reports secure, destination)
    pub sent: Vec<(Carrier, bool, SocketAddr)>,
    /// every factory `connect` call during the request: (factory key, address)
    pub connects: Vec<(usize, SocketAddr)>,
    /// the harness made a `Transport::send` call of this request fail (transient io error): the request may
    /// be reported as failed although candidates are eligible / a usable transport is pinned
    pub send_fault: bool,
}

#[derive(Clone, Debug, PartialEq, Eq)]
pub struct Finding {
    pub sig: String,
    pub msg: String,
}

fn f(out: &mut Vec<Finding>, sig: impl Into<String>, msg: impl Into<String>) {
    let sig = sig.into();
    if !out.iter().any(|x| x.sig == sig) {
        out.push(Finding {
            sig,
            msg: msg.into(),
        });
    }
}

fn path_name(c: &Carrier) -> &'static str {
    match c {
        Carrier::Dgram(_) => "datagram",
        Carrier::Conn(_) => "existing-connection",
        Carrier::NewConn { .. } => "new-connection",
        Carrier::External(_) => "external",
        Carrier::Unknown => "unknown",
    }
}

/// Compare one observed request with the reference.
pub fn judge(cfg: &Config, t: &Target, pin: Option<&Pin>, obs: &Observation) -> Vec<Finding> {
    let mut out = vec![];

    if !obs.success && !obs.sent.is_empty() {
        f(
            &mut out,
            "c14.fail/sent-despite-error",
            format!("the request was reported as failed but {} transmission(s) left: {:?}", obs.sent.len(), obs.sent),
        );
    }
    if obs.success && obs.sent.len() != 1 {
        f(
            &mut out,
            "c14.observe/send-count",
            format!("successful request, expected exactly one transmission, saw {:?}", obs.sent),
        );
    }

    // ---------------- pinned: used verbatim, no selection ----------------
    if let Some(p) = pin {
        let unasserted = t.sips && !p.secure; // statement's two clauses collide: accept verbatim use or refusal
        if !obs.connects.is_empty() {
            f(
                &mut out,
                "c14.pin/selection-ran",
                format!("target info was pinned but a factory was asked to connect: {:?}", obs.connects),
            );
        }
        if !obs.success {
            if !unasserted && !obs.send_fault {
                f(&mut out, "c14.pin/failed", "request with a pinned transport failed");
            }
            return out;
        }
        for (c, _, d) in &obs.sent {
            if *c != p.carrier {
                f(
                    &mut out,
                    "c14.pin/other-transport",
                    format!("pinned {:?} but sent over {:?}", p.carrier, c),
                );
            }
            if *d != p.dest {
                f(
                    &mut out,
                    "c14.pin/other-destination",
                    format!("pinned destination {} but sent to {}", p.dest, d),
                );
            }
        }
        return out;
    }

    // ---------------- selection ----------------
    let e = eligible(cfg, t);
    let dest = destination(t);

    // the stated preference: never open a connection while a live (held) eligible one exists
    if !e.sure_conns_held.is_empty() && !obs.connects.is_empty() {
        f(
            &mut out,
            "c14.reuse/connect-despite-live-connection",
            format!(
                "eligible live outbound connection(s) {:?} to {} exist but connect was called: {:?}",
                e.sure_conns_held, dest, obs.connects
            ),
        );
    }
    // a connect towards anything but the destination
    for (fk, a) in &obs.connects {
        if *a != dest {
            dest_finding(&mut out, t, *a, dest, &format!("connect call to factory {fk}"));
        }
    }

    if !obs.success {
        if e.must_succeed() && !obs.send_fault {
            let which = if !e.sure_dgrams.is_empty() {
                "datagram"
            } else if !e.sure_conns_held.is_empty() {
                "connection"
            } else {
                "factory"
            };
            f(
                &mut out,
                format!("c14.liveness/failed-although-{which}-eligible"),
                format!(
                    "request failed although candidates are eligible: datagrams {:?}, connections {:?}, factories {:?}",
                    e.sure_dgrams, e.sure_conns_held, e.sure_factories
                ),
            );
        }
        return out;
    }

    for (c, secure, d) in &obs.sent {
        let mut explained = false;
        // (safety) — judged on what the carrying transport reports, whatever path produced it
        if t.sips && !*secure {
            explained = true;
            f(
                &mut out,
                format!("c14.safety/sips-over-insecure-{}", path_name(c)),
                format!("sips target sent over {:?} which does not report itself secure", c),
            );
        }
        match c {
            Carrier::Dgram(k) => {
                let Some(dg) = cfg.dgrams.iter().find(|x| x.key == *k) else {
                    f(&mut out, "c14.member/unknown-datagram", format!("{c:?}"));
                    continue;
                };
                if dg.bound_v6 != d.is_ipv6() || dg.bound_v6 != dest.is_ipv6() {
                    explained = true;
                    f(
                        &mut out,
                        "c14.family/datagram-mismatch",
                        format!(
                            "datagram transport bound to {} used for destination {d}",
                            if dg.bound_v6 { "IPv6" } else { "IPv4" }
                        ),
                    );
                }
                if *d != dest {
                    explained = true;
                    dest_finding(&mut out, t, *d, dest, "datagram");
                }
                if !explained && !e.dgrams.contains(k) {
                    f(&mut out, "c14.member/datagram-not-eligible", format!("{c:?} eligible: {:?}", e.dgrams));
                }
            }
            Carrier::Conn(k) => {
                let Some(cn) = cfg.conns.iter().find(|x| x.key == *k) else {
                    f(&mut out, "c14.member/unknown-connection", format!("{c:?}"));
                    continue;
                };
                if !cn.outbound {
                    explained = true;
                    f(
                        &mut out,
                        "c14.reuse/inbound-connection-picked",
                        format!("selection picked the inbound connection from {}", cn.remote),
                    );
                } else if cn.remote != dest {
                    explained = true;
                    let locus = if cn.remote.ip() == dest.ip() { "port" } else { "host" };
                    f(
                        &mut out,
                        format!("c14.reuse/connection-to-other-{locus}"),
                        format!("selection picked the connection to {} for destination {dest}", cn.remote),
                    );
                }
                if cn.life == Life::Closed {
                    explained = true;
                    f(&mut out, "c14.reuse/closed-connection-picked", format!("{cn:?}"));
                }
                if !explained && !(e.conns_held.contains(k) || e.conns_idle.contains(k)) {
                    f(&mut out, "c14.member/connection-not-eligible", format!("{c:?}"));
                }
            }
            Carrier::NewConn { factory, remote, .. } => {
                if *remote != dest {
                    explained = true;
                    dest_finding(&mut out, t, *remote, dest, "new-connection");
                }
                if !e.sure_conns_held.is_empty() {
                    explained = true; // reported above as connect-despite-live-connection
                }
                if !explained && !e.factories.contains(factory) {
                    f(&mut out, "c14.member/factory-not-eligible", format!("{c:?} eligible: {:?}", e.factories));
                }
            }
            Carrier::External(_) | Carrier::Unknown => {
                f(
                    &mut out,
                    "c14.member/foreign-transport",
                    format!("request left over {c:?}, which selection cannot know"),
                );
            }
        }
    }
    out
}

/// Every way to ignore / honour the `transport=` and `maddr=` parameters `t` carries; the first element
/// ignores both.
fn resolve(t: &Target) -> Vec<Target> {
    let mut v = vec![];
    for ip in std::iter::once(t.ip).chain(t.maddr) {
        for tparam in std::iter::once(None).chain(t.tparam.map(Some)) {
            v.push(Target {
                sips: t.sips,
                ip,
                port: t.port,
                tparam,
                maddr: None,
            });
        }
    }
    v
}

/// Every reading of "the target" of a request with Request-URI `t` whose topmost Route entry is `first_route`
/// (see the module comment).  The first element is always the Request-URI reading with its `transport=` /
/// `maddr=` parameters ignored.
pub fn readings(t: &Target, first_route: Option<&Target>) -> Vec<Target> {
    let mut v = resolve(t);
    if let Some(r) = first_route {
        let sips = t.sips || r.sips;
        v.extend(resolve(&Target { sips, ..r.clone() }));
        if r.port.is_none() && sips && !r.sips {
            // a sip: Route entry without port behind a sips Request-URI: the entry's own default port is
            // as good a reading as the sips default (the transport must report itself secure either way)
            v.extend(resolve(&Target {
                sips,
                port: Some(5060),
                ..r.clone()
            }));
        }
    }
    v
}

/// index of the reading to report when none is clean: fewest findings among the readings whose host is the
/// one the request went to, else the Request-URI reading
fn reading_to_report(readings: &[Target], results: &[Vec<Finding>], went_to: Option<IpAddr>) -> usize {
    let mut best: Option<usize> = None;
    for (i, r) in readings.iter().enumerate() {
        if Some(r.ip) == went_to && best.map_or(true, |b| results[i].len() < results[b].len()) {
            best = Some(i);
        }
    }
    best.unwrap_or(0)
}

fn tag_reading(mut v: Vec<Finding>, i: usize, r: &Target) -> Vec<Finding> {
    if i > 0 {
        for x in v.iter_mut() {
            x.msg = format!("{} [judged with the reading {:?}]", x.msg, r);
        }
    }
    v
}

/// `judge` under every reading; clean if any reading is clean.
pub fn judge_any(cfg: &Config, readings: &[Target], pin: Option<&Pin>, obs: &Observation) -> Vec<Finding> {
    let results: Vec<Vec<Finding>> = readings.iter().map(|t| judge(cfg, t, pin, obs)).collect();
    if results.iter().any(|r| r.is_empty()) {
        return vec![];
    }
    let went_to = obs.sent.first().map(|s| s.2.ip()).or(obs.connects.first().map(|c| c.1.ip()));
    let i = reading_to_report(readings, &results, went_to);
    tag_reading(results[i].clone(), i, &readings[i])
}

/// `judge_later` under every reading; clean if any reading is clean.
pub fn judge_later_any(readings: &[Target], pin: Option<&Pin>, later: &[Later]) -> Vec<Finding> {
    let results: Vec<Vec<Finding>> = readings.iter().map(|t| judge_later(t, pin, later)).collect();
    if results.iter().any(|r| r.is_empty()) {
        return vec![];
    }
    let i = reading_to_report(readings, &results, later.first().map(|l| l.dest.ip()));
    tag_reading(results[i].clone(), i, &readings[i])
}

fn dest_finding(out: &mut Vec<Finding>, t: &Target, got: SocketAddr, want: SocketAddr, path: &str) {
    let scheme = if t.sips { "sips" } else { "sip" };
    if got.ip() != want.ip() {
        f(out, "c14.dest/wrong-host", format!("sent to {got} ({path}), destination is {want}"));
    } else {
        f(
            out,
            format!("c14.port/{scheme}-{}", if t.port.is_some() { "explicit" } else { "default" }),
            format!("sent to {got} ({path}), the statement gives {want}"),
        );
    }
}

// ------------------------------------------------------------------------------------------
// transmissions after the first one (retransmissions, ACK for a non-2xx final)

#[derive(Clone, Copy, Debug, PartialEq, Eq)]
pub enum LaterKind {
    /// the request itself, sent again
    Retransmission,
    /// the ACK the INVITE client transaction builds for a 3xx-6xx (same Request-URI as the INVITE)
    Ack,
    /// any other request carrying the transaction's Call-ID
    OtherRequest,
}

impl LaterKind {
    fn name(self) -> &'static str {
        match self {
            LaterKind::Retransmission => "retransmission",
            LaterKind::Ack => "ack",
            LaterKind::OtherRequest => "other-request",
        }
    }
}

#[derive(Clone, Debug)]
pub struct Later {
    pub kind: LaterKind,
    pub carrier: Carrier,
    /// what the carrying transport reports
    pub secure: bool,
    /// datagram carriers: is the transport bound to an IPv6 address
    pub bound_v6: Option<bool>,
    pub dest: SocketAddr,
}

/// Per-transmission clauses for what follows the first transmission of a request to `t`.
pub fn judge_later(t: &Target, pin: Option<&Pin>, later: &[Later]) -> Vec<Finding> {
    let mut out = vec![];
    // sips target + insecure pin: the statement's clauses collide, verbatim use is accepted (see `judge`)
    let unasserted_safety = matches!(pin, Some(p) if t.sips && !p.secure);
    let dest = destination(t);
    for l in later {
        let kind = l.kind.name();
        if t.sips && !l.secure && !unasserted_safety {
            f(
                &mut out,
                format!("c14.safety/sips-{kind}-over-insecure-{}", path_name(&l.carrier)),
                format!("{kind} of a request to a sips target sent over {:?} which does not report itself secure", l.carrier),
            );
        }
        if l.carrier == Carrier::Unknown {
            f(&mut out, format!("c14.observe/{kind}-unattributed"), format!("{kind} left over a transport the harness cannot attribute"));
            continue;
        }
        match pin {
            Some(p) => {
                if l.carrier != p.carrier {
                    f(
                        &mut out,
                        format!("c14.pin/{kind}-other-transport"),
                        format!("pinned {:?} but the {kind} was sent over {:?}", p.carrier, l.carrier),
                    );
                }
                if l.dest != p.dest {
                    f(
                        &mut out,
                        format!("c14.pin/{kind}-other-destination"),
                        format!("pinned destination {} but the {kind} was sent to {}", p.dest, l.dest),
                    );
                }
            }
            None => {
                if l.dest != dest {
                    let scheme = if t.sips { "sips" } else { "sip" };
                    if l.dest.ip() != dest.ip() {
                        f(&mut out, format!("c14.dest/{kind}-wrong-host"), format!("{kind} sent to {}, destination is {dest}", l.dest));
                    } else {
                        f(
                            &mut out,
                            format!("c14.port/{kind}-{scheme}-{}", if t.port.is_some() { "explicit" } else { "default" }),
                            format!("{kind} sent to {}, the statement gives {dest}", l.dest),
                        );
                    }
                }
                if let Some(v6) = l.bound_v6 {
                    if v6 != l.dest.is_ipv6() || v6 != dest.is_ipv6() {
                        f(
                            &mut out,
                            format!("c14.family/{kind}-datagram-mismatch"),
                            format!(
                                "datagram transport bound to {} carried the {kind} to {}",
                                if v6 { "IPv6" } else { "IPv4" },
                                l.dest
                            ),
                        );
                    }
                }
            }
        }
    }
    out
}
