pub mod ref_tsx;
pub mod ref_digest;
pub mod ref_stun;
pub mod ref_select;
pub mod ref_route;
pub mod ref_sip;
pub mod sdp;
pub mod ref_reorder;
