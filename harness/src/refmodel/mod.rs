pub mod ref_tsx;
pub mod ref_digest;
pub mod ref_stun;
pub mod ref_select;
