pub mod ref_tsx;
