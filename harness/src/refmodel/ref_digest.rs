//! Independent Digest access authentication model (RFC 2617, RFC 7616, RFC 8760).
//!
//! Written from the RFC text; shares no code with ezk. Primitives: the `md5` and `sha2` crates.
//!
//!   * `split_header`       — comma/quote-aware splitter of a printed `Digest k=v, k="v", ...` value
//!   * `decode_ext_value`   — RFC 5987 `charset'lang'pct-encoded` decoder (used for `username*`)
//!   * `Alg` / `h`          — algorithm token table and the hash primitives (lower-case hex output)
//!   * `session_ha1`, `ha1`, `ha2`, `response`, `userhash` — RFC 7616 §3.4.1 – §3.4.4
//!
//! Formulas (RFC 7616 §3.4):
//!   A1 (plain)  = unq(username) ":" unq(realm) ":" passwd
//!   A1 (-sess)  = H( unq(username) ":" unq(realm) ":" passwd ) ":" unq(nonce) ":" unq(cnonce)
//!   A2 (auth / no qop) = Method ":" request-uri
//!   A2 (auth-int)      = Method ":" request-uri ":" H(entity-body)
//!   response (qop)     = H( H(A1) ":" unq(nonce) ":" nc ":" unq(cnonce) ":" unq(qop) ":" H(A2) )
//!   response (no qop)  = H( H(A1) ":" unq(nonce) ":" H(A2) )                        (RFC 2069 compat)
//!   userhash username  = H( unq(username) ":" unq(realm) )

use sha2::Digest;

#[derive(Clone, Copy, Debug, PartialEq, Eq)]
pub enum HashKind {
    Md5,
    Sha256,
    /// SHA-512/256 (FIPS 180-4 truncated variant with its own IV), RFC 7616 "SHA-512-256"
    Sha512_256,
}

#[derive(Clone, Copy, Debug, PartialEq, Eq)]
pub struct Alg {
    pub hash: HashKind,
    pub sess: bool,
}

impl Alg {
    /// `algorithm` token → algorithm; tokens are case-insensitive (RFC 3261 §7.3.1);
    /// an absent parameter means MD5 (RFC 2617 §3.2.1)
    pub fn from_token(tok: Option<&str>) -> Option<Alg> {
        let Some(tok) = tok else {
            return Some(Alg { hash: HashKind::Md5, sess: false });
        };
        let t = tok.to_ascii_lowercase();
        let (base, sess) = match t.strip_suffix("-sess") {
            Some(b) => (b.to_string(), true),
            None => (t.clone(), false),
        };
        let hash = match base.as_str() {
            "md5" => HashKind::Md5,
            "sha-256" => HashKind::Sha256,
            "sha-512-256" => HashKind::Sha512_256,
            _ => return None,
        };
        Some(Alg { hash, sess })
    }

    pub fn hex_len(self) -> usize {
        match self.hash {
            HashKind::Md5 => 32,
            HashKind::Sha256 | HashKind::Sha512_256 => 64,
        }
    }
}

fn hex(bytes: &[u8]) -> String {
    const D: &[u8; 16] = b"0123456789abcdef";
    let mut s = String::with_capacity(bytes.len() * 2);
    for b in bytes {
        s.push(D[(b >> 4) as usize] as char);
        s.push(D[(b & 15) as usize] as char);
    }
    s
}

/// H(data) as lower-case hex
pub fn h(kind: HashKind, data: &[u8]) -> String {
    match kind {
        HashKind::Md5 => hex(&md5::compute(data).0),
        HashKind::Sha256 => {
            let mut x = sha2::Sha256::new();
            x.update(data);
            hex(&x.finalize())
        }
        HashKind::Sha512_256 => {
            let mut x = sha2::Sha512_256::new();
            x.update(data);
            hex(&x.finalize())
        }
    }
}

fn join(parts: &[&[u8]]) -> Vec<u8> {
    let mut v = Vec::new();
    for (i, p) in parts.iter().enumerate() {
        if i > 0 {
            v.push(b':');
        }
        v.extend_from_slice(p);
    }
    v
}

/// H(user:realm:password) — HA1 of the plain algorithms, inner hash of the -sess ones
pub fn ha1_base(kind: HashKind, user: &str, realm: &str, password: &str) -> String {
    h(kind, &join(&[user.as_bytes(), realm.as_bytes(), password.as_bytes()]))
}

/// HA1 of a `-sess` algorithm: H( H(user:realm:password) : nonce : cnonce )
pub fn session_ha1(kind: HashKind, user: &str, realm: &str, password: &str, nonce: &str, cnonce: &str) -> String {
    let inner = ha1_base(kind, user, realm, password);
    h(kind, &join(&[inner.as_bytes(), nonce.as_bytes(), cnonce.as_bytes()]))
}

/// H(A2). `qop` is the (unquoted) qop of the credentials, `None` when absent.
pub fn ha2(kind: HashKind, qop: Option<&str>, method: &str, uri: &str, body: &[u8]) -> Result<String, String> {
    match qop {
        None | Some("auth") => Ok(h(kind, &join(&[method.as_bytes(), uri.as_bytes()]))),
        Some("auth-int") => {
            let hb = h(kind, body);
            Ok(h(kind, &join(&[method.as_bytes(), uri.as_bytes(), hb.as_bytes()])))
        }
        Some(other) => Err(format!("qop {other:?} is not defined by RFC 7616")),
    }
}

/// The request-digest. `ha1` is H(A1) (already the session key for -sess).
pub fn response(
    kind: HashKind,
    ha1: &str,
    nonce: &str,
    qop: Option<(&str /*qop*/, &str /*nc text, verbatim*/, &str /*cnonce*/)>,
    ha2: &str,
) -> String {
    match qop {
        Some((qop, nc, cnonce)) => h(
            kind,
            &join(&[
                ha1.as_bytes(),
                nonce.as_bytes(),
                nc.as_bytes(),
                cnonce.as_bytes(),
                qop.as_bytes(),
                ha2.as_bytes(),
            ]),
        ),
        None => h(kind, &join(&[ha1.as_bytes(), nonce.as_bytes(), ha2.as_bytes()])),
    }
}

/// RFC 7616 §3.4.4: username = H( unq(username) ":" unq(realm) )
pub fn userhash(kind: HashKind, user: &str, realm: &str) -> String {
    h(kind, &join(&[user.as_bytes(), realm.as_bytes()]))
}

// ------------------------------------------------------------------------------------------
// header splitter
// ------------------------------------------------------------------------------------------

#[derive(Clone, Debug, PartialEq, Eq)]
pub struct Field {
    pub name: String,
    /// value with the quotes removed and quoted-pairs resolved
    pub value: String,
    pub quoted: bool,
}

#[derive(Clone, Debug, PartialEq, Eq)]
pub struct Credentials {
    pub scheme: String,
    pub fields: Vec<Field>,
}

impl Credentials {
    /// all values of a (case-insensitively named) parameter
    pub fn all(&self, name: &str) -> Vec<&Field> {
        self.fields.iter().filter(|f| f.name.eq_ignore_ascii_case(name)).collect()
    }
    pub fn get(&self, name: &str) -> Option<&str> {
        self.fields
            .iter()
            .find(|f| f.name.eq_ignore_ascii_case(name))
            .map(|f| f.value.as_str())
    }
}

fn is_lws(c: char) -> bool {
    matches!(c, ' ' | '\t' | '\r' | '\n')
}

/// RFC 3261 `token` characters plus nothing else
fn is_token_char(c: char) -> bool {
    c.is_ascii_alphanumeric() || "-.!%*_+`'~".contains(c)
}

/// Split `Digest a=b, c="d, e", f*=UTF-8''x` into scheme and parameters.
/// Commas inside quoted strings do not separate; `\x` inside a quoted string yields `x`.
pub fn split_header(value: &str) -> Result<Credentials, String> {
    let chars: Vec<char> = value.chars().collect();
    let n = chars.len();
    let mut i = 0usize;
    while i < n && is_lws(chars[i]) {
        i += 1;
    }
    let s0 = i;
    while i < n && !is_lws(chars[i]) {
        i += 1;
    }
    let scheme: String = chars[s0..i].iter().collect();
    if scheme.is_empty() || !scheme.chars().all(is_token_char) {
        return Err(format!("scheme {scheme:?} is not a token"));
    }
    let mut fields = Vec::new();
    loop {
        while i < n && is_lws(chars[i]) {
            i += 1;
        }
        if i >= n {
            return Err("parameter expected, found end of value".into());
        }
        let n0 = i;
        while i < n && is_token_char(chars[i]) {
            i += 1;
        }
        let name: String = chars[n0..i].iter().collect();
        if name.is_empty() {
            return Err(format!("parameter name expected at offset {n0}"));
        }
        while i < n && is_lws(chars[i]) {
            i += 1;
        }
        if i >= n || chars[i] != '=' {
            return Err(format!("'=' expected after parameter {name:?}"));
        }
        i += 1;
        while i < n && is_lws(chars[i]) {
            i += 1;
        }
        let mut val = String::new();
        let quoted;
        if i < n && chars[i] == '"' {
            quoted = true;
            i += 1;
            loop {
                if i >= n {
                    return Err(format!("unterminated quoted string in parameter {name:?}"));
                }
                match chars[i] {
                    '"' => {
                        i += 1;
                        break;
                    }
                    '\\' => {
                        if i + 1 >= n {
                            return Err(format!("dangling backslash in parameter {name:?}"));
                        }
                        val.push(chars[i + 1]);
                        i += 2;
                    }
                    c => {
                        val.push(c);
                        i += 1;
                    }
                }
            }
        } else {
            quoted = false;
            let v0 = i;
            while i < n && chars[i] != ',' && !is_lws(chars[i]) {
                if chars[i] == '"' {
                    return Err(format!("stray quote in unquoted value of parameter {name:?}"));
                }
                i += 1;
            }
            val = chars[v0..i].iter().collect();
            if val.is_empty() {
                return Err(format!("empty unquoted value of parameter {name:?}"));
            }
        }
        fields.push(Field { name, value: val, quoted });
        while i < n && is_lws(chars[i]) {
            i += 1;
        }
        if i >= n {
            break;
        }
        if chars[i] != ',' {
            return Err(format!("',' expected after parameter {:?}, found {:?}", fields.last().unwrap().name, chars[i]));
        }
        i += 1;
    }
    Ok(Credentials { scheme, fields })
}

// ------------------------------------------------------------------------------------------
// RFC 5987 ext-value
// ------------------------------------------------------------------------------------------

fn hexval(c: u8) -> Option<u8> {
    match c {
        b'0'..=b'9' => Some(c - b'0'),
        b'a'..=b'f' => Some(c - b'a' + 10),
        b'A'..=b'F' => Some(c - b'A' + 10),
        _ => None,
    }
}

/// `ext-value = charset "'" [ language ] "'" value-chars`, charset must be UTF-8 (RFC 7616 §3.4)
pub fn decode_ext_value(v: &str) -> Result<String, String> {
    let mut it = v.splitn(3, '\'');
    let charset = it.next().unwrap_or("");
    let _lang = it.next().ok_or("ext-value: missing first \"'\"")?;
    let chars = it.next().ok_or("ext-value: missing second \"'\"")?;
    if !charset.eq_ignore_ascii_case("UTF-8") {
        return Err(format!("ext-value: charset {charset:?} is not UTF-8"));
    }
    let b = chars.as_bytes();
    let mut out = Vec::with_capacity(b.len());
    let mut i = 0;
    while i < b.len() {
        let c = b[i];
        if c == b'%' {
            if i + 2 >= b.len() {
                return Err("ext-value: truncated pct-encoding".into());
            }
            let (Some(hi), Some(lo)) = (hexval(b[i + 1]), hexval(b[i + 2])) else {
                return Err("ext-value: bad pct-encoding".into());
            };
            out.push(hi * 16 + lo);
            i += 3;
        } else if c.is_ascii_alphanumeric() || b"!#$&+-.^_`|~".contains(&c) {
            // attr-char
            out.push(c);
            i += 1;
        } else {
            return Err(format!("ext-value: character {:?} must be pct-encoded", c as char));
        }
    }
    String::from_utf8(out).map_err(|_| "ext-value: not valid UTF-8 after decoding".to_string())
}

#[cfg(test)]
mod test {
    use super::*;

    #[test]
    fn rfc2617_vector() {
        let k = HashKind::Md5;
        let ha1 = ha1_base(k, "Mufasa", "testrealm@host.com", "Circle Of Life");
        let ha2 = ha2(k, Some("auth"), "GET", "/dir/index.html", b"").unwrap();
        let r = response(k, &ha1, "dcd98b7102dd2f0e8b11d0f600bfb0c093", Some(("auth", "00000001", "0a4f113b")), &ha2);
        assert_eq!(r, "6629fae49393a05397450978507c4ef1");
    }

    #[test]
    fn rfc7616_vectors() {
        let nonce = "7ypf/xlj9XXwfDPEoM4URrv/xwf94BcCAzFZH4GiTo0v";
        let cnonce = "f2/wE4q74E6zIJEtWaHKaf5wv/H5QzzpXusqGemxURZJ";
        for (k, want) in [
            (HashKind::Md5, "8ca523f5e9506fed4657c9700eebdbec"),
            (HashKind::Sha256, "753927fa0e85d155564e2e272a28d1802ca10daf4496794697cf8db5856cb6c1"),
        ] {
            let ha1 = ha1_base(k, "Mufasa", "http-auth@example.org", "Circle of Life");
            let ha2 = ha2(k, Some("auth"), "GET", "/dir/index.html", b"").unwrap();
            assert_eq!(response(k, &ha1, nonce, Some(("auth", "00000001", cnonce)), &ha2), want);
        }
    }

    #[test]
    fn rfc3261_style_no_qop() {
        // the vector pinned by ezk's own test (RFC 2069 style, no qop)
        let k = HashKind::Md5;
        let ha1 = ha1_base(k, "user123", "example.org", "password123");
        let ha2 = ha2(k, None, "REGISTER", "sip:example.org", b"").unwrap();
        assert_eq!(
            response(k, &ha1, "YWmh5GFpoLjiTDCA1hTSSygkgdj99aHE", None, &ha2),
            "bc185e4893f17f12dc53153d2a62e6a6"
        );
    }

    #[test]
    fn splitter() {
        let c = split_header(
            r#"Digest username="a, \"b\"", realm="x", nc=0000000A, username*=UTF-8''J%C3%A4s, qop=auth ,opaque="""#,
        )
        .unwrap();
        assert_eq!(c.scheme, "Digest");
        assert_eq!(c.get("username"), Some("a, \"b\""));
        assert_eq!(c.get("nc"), Some("0000000A"));
        assert_eq!(c.get("opaque"), Some(""));
        assert_eq!(c.get("qop"), Some("auth"));
        assert_eq!(decode_ext_value(c.get("username*").unwrap()).unwrap(), "Jäs");
        assert!(split_header(r#"Digest a="b" c=d"#).is_err());
        assert!(split_header(r#"Digest a="b"#).is_err());
    }

    #[test]
    fn alg_tokens() {
        assert_eq!(Alg::from_token(None), Some(Alg { hash: HashKind::Md5, sess: false }));
        assert_eq!(Alg::from_token(Some("sha-512-256-SESS")), Some(Alg { hash: HashKind::Sha512_256, sess: true }));
        assert_eq!(Alg::from_token(Some("SHA-512")), None);
    }
}
