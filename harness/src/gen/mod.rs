
pub mod sdp;
